"""Translator tie for the registration API (C19):

    poorwsgi/wsgi.py  Application.add/pop_before_response,
                      add/pop_after_response (+ the deprecated *_request
                      one-line delegations), set/pop_default,
                      set/pop/is_route, set/pop/is_regular_route,
                      set/pop_http_state, set/pop_error_handler
    poorwsgi/state.py the dict `methods`
        ->  coq/gen/RegistryGen.v   (gen_<method>[_loop_<n>],
                                     gen_<method>_default_<i>,
                                     gen_methods_values)

Domain-specific and fail closed.  Every method is walked statement by
statement (Python `ast`) and becomes a Gallina function
    app -> arguments -> app * outcome
that threads the model's state record (coq/model/Registry.v) through the
statements.  GENERATED FROM THE SYNTAX: which table every statement reads or
writes, the order of tests and updates, `if k not in T: T[k] = {}` (creation)
versus `T[k] = {...}` (replacement), the loop over `methods.values()` with
its body and mask test, which list a duplicate test looks at, what a pop_*
removes and under which test the record itself is deleted, every `raise`
(class name) and every operation that can raise (KeyError of `T[k]` and
`d.pop(k)`, ValueError of `list.remove`), what is returned, the delegation
between methods, the values of `methods` and of the default masks.

TRUSTED (the tables below and coq/lib/PyRegistry.v, nothing else):
  TABLES    attribute of self  -> projection / setter of Registry.app, type;
  METHODS   parameter types of the translated methods, by position;
  the reading of a uri: `re_filter.search(uri)` true = Registry.Group r,
  false = Registry.Static p; RURI_EXPR / CONVERTERS_EXPR / re.compile(x,
  re.U) = route compilation, a primitive of the model (the compiled pattern
  of a group uri and of a regular expression are identified by the same
  number r); of the tuple (fun, converters, rule) stored in the regular
  table only fun is modelled; the message of an exception is not observed;
  `@deprecated(...)` only warns.
  DROPPED   docstrings, `pass`, calls of log.*.
Everything else raises py2v.Unsupported: the generated file and its compiled
forms are removed and the theorems C19_generated_* stop compiling.

Parameters are named by position (x1, x2, ...), locals by binding position
(v1, v2, ...), states a, a1, a2, ...: renaming a parameter or a local,
adding comments, type hints or log calls leaves the generated text
unchanged.
"""
import ast
import os

import py2v
from py2v import Unsupported

# ===================================================================== TRUSTED
SOURCE = "poorwsgi/wsgi.py"
CLASS = "Application"

# identifier types (all Z in the model; different roles never mix)
T_FUN = ("fun",)          # a callable: handler or hook
T_INT = ("int",)          # method mask / method bit
T_PATH = ("path",)        # static uri
T_RSRC = ("rsrc",)        # text of a regular expression
T_PAT = ("pat",)          # compiled pattern
T_CODE = ("code",)        # http status code
T_EXC = ("exc",)          # exception class
T_URI = ("uri",)          # Registry.uri: Static p | Group r
T_GURI = ("guri",)        # a uri known to have group syntax (payload r)
T_ENTRY = ("entry",)      # (fun, converters, rule): only fun is modelled
T_BOOL = ("bool",)
T_NONE = ("none",)
T_OPAQUE = ("opaque",)    # not observed by the model
Z_TYPES = (T_FUN, T_INT, T_PATH, T_RSRC, T_PAT, T_CODE, T_EXC, T_ENTRY)


def T_DICT(key, val):
    return ("dict", key, val)


def T_LIST(item):
    return ("list", item)


# attribute of self -> (projection, setter, type)
TABLES = {
    "self.__before": ("a_before", "set_before", T_LIST(T_FUN)),
    "self.__after": ("a_after", "set_after", T_LIST(T_FUN)),
    "self.__dhandlers": ("a_defaults", "set_defaults", T_DICT(T_INT, T_FUN)),
    "self.__handlers":
        ("a_routes", "set_routes", T_DICT(T_PATH, T_DICT(T_INT, T_FUN))),
    "self.__rhandlers":
        ("a_regular", "set_regular", T_DICT(T_PAT, T_DICT(T_INT, T_ENTRY))),
    "self.__shandlers":
        ("a_states", "set_states", T_DICT(T_CODE, T_DICT(T_INT, T_FUN))),
    "self.__ehandlers":
        ("a_errors", "set_errors", T_DICT(T_EXC, T_DICT(T_INT, T_FUN))),
}

# translated methods in translation order (callees first): parameter types
# after self, by position.  Opaque parameters are not passed on.
METHODS = [
    ("add_before_response", [T_FUN]),
    ("pop_before_response", [T_FUN]),
    ("add_after_response", [T_FUN]),
    ("pop_after_response", [T_FUN]),
    ("add_before_request", [T_FUN]),        # deprecated delegations
    ("pop_before_request", [T_FUN]),
    ("add_after_request", [T_FUN]),
    ("pop_after_request", [T_FUN]),
    ("set_default", [T_FUN, T_INT]),
    ("pop_default", [T_INT]),
    ("set_regular_route", [T_RSRC, T_FUN, T_INT, T_OPAQUE, T_OPAQUE]),
    ("pop_regular_route", [T_RSRC, T_INT]),
    ("is_regular_route", [T_RSRC]),
    ("set_route", [T_URI, T_FUN, T_INT]),
    ("pop_route", [T_URI, T_INT]),
    ("is_route", [T_URI]),
    ("set_http_state", [T_CODE, T_FUN, T_INT]),
    ("pop_http_state", [T_CODE, T_INT]),
    ("set_error_handler", [T_EXC, T_FUN, T_INT]),
    ("pop_error_handler", [T_EXC, T_INT]),
]
# NOT translated, by name: set_filter (string operations on the filter name,
# C19 covers it by the hand model + correspondence); the decorator forms
# before_request, before_response, after_request, after_response, default,
# route, regular_route, http_state, error_handler (closures that call the
# set_* / add_* method and return the function).

# the group test of a uri, and the module-level definition it relies on
URI_TEST = "re_filter.search"
RE_FILTER_DEF = r"re_filter = re.compile('<(\\w+)(:[^>]+)?>')"
# route compilation (primitive of the model): with {uri} a group uri,
#   RURI_EXPR        -> the regular-expression text, identified with r
#   CONVERTERS_EXPR  -> not observed
#   re.compile(x, re.U) of a regular-expression text -> the pattern (same r)
RURI_EXPR = "re_filter.sub(self.__regex, {uri}) + '\\\\Z'"
CONVERTERS_EXPR = ("tuple((g[0], self.__converter(g[1])) for g in "
                   "(m.groups() for m in re_filter.finditer({uri})))")
COMPILE = ("re.compile", "re.U")
# the iterated method bits:  for val in methods.values()
METHODS_ITER = "methods.values"
METHODS_TERM = "gen_methods_values"
# decorators that do not change what the method does
DECORATORS = ("deprecated",)
# statements dropped: docstrings, `pass`, calls of log.*
DROPPED_CALL_PREFIX = "log."
RESERVED = {"self", "re", "re_filter", "methods", "log", "tuple",
            "deprecated"}
# ================================================================ end TRUSTED


class Value:
    def __init__(self, term, typ):
        self.term, self.typ = term, typ


class Ref(Value):
    """a local bound by T.get(key, {}): alias of T[key] or a fresh dict"""
    def __init__(self, table, key, content, typ, ver):
        Value.__init__(self, content, typ)
        self.table, self.key, self.ver = table, key, ver


class State:
    """what is known at one program point"""
    def __init__(self):
        self.env = {}       # local name -> Value
        self.a = "a"        # the Coq variable holding the current state
        self.scope = []     # [(Coq variable, Coq type)] other than states
        self.ver = {t: 0 for t in TABLES}   # direct mutations so far

    def copy(self):
        new = State()
        new.env, new.a = dict(self.env), self.a
        new.scope, new.ver = list(self.scope), dict(self.ver)
        return new

    def bump(self, table=None):
        for t in ([table] if table else list(TABLES)):
            self.ver[t] += 1


def dotted(node):
    if isinstance(node, ast.Name):
        return node.id
    if isinstance(node, ast.Attribute):
        base = dotted(node.value)
        return None if base is None else "%s.%s" % (base, node.attr)
    return None


def coq_type(typ):
    return "uri" if typ == T_URI else "Z"


def same_ast(node, text):
    return ast.dump(node) == ast.dump(ast.parse(text, mode="eval").body)


class Fn:
    """one translated method"""
    def __init__(self, tr, fundef, types):
        self.tr, self.fundef = tr, fundef
        self.gen_name = "gen_" + fundef.name
        self.nvars = self.nstates = self.nloops = 0
        self.loops = []
        self.defaults = []
        self.init = State()
        args = fundef.args
        names = [x.arg for x in args.args]
        if args.posonlyargs or args.vararg or args.kwarg or \
                args.kwonlyargs or names[:1] != ["self"] or \
                len(names) - 1 != len(types):
            raise Unsupported(fundef, "signature")
        for dec in fundef.decorator_list:
            if not (isinstance(dec, ast.Call) and
                    dotted(dec.func) in DECORATORS and not dec.keywords and
                    all(isinstance(x, ast.Constant) for x in dec.args)):
                raise Unsupported(dec, "decorator")
        self.params = []            # [(Coq name, type)] of the generated fn
        self.sig = []               # per Python parameter: (type, Coq name
        #                             or None, default term or None)
        ndef = len(args.defaults)
        for i, (name, typ) in enumerate(zip(names[1:], types), 1):
            if name in RESERVED or name in tr.consts:
                raise Unsupported(fundef, "parameter name %s" % name)
            k = i - 1 - (len(types) - ndef)
            default = args.defaults[k] if k >= 0 else None
            dterm = None
            if typ == T_OPAQUE:
                self.init.env[name] = Value(None, T_OPAQUE)
                self.sig.append((typ, None, None))
                continue
            var = "x%d" % i
            if default is not None:
                if typ != T_INT:
                    raise Unsupported(default, "default of a non-int")
                val = self.ev(default, State())
                if val.typ != T_INT:
                    raise Unsupported(default, "default value")
                dterm = "%s_default_%d" % (self.gen_name, i)
                self.defaults.append("Definition %s : Z := %s." %
                                     (dterm, val.term))
            self.init.env[name] = Value(var, typ)
            self.init.scope.append((var, coq_type(typ)))
            self.params.append((var, coq_type(typ)))
            self.sig.append((typ, var, dterm))

    def fresh(self):
        self.nvars += 1
        return "v%d" % self.nvars

    def fresh_state(self):
        self.nstates += 1
        return "a%d" % self.nstates

    # ------------------------------------------------------------ expressions
    def table(self, node):
        name = dotted(node)
        return name if name in TABLES else None

    def ev(self, node, st):
        """pure expressions (no effect, cannot raise inside the domain)"""
        if isinstance(node, ast.Name):
            if node.id in st.env:
                return st.env[node.id]
            if node.id in self.tr.consts:
                return Value(py2v.zl(self.tr.consts[node.id]), T_INT)
            raise Unsupported(node, "unknown name")
        tab = self.table(node)
        if tab is not None:
            proj, _, typ = TABLES[tab]
            return Value("(%s %s)" % (proj, st.a), typ)
        if isinstance(node, ast.Constant):
            val = node.value
            if val is None:
                return Value(None, T_NONE)
            if isinstance(val, int) and not isinstance(val, bool):
                return Value(py2v.zl(val), T_INT)
            raise Unsupported(node, "constant")
        if isinstance(node, ast.BinOp):
            hit = self.templated(node, st, RURI_EXPR)
            if hit is not None:
                return Value(hit.term, T_RSRC)
            ops = {ast.BitAnd: "Z.land", ast.BitOr: "Z.lor"}
            fn = ops.get(type(node.op))
            left, right = self.ev(node.left, st), self.ev(node.right, st)
            if fn is None or left.typ != T_INT or right.typ != T_INT:
                raise Unsupported(node, "operator")
            return Value("(%s %s %s)" % (fn, left.term, right.term), T_INT)
        if isinstance(node, ast.UnaryOp) and isinstance(node.op, ast.Not):
            return Value("(negb %s)" % self.truth(node.operand, st), T_BOOL)
        if isinstance(node, ast.BoolOp):
            op = " && " if isinstance(node.op, ast.And) else " || "
            return Value("(%s)" % op.join(self.truth(v, st)
                                          for v in node.values), T_BOOL)
        if isinstance(node, ast.Compare):
            return self.compare(node, st)
        if isinstance(node, ast.Tuple):
            vals = [self.ev(e, st) for e in node.elts]
            if [v.typ for v in vals] != [T_FUN, T_OPAQUE, T_OPAQUE]:
                raise Unsupported(node, "not (fun, converters, rule)")
            return Value(vals[0].term, T_ENTRY)
        if isinstance(node, ast.Dict):
            term, ktyp, vtyp = "[]", None, None
            for key, val in zip(node.keys, node.values):
                if key is None:
                    raise Unsupported(node, "** in a dict display")
                k, v = self.ev(key, st), self.ev(val, st)
                if k.typ not in Z_TYPES or v.typ not in Z_TYPES or \
                        (ktyp, vtyp) not in ((None, None), (k.typ, v.typ)):
                    raise Unsupported(node, "dict display")
                ktyp, vtyp = k.typ, v.typ
                term = "(zset %s %s %s)" % (k.term, v.term, term)
            return Value(term, T_DICT(ktyp, vtyp))
        if isinstance(node, ast.Call):
            return self.call(node, st)
        raise Unsupported(node, "expression")

    def templated(self, node, st, template):
        """node is `template` with {uri} a local known to be a group uri"""
        for name, val in st.env.items():
            if val.typ == T_GURI and same_ast(node,
                                              template.format(uri=name)):
                return val
        return None

    def compare(self, node, st):
        if len(node.ops) != 1:
            raise Unsupported(node, "chained comparison")
        op = node.ops[0]
        if not isinstance(op, (ast.In, ast.NotIn)):
            raise Unsupported(node, "comparison")
        key = self.ev(node.left, st)
        box = self.ev(node.comparators[0], st)
        if box.typ[0] == "dict" and box.typ[1] == key.typ:
            term = "(zmem %s %s)" % (key.term, box.term)
        elif box.typ[0] == "list" and box.typ[1] == key.typ:
            term = "(inb %s %s)" % (key.term, box.term)
        else:
            raise Unsupported(node, "`in` of these types")
        if isinstance(op, ast.NotIn):
            term = "(negb %s)" % term
        return Value(term, T_BOOL)

    def call(self, node, st):
        if node.keywords:
            raise Unsupported(node, "keywords")
        fname = dotted(node.func)
        if fname == COMPILE[0]:
            if len(node.args) != 2 or dotted(node.args[1]) != COMPILE[1]:
                raise Unsupported(node, "arguments of re.compile")
            src = self.ev(node.args[0], st)
            if src.typ != T_RSRC:
                raise Unsupported(node, "re.compile of this value")
            return Value(src.term, T_PAT)
        if self.templated(node, st, CONVERTERS_EXPR) is not None:
            return Value(None, T_OPAQUE)
        if isinstance(node.func, ast.Attribute) and \
                node.func.attr == "count" and len(node.args) == 1:
            box = self.ev(node.func.value, st)
            item = self.ev(node.args[0], st)
            if box.typ[0] != "list" or box.typ[1] != item.typ:
                raise Unsupported(node, "count of these types")
            return Value("(py_count %s %s)" % (item.term, box.term), T_INT)
        raise Unsupported(node, "call")

    def truth(self, node, st):
        val = self.ev(node, st)
        if val.typ == T_BOOL:
            return val.term
        if val.typ == T_INT:
            return "(truth_int %s)" % val.term
        if val.typ[0] == "dict":
            self.live(node, val, st)
            return "(truth_dict %s)" % val.term
        raise Unsupported(node, "truth value of a %s" % val.typ[0])

    @staticmethod
    def live(node, val, st):
        if isinstance(val, Ref) and val.ver != st.ver[val.table]:
            raise Unsupported(node, "local dict used after its table "
                              "changed")

    # ------------------------------------------------ operations with effects
    def effect(self, node, st, cont):
        """expression that may change the state or raise;
        cont(st, Value) -> code"""
        if isinstance(node, ast.Call) and not node.keywords and \
                isinstance(node.func, ast.Attribute):
            recv, attr, args = node.func.value, node.func.attr, node.args
            if dotted(recv) == "self" and attr in self.tr.done:
                return self.method_call(node, st, cont)
            tab = self.table(recv)
            local = st.env.get(recv.id) if isinstance(recv, ast.Name) \
                else None
            if attr == "pop" and (tab or isinstance(local, Ref)):
                return self.dict_pop(node, tab, local, args, st, cont)
            if attr == "get" and tab:
                return self.dict_get(node, tab, args, st, cont)
            if attr in ("append", "remove") and tab and len(args) == 1:
                return self.list_op(node, tab, attr, args[0], st, cont)
        return cont(st, self.ev(node, st))

    def method_call(self, node, st, cont):
        term = self.call_term(node, st)
        new, exc = self.fresh_state(), self.fresh()
        st.a = new
        st.bump()
        return ("(match %s with\n | (%s, Raised %s) => (%s, Raised %s)\n"
                " | (%s, _) => %s\n end)") % (
                    term, new, exc, new, exc, new,
                    cont(st, Value(None, T_OPAQUE)))

    def call_term(self, node, st):
        """self.<translated method>(args) -> application of its gen_ fn"""
        name = node.func.attr
        gen_name, sig = self.tr.done[name]
        if node.keywords or len(node.args) > len(sig) or \
                any(isinstance(x, ast.Starred) for x in node.args):
            raise Unsupported(node, "arguments")
        out = [gen_name, st.a]
        for i, (typ, var, dterm) in enumerate(sig):
            if i < len(node.args):
                val = self.ev(node.args[i], st)
                if typ == T_OPAQUE:
                    continue        # evaluated, not observed
                if val.typ != typ:
                    raise Unsupported(node.args[i], "argument type")
                out.append(val.term)
            elif typ == T_OPAQUE:
                continue
            elif dterm is None:
                raise Unsupported(node, "missing argument")
            else:
                out.append(dterm)
        return "(%s)" % " ".join(out)

    def dict_pop(self, node, tab, local, args, st, cont):
        """T.pop(k[, None]) on a table, h.pop(k[, None]) on a local dict"""
        if tab:
            proj, setter, typ = TABLES[tab]
            box = "(%s %s)" % (proj, st.a)
        else:
            self.live(node, local, st)
            proj, setter, _ = TABLES[local.table]
            typ, box = local.typ, local.term
        if typ[0] != "dict" or not 1 <= len(args) <= 2:
            raise Unsupported(node, "pop")
        key = self.ev(args[0], st)
        if key.typ != typ[1]:
            raise Unsupported(node, "key type")
        if len(args) == 2 and self.ev(args[1], st).typ != T_NONE:
            raise Unsupported(node, "default of pop")
        if len(args) == 1 and typ[2][0] == "dict":
            raise Unsupported(node, "pop of an inner dict")
        rest = "(zdel %s %s)" % (key.term, box)
        old, new = st.a, self.fresh_state()
        if tab:
            lets = "let %s := %s %s %s in" % (new, setter, old, rest)
            st.bump(tab)
        else:
            # the removal is seen in the table when the local is T[key]
            shown = self.fresh()
            lets = ("let %s := %s in\n let %s := %s %s (alias_store %s %s "
                    "(%s %s)) in") % (shown, rest, new, setter, old,
                                      local.key, shown, proj, old)
            st.scope.append((shown, "mtab"))
            fresh = Ref(local.table, local.key, shown, local.typ, local.ver)
            st.env = {n: (fresh if v is local else v)
                      for n, v in st.env.items()}
        st.a = new
        if len(args) == 2:
            # never raises; the value (an inner dict or None) is not used
            return "(%s\n %s)" % (lets, cont(st, Value(None, T_OPAQUE)))
        got = self.fresh()
        st.scope.append((got, "Z"))
        return ("(match zget %s %s with\n"
                ' | None => (%s, Raised "KeyError")\n | Some %s =>\n'
                " %s\n %s\n end)") % (key.term, box, old, got, lets,
                                      cont(st, Value(got, typ[2])))

    def dict_get(self, node, tab, args, st, cont):
        proj, _, typ = TABLES[tab]
        if typ[0] != "dict" or typ[2][0] != "dict" or len(args) != 2 or \
                not (isinstance(args[1], ast.Dict) and not args[1].keys):
            raise Unsupported(node, "not T.get(key, {})")
        key = self.ev(args[0], st)
        if key.typ != typ[1]:
            raise Unsupported(node, "key type")
        var = self.fresh()
        ref = Ref(tab, key.term, var, typ[2], st.ver[tab])
        st.scope.append((var, "mtab"))
        return "(let %s := dget_default %s (%s %s) [] in\n %s)" % (
            var, key.term, proj, st.a, cont(st, ref))

    def list_op(self, node, tab, attr, arg, st, cont):
        proj, setter, typ = TABLES[tab]
        item = self.ev(arg, st)
        if typ[0] != "list" or typ[1] != item.typ:
            raise Unsupported(node, "list operation")
        old, new = st.a, self.fresh_state()
        st.a = new
        st.bump(tab)
        done = cont(st, Value(None, T_NONE))
        if attr == "append":
            return "(let %s := %s %s (%s %s ++ [%s]) in\n %s)" % (
                new, setter, old, proj, old, item.term, done)
        var = self.fresh()
        return ("(match py_remove %s (%s %s) with\n | Some %s =>\n"
                " let %s := %s %s %s in\n %s\n"
                ' | None => (%s, Raised "ValueError")\n end)') % (
                    item.term, proj, old, var, new, setter, old, var, done,
                    old)

    # ---------------------------------- stores (with or without a KeyError)
    def store(self, s, st):
        """T[k] = v  /  T[k][j] = v
        -> (table, code of the new state or None, failing code or None)"""
        tgt = s.targets[0]
        tab = self.table(tgt.value)
        if tab is not None:
            proj, setter, typ = TABLES[tab]
            key, val = self.ev(tgt.slice, st), self.ev(s.value, st)
            if typ[0] != "dict" or key.typ != typ[1] or not (
                    val.typ == typ[2] or
                    val.typ == T_DICT(None, None) and typ[2][0] == "dict"):
                raise Unsupported(s, "store of these types")
            return tab, lambda a: "(%s %s (zset %s %s (%s %s)))" % (
                setter, a, key.term, val.term, proj, a), None
        inner = tgt.value
        if isinstance(inner, ast.Subscript):
            tab = self.table(inner.value)
            if tab is not None:
                proj, setter, typ = TABLES[tab]
                key = self.ev(inner.slice, st)
                sub, val = self.ev(tgt.slice, st), self.ev(s.value, st)
                if typ[0] != "dict" or typ[2][0] != "dict" or \
                        key.typ != typ[1] or sub.typ != typ[2][1] or \
                        val.typ != typ[2][2]:
                    raise Unsupported(s, "store of these types")
                got = self.fresh()
                return tab, lambda a: "(%s %s (zset %s (zset %s %s %s) " \
                    "(%s %s)))" % (setter, a, key.term, sub.term, val.term,
                                   got, proj, a), \
                    (got, "zget %s (%s %s)" % (key.term, proj, st.a))
        raise Unsupported(s, "store target")

    def mutation(self, s, st):
        """a statement that only changes the state and cannot raise
        -> (table or None, state term builder) or None"""
        if self.dropped(s):
            return None, None
        if isinstance(s, ast.Assign) and len(s.targets) == 1 and \
                isinstance(s.targets[0], ast.Subscript) and \
                self.table(s.targets[0].value):
            tab, build, fail = self.store(s, st)
            return (tab, build) if fail is None else None
        if isinstance(s, ast.Expr) and isinstance(s.value, ast.Call) and \
                isinstance(s.value.func, ast.Attribute) and \
                not s.value.keywords:
            call = s.value
            tab = self.table(call.func.value)
            if tab and call.func.attr == "pop" and len(call.args) == 2:
                proj, setter, typ = TABLES[tab]
                key = self.ev(call.args[0], st)
                if typ[0] != "dict" or key.typ != typ[1] or \
                        self.ev(call.args[1], st).typ != T_NONE:
                    raise Unsupported(s, "pop with a default")
                return tab, lambda a: "(%s %s (zdel %s (%s %s)))" % (
                    setter, a, key.term, proj, a)
            if tab and call.func.attr == "append" and len(call.args) == 1:
                proj, setter, typ = TABLES[tab]
                item = self.ev(call.args[0], st)
                if typ[0] != "list" or typ[1] != item.typ:
                    raise Unsupported(s, "append")
                return tab, lambda a: "(%s %s (%s %s ++ [%s]))" % (
                    setter, a, proj, a, item.term)
        return None

    def straight(self, stmts, st):
        """all statements are mutations -> (code of the final state, tables
        touched) else None"""
        code, cur, tabs, close = "", st.a, [], 0
        for s in stmts:
            now = st.copy()
            now.a = cur
            hit = self.mutation(s, now)
            if hit is None:
                return None
            tab, build = hit
            if tab is None:
                continue
            new = self.fresh_state()
            code += "(let %s := %s in " % (new, build(cur))
            cur, close = new, close + 1
            tabs.append(tab)
        return code + cur + ")" * close, tabs

    @staticmethod
    def dropped(s):
        if isinstance(s, ast.Pass):
            return True
        if isinstance(s, ast.Expr):
            if isinstance(s.value, ast.Constant) and \
                    isinstance(s.value.value, str):
                return True                                   # docstring
            if isinstance(s.value, ast.Call) and \
                    (dotted(s.value.func) or "").startswith(
                        DROPPED_CALL_PREFIX):
                return True                                   # log.*(...)
        return False

    # ------------------------------------------------------------- statements
    def block(self, stmts, st, k):
        """k : State -> code, used when the block falls through"""
        if not stmts:
            return k(st)
        s, rest = stmts[0], stmts[1:]

        def after(st2):
            return self.block(rest, st2, k)

        def last(code):
            if rest:
                raise Unsupported(rest[0], "unreachable statement")
            return code
        if self.dropped(s):
            return after(st)
        if isinstance(s, ast.Expr):
            return self.effect(s.value, st, lambda st2, _val: after(st2))
        if isinstance(s, ast.Assign):
            return self.assign(s, st, after)
        if isinstance(s, ast.If):
            return self.if_stmt(s, st, after)
        if isinstance(s, ast.For):
            return self.for_loop(s, st, after)
        if isinstance(s, ast.Return):
            return last(self.ret(s, st))
        if isinstance(s, ast.Raise):
            exc = s.exc
            if s.cause is not None or not isinstance(exc, ast.Call) or \
                    not isinstance(exc.func, ast.Name) or exc.keywords or \
                    exc.func.id in st.env or exc.func.id in RESERVED:
                raise Unsupported(s, "raise")
            # the arguments build the message, which is not observed; they
            # may only format values
            for arg in exc.args:
                for sub in ast.walk(arg):
                    if isinstance(sub, (ast.NamedExpr, ast.Await, ast.Yield,
                                        ast.YieldFrom, ast.Lambda)) or \
                            isinstance(sub, ast.Call) and \
                            dotted(sub.func) not in ("str", "repr"):
                        raise Unsupported(s, "argument of the exception")
            return last('(%s, Raised "%s")' % (st.a, exc.func.id))
        raise Unsupported(s, "statement")

    def assign(self, s, st, after):
        if len(s.targets) != 1:
            raise Unsupported(s, "chained assignment")
        tgt = s.targets[0]
        if isinstance(tgt, ast.Name):
            if tgt.id in RESERVED or tgt.id in self.tr.consts:
                raise Unsupported(s, "assignment to %s" % tgt.id)

            def bind(st2, val):
                if not (val.typ in Z_TYPES + (T_BOOL, T_OPAQUE, T_GURI) or
                        isinstance(val, Ref)):
                    raise Unsupported(s, "local bound to a %s" % val.typ[0])
                if val.term is not None and " " in val.term:
                    var = self.fresh()
                    st2.scope.append((var, "bool" if val.typ == T_BOOL
                                      else "Z"))
                    st2.env[tgt.id] = Value(var, val.typ)
                    return "(let %s := %s in\n %s)" % (var, val.term,
                                                      after(st2))
                st2.env[tgt.id] = val
                return after(st2)
            return self.effect(s.value, st, bind)
        if isinstance(tgt, ast.Subscript):
            tab, build, fail = self.store(s, st)
            old, new = st.a, self.fresh_state()
            st.a = new
            st.bump(tab)
            code = "let %s := %s in\n %s" % (new, build(old), after(st))
            if fail is None:
                return "(%s)" % code
            return ('(match %s with\n | Some %s =>\n %s\n'
                    ' | None => (%s, Raised "KeyError")\n end)') % (
                        fail[1], fail[0], code, old)
        raise Unsupported(s, "assignment target")

    def uri_test(self, node, st):
        """re_filter.search(x), x a uri not yet examined -> name of x"""
        if isinstance(node, ast.Call) and dotted(node.func) == URI_TEST \
                and not node.keywords and len(node.args) == 1 and \
                isinstance(node.args[0], ast.Name) and \
                node.args[0].id in st.env and \
                st.env[node.args[0].id].typ == T_URI:
            return node.args[0].id
        return None

    def if_stmt(self, s, st, after):
        test, body, orelse = s.test, s.body, s.orelse
        if isinstance(test, ast.UnaryOp) and isinstance(test.op, ast.Not) \
                and self.uri_test(test.operand, st):
            test, body, orelse = test.operand, orelse, body
        name = self.uri_test(test, st)
        if name is not None:
            # Group r: the test is true; Static p: it is false
            term = st.env[name].term
            codes = []
            for typ, stmts in ((T_GURI, body), (T_PATH, orelse)):
                st2, var = st.copy(), self.fresh()
                st2.env[name] = Value(var, typ)
                st2.scope.append((var, "Z"))
                codes.append((var, self.block(stmts, st2, after)))
            return ("(match %s with\n | Group %s =>\n %s\n | Static %s =>\n"
                    " %s\n end)") % (term, codes[0][0], codes[0][1],
                                     codes[1][0], codes[1][1])
        cond = self.truth(test, st)
        # both branches only change the state: one join point
        then, other = self.straight(body, st), self.straight(orelse, st)
        if then is not None and other is not None:
            new = self.fresh_state()
            code = "let %s := (if %s\n then %s\n else %s) in" % (
                new, cond, then[0], other[0])
            st.a = new
            for tab in then[1] + other[1]:
                st.bump(tab)
            return "(%s\n %s)" % (code, after(st))
        return "(if %s\n then %s\n else %s)" % (
            cond, self.block(body, st.copy(), after),
            self.block(orelse, st.copy(), after))

    def for_loop(self, s, st, after):
        if s.orelse or not isinstance(s.target, ast.Name) or \
                s.target.id in RESERVED or s.target.id in self.tr.consts:
            raise Unsupported(s, "for-else / target")
        it = s.iter
        if not (isinstance(it, ast.Call) and dotted(it.func) == METHODS_ITER
                and not it.args and not it.keywords) or "methods" in st.env:
            raise Unsupported(it, "iteration over this object")
        if any(isinstance(v, Ref) for v in st.env.values()):
            raise Unsupported(s, "loop while a local dict is live")
        for node in ast.walk(s):
            if isinstance(node, (ast.Break, ast.Continue)):
                raise Unsupported(node, "break / continue")
        self.nloops += 1
        lname = "%s_loop_%d" % (self.gen_name, self.nloops)
        item, state = self.fresh(), self.fresh_state()
        outer = [n for n, _ in st.scope]

        def again(st2):
            return " ".join([lname] + outer + [st2.a, "rest"])
        body_st = st.copy()
        body_st.a = state
        body_st.env[s.target.id] = Value(item, T_INT)
        body_st.scope.append((item, "Z"))
        body = self.block(s.body, body_st, again)
        done_st = st.copy()     # locals of the body are not visible later
        done_st.a = state
        done_st.bump()
        done = after(done_st)
        binders = "".join(" (%s : %s)" % v for v in st.scope)
        self.loops.append(      # loops of the code after this one come first
            "Fixpoint %s%s (%s : app) (items : list Z) {struct items}"
            " : app * outcome :=\n match items with\n | [] => %s\n"
            " | %s :: rest =>\n %s\n end." % (lname, binders, state, done,
                                             item, body))
        return " ".join([lname] + outer + [st.a, METHODS_TERM])

    def ret(self, s, st):
        node = s.value
        if node is None:
            return "(%s, Done)" % st.a
        if isinstance(node, ast.Call) and not node.keywords and \
                isinstance(node.func, ast.Attribute) and \
                dotted(node.func.value) == "self" and \
                node.func.attr in self.tr.done:
            return self.call_term(node, st)     # result and exception alike
        return self.effect(node, st, self.result)

    def result(self, st, val):
        if val.typ == T_NONE:
            return "(%s, Done)" % st.a
        if val.typ in (T_FUN, T_ENTRY):
            return "(%s, Ret %s)" % (st.a, val.term)
        if val.typ == T_BOOL:
            return "(%s, Answer %s)" % (st.a, val.term)
        raise Unsupported(self.fundef, "returns a %s" % val.typ[0])

    # --------------------------------------------------------------- function
    def run(self):
        code = self.block(self.fundef.body, self.init,
                          lambda st: "(%s, Done)" % st.a)
        binders = "".join(" (%s : %s)" % v for v in self.params)
        return "\n\n".join(self.defaults + [indent(d) for d in self.loops + [
            "Definition %s (a : app)%s : app * outcome :=\n %s." % (
                self.gen_name, binders, code)]])


def indent(text):
    """layout only: indent every line by its parenthesis depth"""
    out, depth = [], 0
    for line in text.split("\n"):
        line = line.strip()
        out.append("  " * (depth + (0 if not out else 1)) + line)
        depth += line.count("(") - line.count(")")
    return "\n".join(out)


class Translation:
    def __init__(self):
        self.consts = py2v.state_consts()
        self.done = {}
        self.defs = [self.methods_values()]
        tree = py2v.parse(SOURCE)
        self.check_module(tree)
        cls = [n for n in tree.body if isinstance(n, ast.ClassDef)
               and n.name == CLASS]
        if len(cls) != 1:
            raise Unsupported(tree, "class %s" % CLASS)
        for name, types in METHODS:
            found = [n for n in cls[0].body
                     if isinstance(n, (ast.FunctionDef, ast.AsyncFunctionDef))
                     and n.name == name]
            if len(found) != 1 or not isinstance(found[0], ast.FunctionDef):
                raise Unsupported(cls[0], "definitions of %s" % name)
            fn = Fn(self, found[0], types)
            self.defs.append(fn.run())
            self.done[name] = (fn.gen_name, fn.sig)

    def methods_values(self):
        """state.py: methods = {'HEAD': METHOD_HEAD, ...} -> its values"""
        tree = py2v.parse("poorwsgi/state.py")
        hits = []
        for node in ast.walk(tree):
            tgts = []
            if isinstance(node, ast.Assign):
                tgts = node.targets
            elif isinstance(node, (ast.AugAssign, ast.AnnAssign, ast.For,
                                   ast.NamedExpr)):
                tgts = [node.target]
            for tgt in tgts:
                for sub in ast.walk(tgt):
                    if isinstance(sub, ast.Name) and sub.id == "methods":
                        hits.append(node)
        parents = {}
        for node in ast.walk(tree):
            for child in ast.iter_child_nodes(node):
                parents[child] = node
        for node in ast.walk(tree):
            # every other occurrence only reads the dict
            if isinstance(node, ast.Name) and node.id == "methods" and \
                    isinstance(node.ctx, ast.Load):
                up = parents.get(node)
                if not (isinstance(up, ast.Attribute) and
                        up.attr in ("items", "values", "keys") and
                        isinstance(parents.get(up), ast.Call)):
                    raise Unsupported(node, "use of state.methods")
            if isinstance(node, (ast.Global, ast.Nonlocal)) and \
                    "methods" in node.names:
                raise Unsupported(node, "global methods")
        if len(hits) != 1 or hits[0] not in tree.body or \
                not isinstance(hits[0], ast.Assign) or \
                len(hits[0].targets) != 1 or \
                not isinstance(hits[0].targets[0], ast.Name) or \
                not isinstance(hits[0].value, ast.Dict):
            raise Unsupported(tree, "definition of state.methods")
        seen, vals = [], []
        for key, val in zip(hits[0].value.keys, hits[0].value.values):
            if not isinstance(key, ast.Constant) or key.value in seen:
                raise Unsupported(hits[0], "keys of state.methods")
            seen.append(key.value)
            if isinstance(val, ast.Name) and val.id in self.consts:
                vals.append(self.consts[val.id])
            elif isinstance(val, ast.Constant) and \
                    type(val.value) is int:    # noqa: E721
                vals.append(val.value)
            else:
                raise Unsupported(val, "value of state.methods")
        return "Definition %s : list Z := [%s]." % (
            METHODS_TERM, "; ".join(py2v.zl(v) for v in vals))

    def check_module(self, tree):
        """the module-level names the tables give a meaning to"""
        want = ast.dump(ast.parse(RE_FILTER_DEF).body[0])
        found = 0
        for node in ast.walk(tree):
            if isinstance(node, ast.Name) and node.id == "re_filter" and \
                    isinstance(node.ctx, (ast.Store, ast.Del)):
                found += 1
        if found != 1 or not any(ast.dump(n) == want for n in tree.body):
            raise Unsupported(tree, "definition of re_filter")
        for node in ast.walk(tree):
            # imported names the tables rely on are never rebound
            if isinstance(node, ast.Name) and node.id in ("methods", "re") \
                    and isinstance(node.ctx, (ast.Store, ast.Del)):
                raise Unsupported(node, "rebinding of %s" % node.id)
            if isinstance(node, ast.arg) and \
                    node.arg in ("methods", "re", "re_filter"):
                raise Unsupported(node, "parameter named %s" % node.arg)
            if isinstance(node, (ast.Global, ast.Nonlocal)) and \
                    set(node.names) & {"methods", "re", "re_filter"}:
                raise Unsupported(node, "global declaration")
        imported = set()
        for node in tree.body:
            if isinstance(node, ast.ImportFrom) and \
                    node.module == "poorwsgi.state" and node.level == 0:
                imported |= {a.name for a in node.names if a.asname is None}
        if not {"methods", "deprecated"} <= imported:
            raise Unsupported(tree, "imports from poorwsgi.state")

    def text(self):
        out = ["(* GENERATED by harness/py2v_registry.py from "
               "poorwsgi/wsgi.py Application.%s and poorwsgi/state.py "
               "methods -- do not edit *)" % ", ".join(n for n, _ in METHODS),
               "From Coq Require Import ZArith List Bool String.",
               "Require Import PW.lib.Val PW.model.Registry "
               "PW.lib.PyRegistry.",
               "Import ListNotations.", "Open Scope string_scope.",
               "Open Scope list_scope.", "Open Scope Z_scope.", ""]
        return "\n".join(out) + "\n" + "\n\n".join(self.defs) + "\n"


def drop_compiled():
    """py2v.regenerate removes gen/RegistryGen.v when the translation is
    refused; the compiled files must go too, or an old RegistryGen.vo would
    keep the dependent theorems compiling"""
    coq = os.path.dirname(py2v.GEN)
    for stem in (os.path.join(py2v.GEN, "RegistryGen"),
                 os.path.join(coq, "proofs", "RegistryGenEq")):
        for ext in (".vo", ".vos", ".vok", ".glob"):
            if os.path.exists(stem + ext):
                os.unlink(stem + ext)


def gen_registry():
    try:
        text = Translation().text()
    except Exception:
        drop_compiled()
        raise
    os.makedirs(py2v.GEN, exist_ok=True)
    path = os.path.join(py2v.GEN, "RegistryGen.v")
    old = open(path).read() if os.path.exists(path) else None
    if old != text:
        with open(path, "w") as f:
            f.write(text)
    return path


def register(TARGETS, OUTPUT):
    TARGETS["registry"] = gen_registry
    OUTPUT["registry"] = "RegistryGen.v"
