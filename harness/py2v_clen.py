"""Translator plugin: the Content-Length bookkeeping of poorwsgi/response.py
-> coq/gen/ClenGen.v (properties C06, C07; proved equal to model/Range.v in
coq/proofs/ClenGenEq.v).

Translated (see METHODS below): Response.__init__, data, write,
__end_of_response__; FileObjResponse.__init__, data, __end_of_response__;
GeneratorResponse.__init__, __end_of_response__; IBytesIO.read_kilo,
__iter__.

Reuses the general translator (py2v.Unit over lib/Py.v: every value a `pv`,
statements in continuation style, `if` with join points) and adds, with the
semantics of lib/PyClen.v:

  * one generated function per method: parameters = the listed attributes of
    self it reads, then the method's own parameters; result =
    Ok (PTuple [returned value; the listed attributes of self afterwards]).
    Assigning any other attribute of self is refused;
  * file objects: the statements `X.seek(a)`, `X.seek(a, b)`, `X.write(a)` on
    a name X (a new object value replaces X); `X.read()` / `X.read(e)` in the
    statement shapes `return X.read(..)`, `v = X.read(..)` and
    `return IBytesIO(X.read(..))` (result and new object); the queries
    `e.readable()`, `e.seekable()`, `e.tell()`, `e.fileno()`,
    `e.getbuffer()`, `fstat(e)`, `e.st_size`, `e.nbytes`; `IBytesIO(e)`.
    A name that was copied to another name (`self.__file = file_obj`) may not
    be mutated afterwards (the copies would have to change together);
  * `isinstance(e, C)` / `isinstance(e, (C1, C2))` for the classes of
    CLASSES; `e.encode("utf-8")` (encoder = Section variable E);
  * `assert e[, message]` (the message, evaluated only on failure, is not
    translated); `try: <one assignment> except OSError: ...`;
  * `super().__init__(...)` in a class whose only base is BaseResponse: the
    arguments are evaluated, then the assignments of constants to the TRACKED
    attributes are spliced in from the source of BaseResponse.__init__ (any
    other store to a tracked attribute there is refused);
  * `self.__range_generator__()` is the Section variable RG applied to
    (self.__generator, self._start, self._end) -- the parameter list under
    which harness/py2v.py generates gen_range_generator (gen/RangeGen.v);
    the proofs instantiate RG with that definition;
  * `return iter(self.read_kilo, <constant>)` in IBytesIO.__iter__: the
    iteration run to the end (lib/PyClen.v iter_sentinel over the generated
    read_kilo, explicit fuel).

Dropped by name: docstrings and `log.*(...)` statements (py2v.Unit.block),
type annotations, default values of parameters (every parameter is a
parameter of the generated function).  Everything else raises
py2v.Unsupported.  Locals are numbered by binding position, not by spelling.
"""
import ast
import os
import sys

import py2v
from py2v import Unsupported, mangle

SOURCE = "poorwsgi/response.py"
OUTFILE = "ClenGen.v"

# ===================================================================== TRUSTED
# attributes of BaseResponse whose initial values matter here
TRACKED = ["self._start", "self._end", "self._content_length"]
# class names in isinstance -> constructor of lib/PyClen.v pcls; where the
# name must be imported from
CLASSES = {"str": "CStr", "bytes": "CBytes", "BytesIO": "CBytesIO",
           "TextIOBase": "CTextIOBase"}
IMPORTED = {"BytesIO": "io", "TextIOBase": "io", "fstat": "os"}
QUERIES = {"readable": "pf_readable", "seekable": "pf_seekable",
           "tell": "pf_tell", "fileno": "pf_fileno",
           "getbuffer": "pf_getbuffer"}
ATTRS = {"st_size": "pf_st_size", "nbytes": "pf_nbytes"}
FUNCS = {"fstat": "pf_fstat"}
EXCEPTIONS = {"OSError": "OSError"}
BUFFER_CLASS = "IBytesIO"               # subclass of BytesIO, see check_buffer
RANGE_GENERATOR = ("self.__range_generator__",
                   ["self.__generator", "self._start", "self._end"])
SECTION_VARS = [("E", "list Z -> option (list Z)"),
                ("RG", "pv -> pv -> pv -> res pv")]
# class, method, is property, generated name, attributes read (parameters),
# attributes in the result
METHODS = [
    ("IBytesIO", "read_kilo", False, "gen_read_kilo", ["self"], ["self"]),
    ("IBytesIO", "__iter__", False, "gen_ibytesio_iter", ["self"], ["self"]),
    ("Response", "__init__", False, "gen_response_init", [],
     ["self.__buffer", "self._content_length", "self._start", "self._end"]),
    ("Response", "data", True, "gen_response_data",
     ["self.__buffer"], ["self.__buffer"]),
    ("Response", "write", False, "gen_response_write",
     ["self.__buffer", "self._content_length"],
     ["self.__buffer", "self._content_length"]),
    ("Response", "__end_of_response__", False, "gen_response_end",
     ["self.__buffer", "self._start", "self._end"], ["self.__buffer"]),
    ("FileObjResponse", "__init__", False, "gen_fileobj_init", [],
     ["self.__file", "self.__pos", "self._content_length", "self._start",
      "self._end"]),
    ("FileObjResponse", "data", True, "gen_fileobj_data",
     ["self.__file", "self.__pos"], ["self.__file"]),
    ("FileObjResponse", "__end_of_response__", False, "gen_fileobj_end",
     ["self.__file", "self.__pos", "self._start", "self._end"],
     ["self.__file"]),
    ("GeneratorResponse", "__init__", False, "gen_generator_init", [],
     ["self.__generator", "self._content_length", "self._start",
      "self._end"]),
    ("GeneratorResponse", "__end_of_response__", False, "gen_generator_end",
     ["self.__generator", "self._start", "self._end"], []),
]
RESPONSE_CLASSES = ["Response", "FileObjResponse", "GeneratorResponse"]
# ================================================================ end TRUSTED

KEEP_BASES = ("t", "k", "j", "b", "u", "e")


class ClenCtx(py2v.Ctx):
    def fresh(self, base):
        self.counter += 1
        base = mangle(base)
        if not (base.startswith("self_") or base in KEEP_BASES):
            base = "x"                  # locals: numbered, not spelled
        return "%s_%d" % (base, self.counter)


def is_method_call(node, attr):
    return isinstance(node, ast.Call) and \
        isinstance(node.func, ast.Attribute) and node.func.attr == attr


def is_super_init(st):
    if not (isinstance(st, ast.Expr) and is_method_call(st.value, "__init__")):
        return False
    recv = st.value.func.value
    return isinstance(recv, ast.Call) and isinstance(recv.func, ast.Name) \
        and recv.func.id == "super"


class ClenUnit(py2v.Unit):
    base_init = ()          # projected statements of BaseResponse.__init__
    module_classes = {}

    # ------------------------------------------------------------ expressions
    def expr(self, cx, env, node, k):
        if isinstance(node, ast.Attribute) and self.dotted(node) is None:
            fn = ATTRS.get(node.attr)
            if fn is None:
                raise Unsupported(node, "attribute")
            return self.expr(cx, env, node.value, lambda a: self.bindk(
                cx, "%s %s" % (fn, a), k))
        return super().expr(cx, env, node, k)

    def call(self, cx, env, node, k):
        fn = node.func
        fname = self.dotted(fn)
        plain = not node.keywords and not any(
            isinstance(a, ast.Starred) for a in node.args)
        if is_method_call(node, "read"):
            raise Unsupported(node, "read() outside `return X.read(..)`, "
                              "`v = X.read(..)`, `return %s(X.read(..))`"
                              % BUFFER_CLASS)
        if fname == "isinstance" and plain and len(node.args) == 2:
            classes = node.args[1]
            elts = classes.elts if isinstance(classes, ast.Tuple) \
                else [classes]
            if not elts or not all(isinstance(e, ast.Name)
                                   and e.id in CLASSES for e in elts):
                raise Unsupported(node, "isinstance classes")
            names = "[%s]" % "; ".join(CLASSES[e.id] for e in elts)
            return self.expr(cx, env, node.args[0], lambda a: self.bindk(
                cx, "cl_isinstance %s %s" % (a, names), k))
        if isinstance(fn, ast.Attribute) and fn.attr == "encode":
            if not (plain and len(node.args) == 1 and
                    isinstance(node.args[0], ast.Constant) and
                    node.args[0].value == "utf-8"):
                raise Unsupported(node, "encode arguments")
            return self.expr(cx, env, fn.value, lambda a: self.bindk(
                cx, "cl_encode E %s" % a, k))
        if fname == BUFFER_CLASS and plain and len(node.args) == 1:
            return self.expr(cx, env, node.args[0], lambda a: self.bindk(
                cx, "pf_bytesio %s" % a, k))
        if fname in FUNCS and plain and len(node.args) == 1:
            return self.expr(cx, env, node.args[0], lambda a: self.bindk(
                cx, "%s %s" % (FUNCS[fname], a), k))
        if fname == RANGE_GENERATOR[0] and plain and not node.args:
            return self.bindk(cx, "RG %s" % " ".join(
                env[f] for f in RANGE_GENERATOR[1]), k)
        if isinstance(fn, ast.Attribute) and fn.attr in QUERIES and plain \
                and not node.args:
            return self.expr(cx, env, fn.value, lambda a: self.bindk(
                cx, "%s %s" % (QUERIES[fn.attr], a), k))
        if fname == "len" and plain and len(node.args) == 1:
            return super().call(cx, env, node, k)
        raise Unsupported(node, "call")

    # ------------------------------------------------------------ statements
    def mutated(self, node):
        """receiver of a call that changes a file object, or None"""
        if isinstance(node, ast.Call) and \
                isinstance(node.func, ast.Attribute) and \
                node.func.attr in ("seek", "write", "read"):
            return node.func.value
        return None

    def assigned(self, stmts):
        out = super().assigned(stmts)
        for st in stmts:
            for node in ast.walk(st):
                recv = self.mutated(node)
                if recv is not None:
                    out.append(recv)
                if isinstance(node, (ast.AnnAssign, ast.NamedExpr, ast.With,
                                     ast.Import, ast.ImportFrom, ast.Global,
                                     ast.Nonlocal)):
                    raise Unsupported(node, "binding statement")
        return out

    def assign(self, cx, env, target, term):
        name = self.dotted(target)
        if name is not None and (name == "self" or name.startswith("self.")) \
                and name not in cx.allowed:
            raise Unsupported(target, "attribute outside the translated "
                              "state")
        return super().assign(cx, env, target, term)

    def note_copy(self, cx, env, st):
        """`a = b` for names: a and b now denote one object"""
        src = self.dotted(st.value)
        if src is None or src not in env:
            return
        names = [self.dotted(t) for t in st.targets] + [src]
        group = set(n for n in names if n is not None)
        for old in [g for g in cx.groups if g & group]:
            group |= old
            cx.groups.remove(old)
        cx.groups.append(group)

    def receiver(self, cx, env, node):
        name = self.dotted(node)
        if name is None or name not in env:
            raise Unsupported(node, "file operation on an unknown object")
        if any(name in g for g in cx.groups):
            raise Unsupported(node, "mutation of an object that has a "
                              "second name")
        return name

    def read_call(self, cx, env, call, use):
        """use(data term, env after) -> code"""
        if call.keywords or len(call.args) > 1 or any(
                isinstance(a, ast.Starred) for a in call.args):
            raise Unsupported(call, "read arguments")
        obj = self.receiver(cx, env, call.func.value)
        data, new = cx.fresh("x"), cx.fresh(obj)

        def after_read(arg):
            env2 = dict(env)
            env2[obj] = new
            return "pr <- pf_read %s %s ;; let '(%s, %s) := pr in\n%s" % (
                env[obj], arg, data, new, use(data, env2))
        size = call.args[0] if call.args else ast.Constant(value=None)
        return self.expr(cx, env, size, after_read)

    def block(self, cx, env, stmts, kend, loopk=None):
        if not stmts:
            return kend(env)
        st, rest = stmts[0], stmts[1:]

        def after(env2):
            return self.block(cx, env2, rest, kend, loopk)
        if isinstance(st, ast.Pass):
            return after(env)
        if isinstance(st, ast.Assert):
            return self.expr(
                cx, env, st.test, lambda c:
                "if truthy %s then (%s)\nelse Err (Raised \"AssertionError\" "
                "PNone)" % (c, after(env)))
        if is_super_init(st):
            return self.super_init(cx, env, st, rest, kend, loopk)
        if isinstance(st, ast.Try):
            return self.try_except(cx, env, st, after, loopk)
        if isinstance(st, ast.Return):
            return self.ret(cx, env, st)
        if isinstance(st, ast.Assign):
            if is_method_call(st.value, "read"):
                if len(st.targets) != 1 or \
                        not isinstance(st.targets[0], ast.Name):
                    raise Unsupported(st, "read statement shape")
                return self.read_call(
                    cx, env, st.value, lambda data, env2: after(
                        self.assign(cx, env2, st.targets[0], data)))
            self.note_copy(cx, env, st)
        if isinstance(st, (ast.For, ast.While, ast.Delete, ast.Raise)):
            raise Unsupported(st, "statement")
        return super().block(cx, env, stmts, kend, loopk)

    def ret(self, cx, env, st):
        if any(isinstance(n, (ast.Yield, ast.YieldFrom, ast.Await))
               for n in ast.walk(cx.fundef)):
            raise Unsupported(cx.fundef, "generator")
        val = st.value
        if val is None:
            return cx.retwrap(env, "PNone")
        if is_method_call(val, "read"):
            return self.read_call(cx, env, val, lambda data, env2:
                                  cx.retwrap(env2, data))
        if isinstance(val, ast.Call) and self.dotted(val.func) == \
                BUFFER_CLASS and len(val.args) == 1 and not val.keywords \
                and is_method_call(val.args[0], "read"):
            def wrap(data, env2):
                var = cx.fresh("t")
                return "%s <- pf_bytesio %s ;;\n%s" % (
                    var, data, cx.retwrap(env2, var))
            return self.read_call(cx, env, val.args[0], wrap)
        if isinstance(val, ast.Call) and self.dotted(val.func) == "iter":
            return self.iter_sentinel(cx, env, val)
        return self.expr(cx, env, val, lambda a: cx.retwrap(env, a))

    def iter_sentinel(self, cx, env, call):
        """return iter(self.<method>, <constant>) inside the buffer class:
        the iteration run to the end"""
        if call.keywords or len(call.args) != 2 or \
                not isinstance(call.args[1], ast.Constant):
            raise Unsupported(call, "iter arguments")
        meth = self.dotted(call.args[0])
        gen = cx.methods.get(meth)
        if gen is None or cx.fields != ["self"] or cx.outs != ["self"]:
            raise Unsupported(call, "iter callable")
        cx.needs_fuel = True
        return self.expr(
            cx, env, call.args[1], lambda s:
            "r_ <- iter_sentinel %s %s fuel %s ;;\n"
            "pr <- punpack2 r_ ;; let '(items_, self_) := pr in\n%s" % (
                gen, s, env["self"],
                cx.retwrap(dict(env, self="self_"), "items_")))

    def super_init(self, cx, env, st, rest, kend, loopk):
        call = st.value
        if cx.bases != ["BaseResponse"]:
            raise Unsupported(st, "super() of a class with bases %s"
                              % cx.bases)
        if st.value.func.value.args or st.value.func.value.keywords or any(
                isinstance(a, ast.Starred) for a in call.args) or any(
                    w.arg is None for w in call.keywords):
            raise Unsupported(st, "super().__init__ arguments")
        nodes = list(call.args) + [w.value for w in call.keywords]
        spliced = list(self.base_init)
        return self.seq(cx, env, nodes, lambda _items: self.block(
            cx, env, spliced + rest, kend, loopk))

    def try_except(self, cx, env, st, after, loopk):
        if st.orelse or st.finalbody or len(st.handlers) != 1:
            raise Unsupported(st, "try shape")
        hnd = st.handlers[0]
        if hnd.name is not None or not isinstance(hnd.type, ast.Name) or \
                hnd.type.id not in EXCEPTIONS:
            raise Unsupported(hnd, "except clause")
        if len(st.body) != 1 or not isinstance(st.body[0], ast.Assign) or \
                isinstance(st.body[0].targets[0], ast.Tuple) or \
                len(st.body[0].targets) != 1:
            raise Unsupported(st, "try body must be one assignment")
        for node in ast.walk(st.body[0]):
            if self.mutated(node) is not None:
                raise Unsupported(node, "file mutation inside try")
        for node in ast.walk(st):
            if isinstance(node, (ast.Return, ast.Break, ast.Continue,
                                 ast.Yield, ast.Try)) and node is not st:
                raise Unsupported(node, "control transfer inside try")
        body_names = self.names_assigned(st.body)
        names = self.names_assigned(st.body + hnd.body)
        join, exn = cx.fresh("k"), cx.fresh("e")
        params = [cx.fresh(n) for n in names]
        env_after = dict(env)
        for name, par in zip(names, params):
            env_after[name] = par
        jcode = after(env_after)

        def jump(e):
            return "%s %s" % (join, " ".join(e[n] if n in e else "PNone"
                                             for n in names))
        body = self.block(
            cx, env, st.body, lambda e: "Ok (PTuple [%s])" % ";".join(
                e[n] for n in body_names), None)
        bvars = [cx.fresh(n) for n in body_names]
        env_body = dict(env)
        for name, var in zip(body_names, bvars):
            env_body[name] = var
        handler = self.block(cx, env, hnd.body, jump, loopk)
        return ("let %s := fun %s => (%s) in\n"
                "match (%s) with\n| Ok (PTuple [%s]) => %s\n"
                "| Ok _ => Err TypeError\n"
                "| Err %s => if exn_matches %s [\"%s\"] then (%s) "
                "else Err %s\nend" % (
                    join, " ".join("(%s : pv)" % p for p in params), jcode,
                    body, ";".join(bvars), jump(env_body), exn, exn,
                    EXCEPTIONS[hnd.type.id], handler, exn))

    def effect_call(self, cx, env, call, after):
        fn = call.func
        if isinstance(fn, ast.Attribute) and fn.attr in ("seek", "write") \
                and not call.keywords and not any(
                    isinstance(a, ast.Starred) for a in call.args):
            if fn.attr == "seek" and len(call.args) == 1:
                nodes = [call.args[0], ast.Constant(value=0)]
            elif fn.attr == "seek" and len(call.args) == 2:
                nodes = list(call.args)
            elif fn.attr == "write" and len(call.args) == 1:
                nodes = list(call.args)
            else:
                raise Unsupported(call, "%s arguments" % fn.attr)
            obj = self.receiver(cx, env, fn.value)
            new = cx.fresh(obj)
            return self.seq(cx, env, nodes, lambda items: (
                "%s <- pf_%s %s %s ;;\n%s" % (
                    new, fn.attr, env[obj], " ".join(items),
                    after(dict(env, **{obj: new})))))
        raise Unsupported(call, "statement call")

    # -------------------------------------------------------------- functions
    def method(self, cls, fundef, is_prop, gen_name, fields, outs, methods):
        args = fundef.args
        if args.vararg or args.kwarg or args.kwonlyargs or args.posonlyargs \
                or not args.args or args.args[0].arg != "self":
            raise Unsupported(fundef, "signature")
        decos = [self.dotted(d) for d in fundef.decorator_list]
        if decos != (["property"] if is_prop else []):
            raise Unsupported(fundef, "decorators")
        own = [a.arg for a in args.args[1:]]
        cx = ClenCtx(self, gen_name)
        cx.fundef = fundef
        cx.result = None
        cx.breakk = None
        cx.fields, cx.outs = list(fields), list(outs)
        cx.allowed = set(fields) | set(outs)
        cx.groups = []
        cx.methods = methods
        cx.needs_fuel = False
        cx.bases = [self.dotted(b) for b in cls.bases]
        cx.retwrap = lambda env, a: "Ok (PTuple [%s])" % ";".join(
            [a] + [env[o] for o in outs])
        env = {p: mangle(p) for p in list(fields) + own}
        code = self.block(cx, env, fundef.body,
                          lambda e: cx.retwrap(e, "PNone"))
        if cx.loops:
            raise Unsupported(fundef, "loop")
        sig = " ".join("(%s : pv)" % mangle(p) for p in list(fields) + own)
        if cx.needs_fuel:
            sig += " (fuel : nat)"
        self.defs.append("Definition %s %s : res pv :=\n%s." % (
            gen_name, sig, code))

    def text(self, header):
        out = ["(* GENERATED by harness/py2v_clen.py from %s -- do not edit *)"
               % header,
               "From Coq Require Import ZArith List Bool String.",
               "Require Import PW.lib.Val PW.lib.Dec PW.lib.Py "
               "PW.lib.PyClen.",
               "Import ListNotations.", "Open Scope string_scope.",
               "Open Scope list_scope.", "Open Scope Z_scope.", "",
               "Section Gen."]
        for var, typ in SECTION_VARS:
            out.append("Variable %s : %s." % (var, typ))
        out += self.defs
        out.append("End Gen.")
        return "\n\n".join(out) + "\n"


def the_class(tree, name):
    found = [n for n in tree.body if isinstance(n, ast.ClassDef)
             and n.name == name]
    if len(found) != 1:
        raise Unsupported(tree, "class %s" % name)
    return found[0]


def the_method(cls, name):
    found = [n for n in cls.body if isinstance(n, ast.FunctionDef)
             and n.name == name]
    if len(found) != 1:
        raise Unsupported(cls, "method %s of %s" % (name, cls.name))
    return found[0]


def check_imports(tree):
    """the external names the tables give a meaning to are the imported
    ones, and nothing at module level rebinds them"""
    seen = {}
    for node in tree.body:
        if isinstance(node, ast.ImportFrom):
            for alias in node.names:
                seen[alias.asname or alias.name] = (node.module, alias.name)
        elif isinstance(node, (ast.FunctionDef, ast.ClassDef)):
            if node.name in IMPORTED:
                raise Unsupported(node, "rebinding of %s" % node.name)
        elif isinstance(node, ast.Assign):
            for tgt in node.targets:
                if isinstance(tgt, ast.Name) and tgt.id in IMPORTED:
                    raise Unsupported(node, "rebinding of %s" % tgt.id)
    for name, module in IMPORTED.items():
        if seen.get(name) != (module, name):
            raise Unsupported(tree, "%s is not imported from %s"
                              % (name, module))


def check_buffer(cls):
    """IBytesIO adds read_kilo/__iter__ to BytesIO and overrides nothing"""
    if [getattr(b, "id", None) for b in cls.bases] != ["BytesIO"] or \
            cls.keywords or cls.decorator_list:
        raise Unsupported(cls, "bases of %s" % cls.name)
    for node in cls.body:
        if isinstance(node, ast.Expr) and \
                isinstance(node.value, ast.Constant):
            continue
        if isinstance(node, ast.FunctionDef) and \
                node.name in ("read_kilo", "__iter__"):
            continue
        raise Unsupported(node, "member of %s" % cls.name)


def base_init_projection(unit, cls):
    """the stores of constants to TRACKED attributes in BaseResponse.__init__
    (top level, in order); any other store to such an attribute, and any
    call of a method of self there, is refused"""
    init = the_method(cls, "__init__")
    keep = []
    for st in init.body:
        if isinstance(st, ast.Assign) and len(st.targets) == 1 and \
                unit.dotted(st.targets[0]) in TRACKED:
            if not isinstance(st.value, ast.Constant):
                raise Unsupported(st, "initial value is not a constant")
            keep.append(st)
    for node in ast.walk(init):
        if isinstance(node, ast.Attribute) and \
                isinstance(node.ctx, (ast.Store, ast.Del)) and \
                unit.dotted(node) in TRACKED and \
                not any(node is st.targets[0] for st in keep):
            raise Unsupported(node, "store to a tracked attribute")
        if isinstance(node, ast.Call) and \
                (unit.dotted(node.func) or "").startswith("self."):
            raise Unsupported(node, "method call in BaseResponse.__init__")
        if isinstance(node, ast.Call) and \
                unit.dotted(node.func) in ("setattr", "delattr", "vars"):
            raise Unsupported(node, "reflective store")
    for name in TRACKED:
        if not any(unit.dotted(st.targets[0]) == name for st in keep):
            raise Unsupported(init, "no initial value of %s" % name)
    return keep


def translate(outdir=None):
    tree = py2v.parse(SOURCE)
    check_imports(tree)
    unit = ClenUnit()
    check_buffer(the_class(tree, BUFFER_CLASS))
    unit.base_init = base_init_projection(unit, the_class(tree,
                                                          "BaseResponse"))
    methods = {}
    for cname, mname, is_prop, gen, fields, outs in METHODS:
        cls = the_class(tree, cname)
        unit.method(cls, the_method(cls, mname), is_prop, gen, fields, outs,
                    dict(methods))
        methods["self." + mname] = gen
    text = unit.text(SOURCE + " " + ", ".join(
        "%s.%s" % (c, m) for c, m, _, _, _, _ in METHODS))
    outdir = outdir or py2v.GEN
    os.makedirs(outdir, exist_ok=True)
    path = os.path.join(outdir, OUTFILE)
    old = open(path).read() if os.path.exists(path) else None
    if old != text:
        with open(path, "w") as fil:
            fil.write(text)
    return path


def drop_compiled():
    """py2v.regenerate removes gen/ClenGen.v when the translation is refused;
    the compiled forms must go too (also of the proofs file), or a stale
    ClenGen.vo would keep the dependent theorems compiling"""
    coq = os.path.dirname(py2v.GEN)
    for stem in (os.path.join(py2v.GEN, OUTFILE[:-2]),
                 os.path.join(coq, "proofs", "ClenGenEq")):
        for ext in (".vo", ".vos", ".vok", ".glob"):
            if os.path.exists(stem + ext):
                os.unlink(stem + ext)


def gen_clen():
    try:
        return translate()
    except Exception:
        drop_compiled()
        raise


def register(TARGETS, OUTPUT):
    TARGETS["clen"] = gen_clen
    OUTPUT["clen"] = OUTFILE


if __name__ == "__main__":
    # development aid: PYTHONPATH=harness python py2v_clen.py <output dir>
    print(translate(sys.argv[1] if len(sys.argv) > 1 else None))
