"""bin/setup: full build of the Coq development (files on disk only)."""
import sys
import os
sys.path.insert(0, os.path.dirname(os.path.abspath(__file__)))
import core  # noqa: E402

if __name__ == "__main__":
    gate = core.grep_gate()
    if gate:
        print("forbidden constructs:", gate)
        sys.exit(1)
    ok, log = core.build(full="--full" in sys.argv)
    print(log[-3000:])
    sys.exit(0 if ok else 1)
