"""bin/setup: full build of the Coq development (files on disk only).
Exit status: 0 when the theorem file of every property claimed in
MANIFEST.json compiled; files of properties still under construction may
fail without failing the setup (they are reported)."""
import json
import os
import sys
sys.path.insert(0, os.path.dirname(os.path.abspath(__file__)))
import core  # noqa: E402

if __name__ == "__main__":
    gate = core.grep_gate()
    if gate:
        print("forbidden constructs:", gate)
        sys.exit(1)
    ok, log = core.build(full="--full" in sys.argv)
    errors = [ln for ln in log.splitlines()
              if ln.startswith(("File ", "Error", "make"))]
    print("\n".join(errors[-40:]))
    man = json.load(open(os.path.join(core.VERIF, "MANIFEST.json")))
    missing = [c["property_id"] for c in man["checks"]
               if not os.path.exists(os.path.join(
                   core.COQ, "props", c["property_id"] + ".vo"))]
    print("make %s; claimed properties without compiled theorems: %s"
          % ("ok" if ok else "reported errors", missing or "none"))
    sys.exit(1 if missing else 0)
