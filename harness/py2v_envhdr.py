"""Plugin: the head of Request.__init__ (poorwsgi/request.py) ->
coq/gen/EnvHdrGen.v (property C10).

Translated, by syntax, every statement of Request.__init__ from the first one
up to and including the last of the four assignments self.__headers,
self.__mime_type, self.__charset, self.__content_length:

  * `super().__init__(environ, app)` (dropped, by name: SimpleRequest's
    constructor is the subject of other ties);
  * `if environ.get(K) is None: raise ConnectionError(...)`;
  * `tmp = []`, the loop `for key, val in environ.items():` with its
    if/elif chain (slices with constant bounds, `==`, `in (constants)`,
    `S.join(map(lambda x: ..., X.split(c)))`, `.capitalize()`, rebinding of
    the loop variable, `tmp.append((key, val))`);
  * `Headers(tmp, False)` (only the non-strict form), the tuple assignment
    from `parse_header(...)`, `.get(K)` / `.get(K, D)` on the header table
    and on the parameter dictionary, `int(X or n)`.

Python locals are named by binding position (x1, x2, ...), so renaming them,
comments, docstrings, type hints and `log.*` calls do not change the output.
Anything else raises Unsupported (fail closed): the generated file and its
compiled forms are removed and `generated = model` no longer compiles.

Trusted table: the Python operations above are mapped to the primitives of
coq/lib/PyEnvHdr.v (py_slice_to, py_eq, py_in, py_join, py_map,
py_capitalize, py_split_c, py_append, py_for_items, py_env_get, py_is_none,
py_headers_nonstrict, py_hget, py_hget_d, py_dget_d, py_int_or); the four
attributes are the four fields of EnvHeaders.facts, in the order FACTS."""
import ast
import os

import py2v
from py2v import Unsupported

FACTS = ["__headers", "__mime_type", "__charset", "__content_length"]
SOURCE = "poorwsgi/request.py"


def slit(text):
    return "[" + ";".join(str(ord(c)) for c in text) + "]"


def zlit(n):
    return "(%d)" % n if n < 0 else "%d" % n


def is_log_call(st):
    return isinstance(st, ast.Expr) and isinstance(st.value, ast.Call) and \
        isinstance(st.value.func, ast.Attribute) and \
        isinstance(st.value.func.value, ast.Name) and \
        st.value.func.value.id == "log"


def is_docstring(st):
    return isinstance(st, ast.Expr) and isinstance(st.value, ast.Constant) \
        and isinstance(st.value.value, str)


class Tr:
    """env: python name -> (coq name, type); types: env, str, pairs,
    headers, pdict, optstr, int"""

    def __init__(self, environ_name):
        self.n = 0
        self.environ = environ_name
        self.attrs = {}          # private attribute -> (coq name, type)
        self.steps = []          # auxiliary definitions (loop bodies)

    def fresh(self):
        self.n += 1
        return "x%d" % self.n

    # ------------------------------------------------------------ expr
    def const_str(self, node):
        if isinstance(node, ast.Constant) and isinstance(node.value, str):
            return node.value
        raise Unsupported(node, "string constant expected")

    def const_int(self, node):
        if isinstance(node, ast.Constant) and type(node.value) is int:
            return node.value
        if isinstance(node, ast.UnaryOp) and isinstance(node.op, ast.USub) \
                and isinstance(node.operand, ast.Constant) \
                and type(node.operand.value) is int:
            return -node.operand.value
        raise Unsupported(node, "integer constant expected")

    def private(self, node):
        """self.__name -> name"""
        if isinstance(node, ast.Attribute) and \
                isinstance(node.value, ast.Name) and node.value.id == "self" \
                and node.attr.startswith("__"):
            return node.attr
        return None

    def expr(self, env, node):
        """-> (coq text, type)"""
        if isinstance(node, ast.Name):
            if node.id in env:
                return env[node.id]
            raise Unsupported(node, "unbound name")
        attr = self.private(node)
        if attr is not None:
            if attr in self.attrs:
                return self.attrs[attr]
            raise Unsupported(node, "attribute read before assignment")
        if isinstance(node, ast.Constant):
            if isinstance(node.value, str):
                return slit(node.value), "str"
            raise Unsupported(node, "constant")
        if isinstance(node, ast.List) and not node.elts:
            return "(@nil (str * str))", "pairs"
        if isinstance(node, ast.Tuple) and len(node.elts) == 2:
            a, ta = self.expr(env, node.elts[0])
            b, tb = self.expr(env, node.elts[1])
            if (ta, tb) != ("str", "str"):
                raise Unsupported(node, "pair of str expected")
            return "(%s, %s)" % (a, b), "pair"
        if isinstance(node, ast.Subscript):
            val, ty = self.expr(env, node.value)
            sl = node.slice
            if ty == "str" and isinstance(sl, ast.Slice) and sl.step is None:
                if sl.lower is None and sl.upper is not None:
                    n = self.const_int(sl.upper)
                    if n >= 0:
                        return "(py_slice_to %d %s)" % (n, val), "str"
                if sl.upper is None and sl.lower is not None:
                    n = self.const_int(sl.lower)
                    if n >= 0:
                        return "(py_slice_from %d %s)" % (n, val), "str"
            raise Unsupported(node, "subscript")
        if isinstance(node, ast.Compare) and len(node.ops) == 1:
            left, tl = self.expr(env, node.left)
            op, right = node.ops[0], node.comparators[0]
            if isinstance(op, ast.Eq) and tl == "str":
                r, tr = self.expr(env, right)
                if tr == "str":
                    return "(py_eq %s %s)" % (left, r), "bool"
            if isinstance(op, ast.In) and tl == "str" and \
                    isinstance(right, (ast.Tuple, ast.List)):
                items = [slit(self.const_str(e)) for e in right.elts]
                return "(py_in %s [%s])" % (left, ";".join(items)), "bool"
            if isinstance(op, ast.Is) and isinstance(right, ast.Constant) \
                    and right.value is None and tl == "optstr":
                return "(py_is_none %s)" % left, "bool"
            raise Unsupported(node, "comparison")
        if isinstance(node, ast.Call):
            return self.call(env, node)
        raise Unsupported(node, "expression")

    def call(self, env, node):
        fn = node.func
        if node.keywords:
            raise Unsupported(node, "keyword arguments")
        args = node.args
        if isinstance(fn, ast.Name):
            if fn.id == "map" and len(args) == 2 and \
                    isinstance(args[0], ast.Lambda):
                lam = args[0]
                a = lam.args
                if len(a.args) != 1 or a.defaults or a.vararg or a.kwarg \
                        or a.kwonlyargs or a.posonlyargs:
                    raise Unsupported(lam, "lambda signature")
                seq, ts = self.expr(env, args[1])
                if ts != "strs":
                    raise Unsupported(node, "map over a list of str")
                var = self.fresh()
                body, tb = self.expr(dict(env, **{a.args[0].arg: (var, "str")}),
                                     lam.body)
                if tb != "str":
                    raise Unsupported(lam, "lambda result")
                return "(py_map (fun %s : str => %s) %s)" % (var, body, seq), \
                    "strs"
            if fn.id == "Headers" and len(args) == 2 and \
                    isinstance(args[1], ast.Constant) and \
                    args[1].value is False:
                lst, tl = self.expr(env, args[0])
                if tl == "pairs":
                    return "(py_headers_nonstrict %s)" % lst, "headers"
            if fn.id == "int" and len(args) == 1 and \
                    isinstance(args[0], ast.BoolOp) and \
                    isinstance(args[0].op, ast.Or) and \
                    len(args[0].values) == 2:
                a, ta = self.expr(env, args[0].values[0])
                dflt = self.const_int(args[0].values[1])
                if ta == "optstr":
                    return "(py_int_or %s %s)" % (a, zlit(dflt)), "int!"
            raise Unsupported(node, "call")
        if isinstance(fn, ast.Attribute):
            if fn.attr == "join" and len(args) == 1:
                sep = self.const_str(fn.value)
                seq, ts = self.expr(env, args[0])
                if ts == "strs":
                    return "(py_join %s %s)" % (slit(sep), seq), "str"
            recv, tr = self.expr(env, fn.value)
            if fn.attr == "capitalize" and not args and tr == "str":
                return "(py_capitalize %s)" % recv, "str"
            if fn.attr == "split" and len(args) == 1 and tr == "str":
                sep = self.const_str(args[0])
                if len(sep) == 1:
                    return "(py_split_c %s %d)" % (recv, ord(sep)), "strs"
            if fn.attr == "get" and tr == "env" and len(args) == 1:
                return "(py_env_get %s %s)" % (
                    recv, slit(self.const_str(args[0]))), "optstr"
            if fn.attr == "get" and tr == "headers" and len(args) == 1:
                return "(py_hget %s %s)" % (
                    recv, slit(self.const_str(args[0]))), "optstr"
            if fn.attr == "get" and tr == "headers" and len(args) == 2:
                return "(py_hget_d %s %s %s)" % (
                    recv, slit(self.const_str(args[0])),
                    slit(self.const_str(args[1]))), "str"
            if fn.attr == "get" and tr == "pdict" and len(args) == 2:
                return "(py_dget_d %s %s %s)" % (
                    recv, slit(self.const_str(args[0])),
                    slit(self.const_str(args[1]))), "str"
        raise Unsupported(node, "call")

    # -------------------------------------------------------- loop body
    def loop_block(self, env, acc, stmts, k):
        """statements of the loop body; acc = (python name, coq name) of the
        accumulated list; k(env, acc coq name) -> text at the end"""
        if not stmts:
            return k(env, acc[1])
        st, rest = stmts[0], stmts[1:]
        if is_log_call(st):
            return self.loop_block(env, acc, rest, k)
        if isinstance(st, ast.Assign) and len(st.targets) == 1 and \
                isinstance(st.targets[0], ast.Name):
            val, ty = self.expr(env, st.value)
            if ty != "str":
                raise Unsupported(st, "assignment of a non-str in the loop")
            var = self.fresh()
            env2 = dict(env, **{st.targets[0].id: (var, "str")})
            return "let %s : str := %s in\n    %s" % (
                var, val, self.loop_block(env2, acc, rest, k))
        if isinstance(st, ast.Expr) and isinstance(st.value, ast.Call) and \
                isinstance(st.value.func, ast.Attribute) and \
                st.value.func.attr == "append" and \
                isinstance(st.value.func.value, ast.Name) and \
                st.value.func.value.id == acc[0] and \
                len(st.value.args) == 1 and not st.value.keywords:
            item, ty = self.expr(env, st.value.args[0])
            if ty != "pair":
                raise Unsupported(st, "append of a non-pair")
            var = self.fresh()
            return "let %s := py_append %s %s in\n    %s" % (
                var, acc[1], item,
                self.loop_block(env, (acc[0], var), rest, k))
        if isinstance(st, ast.If):
            if rest:
                raise Unsupported(rest[0], "statement after the if chain")
            test, ty = self.expr(env, st.test)
            if ty != "bool":
                raise Unsupported(st.test, "test")
            then = self.loop_block(env, acc, st.body, k)
            other = self.loop_block(env, acc, st.orelse, k)
            return "if %s then\n    %s\n  else\n    %s" % (test, then, other)
        raise Unsupported(st, "statement in the loop")

    def for_loop(self, env, st):
        """for a, b in <env>.items(): ...  with one accumulated list"""
        if st.orelse:
            raise Unsupported(st, "for-else")
        it = st.iter
        if not (isinstance(it, ast.Call) and not it.args and not it.keywords
                and isinstance(it.func, ast.Attribute)
                and it.func.attr == "items"):
            raise Unsupported(st, "loop over .items() expected")
        recv, tr = self.expr(env, it.func.value)
        if tr != "env":
            raise Unsupported(st, "loop over the environment expected")
        tgt = st.target
        if not (isinstance(tgt, ast.Tuple) and len(tgt.elts) == 2 and
                all(isinstance(e, ast.Name) for e in tgt.elts)):
            raise Unsupported(st, "loop target")
        accs = [name for name, (_, ty) in env.items() if ty == "pairs"]
        if len(accs) != 1:
            raise Unsupported(st, "exactly one accumulated list expected")
        acc_py = accs[0]
        acc_v, key_v, val_v = self.fresh(), self.fresh(), self.fresh()
        body_env = {acc_py: (acc_v, "pairs"),
                    tgt.elts[0].id: (key_v, "str"),
                    tgt.elts[1].id: (val_v, "str")}
        body = self.loop_block(body_env, (acc_py, acc_v), st.body,
                               lambda e, a: a)
        name = "gen_loop_step_%d" % (len(self.steps) + 1)
        self.steps.append(
            "Definition %s (%s : list (str * str)) (%s %s : str) "
            ": list (str * str) :=\n  %s." % (name, acc_v, key_v, val_v, body))
        out = self.fresh()
        text = "let %s := py_for_items %s %s %s in" % (
            out, recv, env[acc_py][0], name)
        return text, dict(env, **{acc_py: (out, "pairs")})

    # -------------------------------------------------------- function
    def block(self, env, stmts, pending):
        """top-level statements; pending = facts still to be assigned"""
        if not pending:
            return "Ok (mkfacts %s)" % " ".join(
                self.attrs[a][0] for a in FACTS)
        if not stmts:
            raise Unsupported(ast.Pass(), "facts never assigned: %s" %
                              ", ".join(pending))
        st, rest = stmts[0], stmts[1:]
        if is_log_call(st) or is_docstring(st):
            return self.block(env, rest, pending)
        # super().__init__(environ, app)
        if isinstance(st, ast.Expr) and isinstance(st.value, ast.Call) and \
                ast.unparse(st.value.func) == "super().__init__":
            return self.block(env, rest, pending)
        # if <optstr> is None: raise ConnectionError(...)
        if isinstance(st, ast.If) and not st.orelse and len(st.body) == 1 \
                and isinstance(st.body[0], ast.Raise) and \
                isinstance(st.body[0].exc, ast.Call) and \
                isinstance(st.body[0].exc.func, ast.Name):
            test, ty = self.expr(env, st.test)
            if ty != "bool":
                raise Unsupported(st.test, "test")
            return 'if %s then Raised "%s" else\n  %s' % (
                test, st.body[0].exc.func.id, self.block(env, rest, pending))
        if isinstance(st, ast.For):
            text, env2 = self.for_loop(env, st)
            return "%s\n  %s" % (text, self.block(env2, rest, pending))
        if isinstance(st, ast.Assign) and len(st.targets) == 1:
            tgt = st.targets[0]
            # a, b = parse_header(E)
            if isinstance(tgt, ast.Tuple) and len(tgt.elts) == 2 and \
                    all(isinstance(e, ast.Name) for e in tgt.elts) and \
                    isinstance(st.value, ast.Call) and \
                    isinstance(st.value.func, ast.Name) and \
                    st.value.func.id == "parse_header" and \
                    len(st.value.args) == 1 and not st.value.keywords:
                arg, ta = self.expr(env, st.value.args[0])
                if ta != "str":
                    raise Unsupported(st, "parse_header argument")
                pair, a, b = self.fresh(), self.fresh(), self.fresh()
                env2 = dict(env, **{tgt.elts[0].id: (a, "str"),
                                    tgt.elts[1].id: (b, "pdict")})
                return ("bind (parse_header %s) (fun %s =>\n  let %s := fst "
                        "%s in let %s := snd %s in\n  %s)" % (
                            arg, pair, a, pair, b, pair,
                            self.block(env2, rest, pending)))
            val, ty = self.expr(env, st.value)
            var = self.fresh()
            attr = self.private(tgt)
            if ty == "int!":         # may raise ValueError
                if attr is None:
                    raise Unsupported(st, "int() outside an attribute store")
                self.attrs[attr] = (var, "int")
                pend = [p for p in pending if p != attr]
                return "bind %s (fun %s =>\n  %s)" % (
                    val, var, self.block(env, rest, pend))
            if attr is not None:
                self.attrs[attr] = (var, ty)
                pend = [p for p in pending if p != attr]
                return "let %s := %s in\n  %s" % (
                    var, val, self.block(env, rest, pend))
            if isinstance(tgt, ast.Name):
                env2 = dict(env, **{tgt.id: (var, ty)})
                return "let %s := %s in\n  %s" % (
                    var, val, self.block(env2, rest, pending))
        raise Unsupported(st, "statement")


def drop_compiled():
    coq = os.path.dirname(py2v.GEN)
    for stem in (os.path.join(py2v.GEN, "EnvHdrGen"),
                 os.path.join(coq, "proofs", "EnvHdrGenEq")):
        for ext in (".vo", ".vos", ".vok", ".glob"):
            if os.path.exists(stem + ext):
                os.unlink(stem + ext)


def translate():
    tree = py2v.parse(SOURCE)
    cls = [n for n in tree.body
           if isinstance(n, ast.ClassDef) and n.name == "Request"]
    if len(cls) != 1:
        raise Unsupported(tree, "class Request")
    funs = [n for n in cls[0].body
            if isinstance(n, ast.FunctionDef) and n.name == "__init__"]
    if len(funs) != 1:
        raise Unsupported(cls[0], "Request.__init__")
    fun = funs[0]
    a = fun.args
    if len(a.args) != 3 or a.defaults or a.vararg or a.kwarg or \
            a.kwonlyargs or a.posonlyargs:
        raise Unsupported(fun, "signature")
    tr = Tr(a.args[1].arg)
    env = {a.args[1].arg: ("environ", "env")}
    # private attributes are name-mangled per class; the reads use the
    # unmangled spelling
    body = tr.block(env, fun.body, list(FACTS))
    for attr, (_, ty) in tr.attrs.items():
        want = {"__headers": "headers", "__mime_type": "str",
                "__charset": "str", "__content_length": "int"}.get(attr)
        if want is not None and ty != want:
            raise Unsupported(fun, "type of %s" % attr)
    out = ["(* GENERATED by harness/py2v_envhdr.py from %s "
           "Request.__init__ -- do not edit *)" % SOURCE,
           "From Coq Require Import ZArith List Bool String.",
           "Require Import PW.lib.Val PW.model.HeaderCodec "
           "PW.model.EnvHeaders PW.lib.PyEnvHdr.",
           "Import ListNotations.", "Open Scope string_scope.",
           "Open Scope Z_scope."]
    out += tr.steps
    out.append("Definition gen_request_head (environ : env) : outcome facts "
               ":=\n  %s." % body)
    text = "\n\n".join(out) + "\n"
    path = os.path.join(py2v.GEN, "EnvHdrGen.v")
    old = open(path).read() if os.path.exists(path) else None
    if old != text:
        with open(path, "w") as f:
            f.write(text)
    return path


def gen_envhdr():
    try:
        return translate()
    except Exception:
        drop_compiled()
        raise


def register(TARGETS, OUTPUT):
    TARGETS["envhdr"] = gen_envhdr
    OUTPUT["envhdr"] = "EnvHdrGen.v"
