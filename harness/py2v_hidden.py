"""Plugin: poorwsgi/session.py hidden() -> coq/gen/HiddenGen.v (property
C13).  Uses the general translator (py2v.Unit over coq/lib/Py.v) extended
with the operations of coq/lib/PyBytes.v: `^`, `%` on ints, isinstance(x,
bytes|str), computed subscripts, enumerate(), bytearray()/.append(),
ord()/chr(), str.encode("utf-8") and sha512(..).digest() as Section
variables E and H.  Fail closed: everything else raises Unsupported."""
import ast
import os

import py2v
from py2v import Unsupported


class HiddenUnit(py2v.Unit):
    def expr(self, cx, env, node, k):
        if isinstance(node, ast.BinOp) and \
                isinstance(node.op, (ast.BitXor, ast.Mod)) and not (
                    isinstance(node.left, ast.Constant)
                    and isinstance(node.left.value, str)):
            fn = "pxor" if isinstance(node.op, ast.BitXor) else "pmod"
            return self.expr(cx, env, node.left, lambda a: self.expr(
                cx, env, node.right, lambda b: self.bindk(
                    cx, "%s %s %s" % (fn, a, b), k)))
        if isinstance(node, ast.Constant) and node.value == "":
            return k("(PStr [])")
        if isinstance(node, ast.Subscript) and \
                not isinstance(node.slice, (ast.Slice, ast.Constant)):
            return self.expr(cx, env, node.value, lambda v: self.expr(
                cx, env, node.slice, lambda i: self.bindk(
                    cx, "pindex_dyn %s %s" % (v, i), k)))
        if isinstance(node, ast.Call):
            fn = node.func
            fname = self.dotted(fn)
            if fname == "isinstance" and len(node.args) == 2 and \
                    not node.keywords and \
                    isinstance(node.args[1], ast.Name) and \
                    node.args[1].id in ("bytes", "str"):
                test = "pis_bytes" if node.args[1].id == "bytes" \
                    else "pis_str"
                return self.expr(cx, env, node.args[0], lambda a: self.bindk(
                    cx, "%s %s" % (test, a), k))
            if fname == "bytearray" and not node.args and not node.keywords:
                return k("(PBytes [])")
            if fname in ("ord", "chr", "enumerate") and \
                    len(node.args) == 1 and not node.keywords:
                return self.expr(cx, env, node.args[0], lambda a: self.bindk(
                    cx, "p%s %s" % (fname, a), k))
            if isinstance(fn, ast.Attribute) and fn.attr == "encode" and \
                    len(node.args) == 1 and not node.keywords and \
                    isinstance(node.args[0], ast.Constant) and \
                    node.args[0].value == "utf-8":
                return self.expr(cx, env, fn.value, lambda a: self.bindk(
                    cx, "pencode E %s" % a, k))
            if isinstance(fn, ast.Attribute) and fn.attr == "digest" and \
                    not node.args and not node.keywords and \
                    isinstance(fn.value, ast.Call) and \
                    self.dotted(fn.value.func) == "sha512" and \
                    len(fn.value.args) == 1 and not fn.value.keywords:
                return self.expr(cx, env, fn.value.args[0],
                                 lambda a: self.bindk(
                                     cx, "pdigest H %s" % a, k))
        return super().expr(cx, env, node, k)

    def effect_call(self, cx, env, call, after):
        fn = call.func
        if isinstance(fn, ast.Attribute) and fn.attr == "append" and \
                len(call.args) == 1 and not call.keywords:
            objname = self.dotted(fn.value)
            if objname in env:
                new = cx.fresh(objname)
                return self.expr(cx, env, call.args[0], lambda a: (
                    "%s <- pappend_any %s %s ;;\n%s" % (
                        new, env[objname], a,
                        after(dict(env, **{objname: new})))))
        raise Unsupported(call, "statement call")

    def for_loop(self, cx, env, st, after):
        """loops here sit inside `if` branches, so the code after the loop
        is a local join point the top-level Fixpoint cannot name: the loop
        returns the carried variables and the caller continues"""
        if st.orelse:
            raise Unsupported(st, "for-else")
        for sub in ast.walk(st):
            if isinstance(sub, (ast.Return, ast.Yield, ast.Break,
                                ast.Continue)):
                raise Unsupported(sub, "control transfer inside this loop")
        carried = list(self.names_assigned(st.body))
        if not (isinstance(st.target, ast.Tuple) and
                len(st.target.elts) == 2):
            raise Unsupported(st, "loop target")
        tnames = [self.dotted(e) for e in st.target.elts]
        for name in tnames:
            if name is None:
                raise Unsupported(st, "loop target")
            if name in carried:
                carried.remove(name)
        free = [n for n in env if n not in carried
                and not n.endswith(".__class__")]
        lname = "%s_loop_%d" % (cx.name, len(cx.loops) + 1)
        item, restv = cx.fresh("item"), cx.fresh("rest")
        params = {n: cx.fresh(n) for n in free + carried}
        inner = dict(params)

        def again(e):
            return "%s %s %s" % (lname, restv, " ".join(
                e.get(n, "PNone") for n in free + carried))
        a, b = cx.fresh("u"), cx.fresh("u")
        body_env = dict(inner, **{tnames[0]: a, tnames[1]: b})
        body = "pr <- punpack2 %s ;; let '(%s, %s) := pr in\n%s" % (
            item, a, b, self.block(cx, body_env, st.body, again, None))
        done = "Ok (PTuple [%s])" % ";".join(inner[n] for n in carried)
        sig = " ".join("(%s : pv)" % params[n] for n in free + carried)
        cx.loops.append(
            "Fixpoint %s (items : list pv) %s {struct items} : res pv :=\n"
            "  match items with\n  | [] => (%s)\n  | %s :: %s => (%s)\n"
            "  end." % (lname, sig, done, item, restv, body))
        outs = [cx.fresh(n) for n in carried]
        env_after = dict(env)
        for name, var in zip(carried, outs):
            env_after[name] = var
        return self.expr(cx, env, st.iter, lambda it: (
            "items <- piter %s ;;\nr_ <- %s items %s ;;\n"
            "match r_ with\n| PTuple [%s] => (%s)\n"
            "| _ => Err TypeError\nend" % (
                it, lname, " ".join(env.get(n, "PNone")
                                    for n in free + carried),
                ";".join(outs), after(env_after))))

    def write(self, filename, header, section_vars=()):
        out = ["(* GENERATED by harness/py2v_hidden.py from %s -- do not "
               "edit *)" % header,
               "From Coq Require Import ZArith List Bool String.",
               "Require Import PW.lib.Val PW.lib.Dec PW.lib.Py "
               "PW.lib.PyBytes.",
               "Import ListNotations.", "Open Scope string_scope.",
               "Open Scope list_scope.", "Open Scope Z_scope.", "",
               "Section Gen."]
        for var, ty in section_vars:
            out.append("Variable %s : %s." % (var, ty))
        out += self.defs
        out.append("End Gen.")
        path = os.path.join(py2v.GEN, filename)
        text = "\n\n".join(out) + "\n"
        old = open(path).read() if os.path.exists(path) else None
        if old != text:
            with open(path, "w") as f:
                f.write(text)
        return path


def gen_hidden():
    tree = py2v.parse("poorwsgi/session.py")
    fun = py2v.find_function(tree, "hidden")
    params = [a.arg for a in fun.args.args]
    if fun.args.defaults or fun.args.vararg or fun.args.kwarg or \
            fun.args.kwonlyargs:
        raise Unsupported(fun, "signature")
    unit = HiddenUnit()
    unit.function(fun, "gen_hidden", params)
    return unit.write("HiddenGen.v", "poorwsgi/session.py hidden",
                      [("H", "list Z -> list Z"),
                       ("E", "list Z -> option (list Z)")])


def register(TARGETS, OUTPUT):
    TARGETS["hidden"] = gen_hidden
    OUTPUT["hidden"] = "HiddenGen.v"
