"""Replay of every defect found on the pinned tree in the design round.

Each probe returns (manifests, detail).  `python harness/probes.py` prints one
line per probe.  Checks run the probes of their property first (corpus);
a probe that manifests and is not listed in known_findings.json is a
violation.
"""
import io
import os
import sys
import tempfile

sys.path.insert(0, os.path.dirname(os.path.abspath(__file__)))
import implrun  # noqa: E402
from implrun import new_app, environ, call  # noqa: E402

PROBES = []


def probe(prop, key):
    def deco(fun):
        PROBES.append((prop, key, fun))
        return fun
    return deco


@probe("C01", "bad-content-length-escapes")
def p01a():
    app = new_app()
    ans = call(app, environ(content_length="abc"))
    return ans.raised is not None, repr(ans.raised)


@probe("C01", "non-utf8-path-escapes")
def p01b():
    app = new_app()
    ans = call(app, environ(path="/\xff\xfe"))
    return ans.raised is not None, repr(ans.raised)


@probe("C04", "exception-handler-tuple-no-after-hook")
def p04a():
    app = new_app()

    @app.route("/x")
    def x(req):
        raise ValueError("boom")

    @app.error_handler(ValueError)
    def h(req, err):
        return "handled", "text/plain"
    ans = call(app, environ(path="/x"))
    bad = ans.raised is not None or ans.code != 200 or ans.body != b"handled"
    return bad, str(ans.summary())


@probe("C04", "exception-handler-empty-string-is-500")
def p04b():
    app = new_app()

    @app.route("/x")
    def x(req):
        raise ValueError("boom")

    @app.error_handler(ValueError)
    def h(req, err):
        return ""
    ans = call(app, environ(path="/x"))
    return ans.code != 200, str(ans.summary())


@probe("C04", "abort-200-is-204")
def p04c():
    from poorwsgi.response import abort
    app = new_app()

    @app.route("/x")
    def x(req):
        abort(200)
    ans = call(app, environ(path="/x"))
    return ans.code != 200, str(ans.status)


@probe("C02", "inline-regex-lowercased")
def p02a():
    app = new_app()
    hit = []

    @app.route("/x/<v:re:[A-Z]+>")
    def x(req, v):
        hit.append(v)
        return "ok"
    a1 = call(app, environ(path="/x/ABC"))
    a2 = call(app, environ(path="/x/abc"))
    return (a1.code, a2.code) != (200, 404), "%s %s" % (a1.code, a2.code)


@probe("C02", "trailing-newline-matches")
def p02b():
    app = new_app()

    @app.route("/i/<n:int>")
    def x(req, n):
        return "ok"
    ans = call(app, environ(path="/i/12\n"))
    return ans.code == 200, str(ans.code)


@probe("C02", "float-group-shifts-captures")
def p02c():
    app = new_app()
    got = []

    @app.route("/f/<x:float>/<y:int>")
    def x(req, x, y):
        got.append((x, y))
        return "ok"
    ans = call(app, environ(path="/f/1.5/3"))
    return ans.code != 200 or got != [(1.5, 3)], "%s %s" % (ans.code, got)


@probe("C05", "empty-list-is-500")
def p05a():
    app = new_app()

    @app.route("/x")
    def x(req):
        return []
    ans = call(app, environ(path="/x"))
    return ans.code != 200 or ans.body != b"[]", str(ans.summary())


@probe("C05", "not-modified-headers-dropped")
def p05b():
    from poorwsgi.response import NotModifiedResponse
    app = new_app()

    @app.route("/x")
    def x(req):
        return NotModifiedResponse(etag='"abc"')
    ans = call(app, environ(path="/x"))
    return ans.header("ETag") != '"abc"', str(ans.headers)


@probe("C06", "write-overwrites-initial-data")
def p06a():
    from poorwsgi.response import Response
    app = new_app()

    @app.route("/x")
    def x(req):
        res = Response("Hello")
        res.write("X")
        return res
    ans = call(app, environ(path="/x"))
    return ans.header("Content-Length") != str(len(ans.body)), \
        "%s %r" % (ans.header("Content-Length"), ans.body)


@probe("C06", "body-on-204")
def p06b():
    from poorwsgi.response import Response
    app = new_app()

    @app.route("/x")
    def x(req):
        return Response(b"abc", status_code=204)
    ans = call(app, environ(path="/x"))
    return bool(ans.body), "%s %r" % (ans.status, ans.body)


def _range(rng, data=b"0123456789", kind="buf", offset=0):
    from poorwsgi.response import Response, FileObjResponse
    app = new_app()

    @app.route("/x")
    def x(req):
        if kind == "buf":
            res = Response(data)
        else:
            fobj = io.BytesIO(data)
            fobj.seek(offset)
            res = FileObjResponse(fobj)
        res.make_partial([rng])
        return res
    return call(app, environ(path="/x"))


@probe("C07", "range-first-beyond-length-is-206")
def p07a():
    ans = _range((11, None))
    return ans.code != 416, "%s CL=%s" % (ans.status,
                                          ans.header("Content-Length"))


@probe("C07", "range-0-0-whole-body")
def p07b():
    ans = _range((0, 0))
    return ans.code != 206 or ans.body != b"0", "%s %r" % (ans.status,
                                                          ans.body)


@probe("C07", "file-offset-range-absolute")
def p07c():
    ans = _range((1, 2), kind="file", offset=4)
    return ans.body != b"56", "%s %r" % (ans.status, ans.body)


class _Stream:
    def __init__(self, data, shorts=None):
        self.data = data
        self.reads = []
        self.shorts = shorts or []

    def read(self, size=-1):
        self.reads.append(size)
        if len(self.reads) > 5000:
            raise RuntimeError("spin")
        if size < 0:
            size = len(self.data)
        if self.shorts:
            size = min(size, self.shorts.pop(0))
        out, self.data = self.data[:size], self.data[size:]
        return out


def _lines(body, block, n=None, shorts=None, limit=100):
    from poorwsgi.request import CachedInput
    stream = _Stream(body, shorts)
    inp = CachedInput(stream, len(body) if n is None else n, block,
                      timeout=None)
    out = []
    for _ in range(limit):
        line = inp.readline()
        out.append(line)
        if not line:
            break
    return out, stream


@probe("C09", "crlf-across-block-edge")
def p09a():
    try:
        out, _ = _lines(b"ab\r\ncd\r\nef\r\n", 3)
    except RuntimeError as err:
        return True, repr(err)
    return out != [b"ab\r\n", b"cd\r\n", b"ef\r\n", b""], repr(out)


@probe("C09", "zero-byte-read-spin")
def p09b():
    try:
        out, stream = _lines(b"ab\r\ncd\r\nef", 7)
    except RuntimeError as err:
        return True, repr(err)
    return b"".join(out) != b"ab\r\ncd\r\nef", repr(out)


@probe("C09", "short-reads-lose-budget")
def p09c():
    try:
        out, stream = _lines(b"abcdefgh\r\nij\r\n", 5, shorts=[2, 2, 2, 2])
    except RuntimeError as err:
        return True, repr(err)
    return b"".join(out) != b"abcdefgh\r\nij\r\n", repr(out)


@probe("C11", "digest-missing-uri-crashes")
def p11a():
    from poorwsgi.digest import check_digest
    from hashlib import sha256
    app = new_app(secret_key="s" * 16)
    app.auth_type = "Digest"

    @app.route("/p")
    @check_digest("R")
    def prot(req):
        return "secret"
    from poorwsgi.session import get_token
    nonce = get_token("s" * 16, "UA", timeout=300)
    opaque = sha256(b"example.org").hexdigest()
    hdr = ('Digest username="u", realm="R", nonce="%s", algorithm=MD5-sess, '
           'opaque="%s", response="x"' % (nonce, opaque))
    ans = call(app, environ(path="/p", headers={"Authorization": hdr,
                                                "User-Agent": "UA"}))
    return ans.code != 401, str(ans.status)


@probe("C11", "digest-missing-cnonce-crashes")
def p11b():
    from poorwsgi.digest import check_digest, hexdigest
    from hashlib import sha256
    app = new_app(secret_key="s" * 16)
    app.auth_type = "Digest"
    app.auth_map = {"R": {"u": hexdigest("u", "R", "pw")}}

    @app.route("/p")
    @check_digest("R")
    def prot(req):
        return "secret"
    from poorwsgi.session import get_token
    nonce = get_token("s" * 16, "UA", timeout=300)
    opaque = sha256(b"example.org").hexdigest()
    hdr = ('Digest username="u", realm="R", nonce="%s", uri="/p", qop=auth, '
           'algorithm=MD5-sess, opaque="%s", response="x"' % (nonce, opaque))
    ans = call(app, environ(path="/p", headers={"Authorization": hdr,
                                                "User-Agent": "UA"}))
    return ans.code != 401, str(ans.status)


@probe("C11", "digest-uri-suffix-accepted")
def p11c():
    from poorwsgi.digest import check_digest, hexdigest
    from hashlib import sha256, md5
    app = new_app(secret_key="s" * 16)
    app.auth_type = "Digest"
    app.auth_algorithm = "MD5"
    app.auth_map = {"R": {"u": hexdigest("u", "R", "pw")}}
    ran = []

    @app.route("/admin")
    @check_digest("R")
    def prot(req):
        ran.append(1)
        return "secret"
    from poorwsgi.session import get_token
    nonce = get_token("s" * 16, "UA", timeout=300)
    opaque = sha256(b"example.org").hexdigest()
    uri = "/x/admin"
    ha1 = hexdigest("u", "R", "pw")
    ha2 = md5(("GET:" + uri).encode()).hexdigest()
    nc, cnonce = "00000001", "abc"
    resp = md5(("%s:%s:%s:%s:auth:%s" % (ha1, nonce, nc, cnonce, ha2))
               .encode()).hexdigest()
    hdr = ('Digest username="u", realm="R", nonce="%s", uri="%s", qop=auth, '
           'nc=%s, cnonce="%s", algorithm=MD5, opaque="%s", response="%s"'
           % (nonce, uri, nc, cnonce, opaque, resp))
    ans = call(app, environ(path="/admin", headers={"Authorization": hdr,
                                                    "User-Agent": "UA"}))
    return bool(ran), str(ans.status)


def _tree():
    top = tempfile.mkdtemp(prefix="verif_tree_", dir="/root/scratch"
                           if os.path.isdir("/root/scratch") else None)
    root = os.path.join(top, "root")
    os.makedirs(os.path.join(root, "sub"))
    os.makedirs(root + "_private")
    os.makedirs(root + "..x")
    for path, tok in ((root + "/in.txt", "IN"), (root + "/sub/n.txt", "NEST"),
                      (root + "_private/p.txt", "PRIV"),
                      (root + "..x/q.txt", "DOTX"), (top + "/s.txt", "PARENT")):
        with open(path, "w") as fil:
            fil.write("TOKEN-" + tok)
    return top, root


@probe("C12", "sibling-served-without-leading-slash")
def p12a():
    import shutil
    top, root = _tree()
    try:
        app = new_app(document_root=root)
        a1 = call(app, environ(path="_private/p.txt"))
        a2 = call(app, environ(path="..x/q.txt"))
        bad = b"TOKEN-PRIV" in (a1.body or b"") or \
            b"TOKEN-DOTX" in (a2.body or b"")
        return bad, "%s %s" % (a1.status, a2.status)
    finally:
        shutil.rmtree(top)


@probe("C12", "directory-index-is-500")
def p12b():
    import shutil
    top, root = _tree()
    try:
        app = new_app(document_root=root, document_index=True)
        ans = call(app, environ(path="/sub"))
        return ans.code != 200, str(ans.status)
    finally:
        shutil.rmtree(top)


@probe("C13", "destroy-not-expired-when-expires-configured")
def p13a():
    from poorwsgi.session import PoorSession
    sess = PoorSession("secret", expires=3600, max_age=100)
    sess.data["a"] = 1
    sess.destroy()
    val = sess.header()[0][1]
    return "Max-Age=-1" not in val or "expires=" not in val.lower() \
        or "Max-Age=100" in val, val


@probe("C14", "add-set-cookie-lowercase-twice")
def p14a():
    from poorwsgi.headers import Headers
    hdr = Headers()
    try:
        hdr.add("set-cookie", "a=1")
        hdr.add("set-cookie", "b=2")
    except KeyError as err:
        return True, repr(err)
    return False, ""


@probe("C15", "host-header-raw-in-page")
def p15a():
    app = new_app()
    ans = call(app, environ(path="/nope", headers={"Host": "<b id=x>"}))
    return b"<b id=x>" in ans.body, ""


@probe("C15", "file-name-raw-in-listing")
def p15b():
    import shutil
    top, root = _tree()
    try:
        open(os.path.join(root, "sub", "a<i>b.txt"), "w").close()
        app = new_app(document_root=root, document_index=True)
        ans = call(app, environ(path="/sub"))
        return ans.code != 200 or b"a<i>b" in ans.body, str(ans.status)
    finally:
        shutil.rmtree(top)


@probe("C16", "timeout-zero-divides")
def p16a():
    from poorwsgi.session import get_token, check_token
    try:
        tok = get_token("s", "c", timeout=0)
        return not check_token(tok, "s", "c", timeout=0), "rejected"
    except ZeroDivisionError as err:
        return True, repr(err)


@probe("C16", "secret-client-concatenation-ambiguous")
def p16b():
    from poorwsgi.session import get_token
    return get_token("ab", "c") == get_token("a", "bc"), ""


@probe("C17", "debug-info-pollutes-default-states")
def p17a():
    app_a = new_app(debug=True)
    app_b = new_app()

    @app_a.http_state(404)
    def nf(req, *_):
        return "A-404", "text/plain"
    call(app_a, environ(path="/debug-info"))
    ans = call(app_b, environ(path="/nope"))
    bad = ans.body == b"A-404"
    # repair the shared table so that later probes are not affected
    from poorwsgi import results
    results.default_states[404] = dict.fromkeys(
        results.default_states[404], results.not_found)
    return bad, repr(ans.body[:20])


@probe("C18", "param-backslash-before-next-param")
def p18a():
    from poorwsgi.headers import Headers, parse_header
    hdr = Headers()
    hdr.add_header("Content-Disposition", "form-data", a="x\\", filename="b")
    val = Headers.utf8(hdr["Content-Disposition"])
    got = parse_header(val)
    return got != ("form-data", {"a": "x\\", "filename": "b"}), repr(got)


@probe("C19", "pop-after-response-looks-in-before-list")
def p19a():
    app = new_app()

    def hook(req, res):
        return res
    app.add_after_response(hook)
    try:
        app.pop_after_response(hook)
    except ValueError as err:
        return True, repr(err)
    return hook in app.after, ""


def run(props=None):
    out = []
    for prop, key, fun in PROBES:
        if props and prop not in props:
            continue
        try:
            bad, detail = fun()
        except Exception as err:  # probe itself failed: report as manifest
            bad, detail = True, "probe error %r" % (err,)
        out.append((prop, key, bad, detail))
    return out


if __name__ == "__main__":
    for prop, key, bad, detail in run(set(sys.argv[1:]) or None):
        print("%s %-48s %s %s" % (prop, key, "MANIFESTS" if bad else "ok",
                                  detail[:150]))
