"""Plugin: poorwsgi/results.py HTML_ESCAPE_TABLE and html_escape ->
coq/gen/EscapeGen.v (property C15; closes the escape primitive of the pages
tie, harness/py2pages.py treats `html_escape(...)` calls as an escape flag).

Translated, by syntax:

  * `HTML_ESCAPE_TABLE = {...}`: exactly one binding of the name in
    results.py (a module-level plain assignment of a dict display whose keys
    are single-character str constants and whose values are str constants)
    -> `gen_html_escape_table : list (Z * list Z)`, the items in source
    order.  Refused: any other store/del/global/import of the name, any read
    of the name that is not the receiver of a `.get(...)` call (aliasing,
    subscript store, .update(), passing it on, ...), any mention of the name
    in another module of the package.
  * `def html_escape(text)`: exactly one module-level def, undecorated, one
    positional parameter, body = [docstring] [log.* calls]
    `return S.join(T.get(K, D) for V in P)` with S a str constant, T the
    table, P the parameter, V a plain name, K and D each either V or a str
    constant -> `gen_html_escape`.

Locals are named by binding position (x1 = the parameter, x2 = the loop
variable), so renames, comments, docstrings, type hints and log.* calls do
not change the output.  Anything else raises Unsupported (fail closed): the
generated file and the compiled forms of EscapeGen / EscapeGenEq go away.

Trusted table: S.join -> py_join S, generator expression -> py_genexp,
dict-display.get(k, d) -> py_dict_get_d (last equal key wins), a character of
the iterated str -> its code point, as a str [c]  (coq/lib/PyEscape.v)."""
import ast
import glob
import os

import py2v
from py2v import Unsupported

SOURCE = "poorwsgi/results.py"
TABLE = "HTML_ESCAPE_TABLE"
FUNC = "html_escape"


def slit(text):
    return "[" + ";".join(str(ord(c)) for c in text) + "]"


def is_log_call(st):
    return isinstance(st, ast.Expr) and isinstance(st.value, ast.Call) and \
        isinstance(st.value.func, ast.Attribute) and \
        isinstance(st.value.func.value, ast.Name) and \
        st.value.func.value.id == "log"


def is_docstring(st):
    return isinstance(st, ast.Expr) and isinstance(st.value, ast.Constant) \
        and isinstance(st.value.value, str)


def mentions(tree, name):
    """every syntactic mention of an identifier"""
    for node in ast.walk(tree):
        if isinstance(node, ast.Name) and node.id == name:
            yield node
        elif isinstance(node, ast.Attribute) and node.attr == name:
            yield node
        elif isinstance(node, ast.alias) and \
                name in (node.name, node.asname):
            yield node
        elif isinstance(node, (ast.Global, ast.Nonlocal)) and \
                name in node.names:
            yield node
        elif isinstance(node, ast.arg) and node.arg == name:
            yield node
        elif isinstance(node, (ast.FunctionDef, ast.AsyncFunctionDef,
                               ast.ClassDef)) and node.name == name:
            yield node
        elif isinstance(node, ast.Constant) and node.value == name:
            yield node          # getattr/globals()[...] spellings
        elif isinstance(node, ast.keyword) and node.arg == name:
            yield node


def table(tree):
    binds = [st for st in tree.body
             if isinstance(st, ast.Assign) and len(st.targets) == 1 and
             isinstance(st.targets[0], ast.Name) and
             st.targets[0].id == TABLE]
    if len(binds) != 1:
        raise Unsupported(tree, "exactly one module-level `%s = {...}`"
                          % TABLE)
    bind = binds[0]
    parent = {}
    for node in ast.walk(tree):
        for child in ast.iter_child_nodes(node):
            parent[child] = node
    for node in mentions(tree, TABLE):
        if node is bind.targets[0]:
            continue
        # only reads of the form TABLE.get(...)
        att = parent.get(node)
        call = parent.get(att)
        if isinstance(node, ast.Name) and isinstance(node.ctx, ast.Load) \
                and isinstance(att, ast.Attribute) and att.value is node \
                and att.attr == "get" and isinstance(att.ctx, ast.Load) \
                and isinstance(call, ast.Call) and call.func is att:
            continue
        raise Unsupported(node, "%s is used other than as %s.get(...)"
                          % (TABLE, TABLE))
    root = os.path.join(py2v.REPO, os.path.dirname(SOURCE))
    for path in sorted(glob.glob(os.path.join(root, "**", "*.py"),
                                 recursive=True)):
        rel = os.path.relpath(path, py2v.REPO)
        if rel == SOURCE:
            continue
        for node in mentions(py2v.parse(rel), TABLE):
            raise Unsupported(node, "%s mentioned in %s" % (TABLE, rel))
    disp = bind.value
    if not isinstance(disp, ast.Dict):
        raise Unsupported(disp, "dict display expected")
    items = []
    for key, val in zip(disp.keys, disp.values):
        if not (isinstance(key, ast.Constant) and isinstance(key.value, str)
                and len(key.value) == 1):
            raise Unsupported(key or disp, "single-character str key")
        if not (isinstance(val, ast.Constant) and isinstance(val.value, str)):
            raise Unsupported(val, "str value")
        items.append((key.value, val.value))
    return items


def function(tree):
    funs = [st for st in tree.body
            if isinstance(st, ast.FunctionDef) and st.name == FUNC]
    if len(funs) != 1:
        raise Unsupported(tree, "exactly one module-level def %s" % FUNC)
    fun = funs[0]
    for node in mentions(tree, FUNC):
        if node is fun:
            continue
        if isinstance(node, ast.Name) and isinstance(node.ctx, ast.Load):
            continue            # calls / reads of the function
        raise Unsupported(node, "%s is rebound" % FUNC)
    a = fun.args
    if fun.decorator_list or len(a.args) != 1 or a.defaults or a.vararg or \
            a.kwarg or a.kwonlyargs or a.posonlyargs:
        raise Unsupported(fun, "signature")
    par = a.args[0].arg
    body = [st for st in fun.body
            if not is_docstring(st) and not is_log_call(st)]
    if len(body) != 1 or not isinstance(body[0], ast.Return):
        raise Unsupported(fun, "body is not a single return")
    ret = body[0].value
    if not (isinstance(ret, ast.Call) and not ret.keywords and
            len(ret.args) == 1 and isinstance(ret.func, ast.Attribute) and
            ret.func.attr == "join" and
            isinstance(ret.func.value, ast.Constant) and
            isinstance(ret.func.value.value, str)):
        raise Unsupported(ret or fun, "S.join(...) expected")
    sep = ret.func.value.value
    gen = ret.args[0]
    if not (isinstance(gen, ast.GeneratorExp) and len(gen.generators) == 1):
        raise Unsupported(gen, "generator expression with one for")
    comp = gen.generators[0]
    if comp.ifs or comp.is_async or not isinstance(comp.target, ast.Name) \
            or not (isinstance(comp.iter, ast.Name) and comp.iter.id == par):
        raise Unsupported(gen, "`for V in <parameter>` expected")
    var = comp.target.id
    elt = gen.elt
    if not (isinstance(elt, ast.Call) and not elt.keywords and
            len(elt.args) == 2 and isinstance(elt.func, ast.Attribute) and
            elt.func.attr == "get" and isinstance(elt.func.value, ast.Name)
            and elt.func.value.id == TABLE and var != TABLE):
        raise Unsupported(elt, "%s.get(K, D) expected" % TABLE)

    def key(node):
        """a character: the loop variable or a one-character constant"""
        if isinstance(node, ast.Name) and node.id == var:
            return "x2"
        if isinstance(node, ast.Constant) and isinstance(node.value, str) \
                and len(node.value) == 1:
            return "%d" % ord(node.value)
        raise Unsupported(node, "key of .get")

    def dflt(node):
        if isinstance(node, ast.Name) and node.id == var:
            return "[x2]"
        if isinstance(node, ast.Constant) and isinstance(node.value, str):
            return slit(node.value)
        raise Unsupported(node, "default of .get")

    return ("py_join %s (py_genexp (fun x2 : Z => py_dict_get_d "
            "gen_html_escape_table %s %s) x1)" % (
                slit(sep), key(elt.args[0]), dflt(elt.args[1])))


def drop_compiled():
    coq = os.path.dirname(py2v.GEN)
    for stem in (os.path.join(py2v.GEN, "EscapeGen"),
                 os.path.join(coq, "proofs", "EscapeGenEq")):
        for ext in (".vo", ".vos", ".vok", ".glob"):
            if os.path.exists(stem + ext):
                os.unlink(stem + ext)


def translate():
    tree = py2v.parse(SOURCE)
    items = table(tree)
    body = function(tree)
    out = ["(* GENERATED by harness/py2v_escape.py from %s %s / %s "
           "-- do not edit *)" % (SOURCE, TABLE, FUNC),
           "From Coq Require Import ZArith List.",
           "Require Import PW.lib.PyEscape.",
           "Import ListNotations.", "Open Scope Z_scope.",
           "Definition gen_html_escape_table : list (Z * str) :=\n  [%s]."
           % ";\n   ".join("(%d, %s)" % (ord(k), slit(v)) for k, v in items),
           "Definition gen_html_escape (x1 : str) : str :=\n  %s." % body]
    text = "\n\n".join(out) + "\n"
    path = os.path.join(py2v.GEN, "EscapeGen.v")
    old = open(path).read() if os.path.exists(path) else None
    if old != text:
        with open(path, "w") as f:
            f.write(text)
    return path


def gen_escape():
    try:
        return translate()
    except Exception:
        path = os.path.join(py2v.GEN, "EscapeGen.v")
        if os.path.exists(path):
            os.unlink(path)
        drop_compiled()
        raise


def register(TARGETS, OUTPUT):
    TARGETS["escape"] = gen_escape
    OUTPUT["escape"] = "EscapeGen.v"
