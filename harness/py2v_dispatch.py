"""py2v plugin: the control-flow skeleton of the request cycle.

poorwsgi/wsgi.py  Application.state_from_table, error_from_table,
handler_from_before, __request__   ->   coq/gen/DispatchGen.v

A DOMAIN-SPECIFIC, syntax-directed, fail-closed translator.  The target is
not a general Python semantics but the vocabulary of the hand model
coq/model/Dispatch.v: user callables are data (`beh`), exceptions are `exn`
values, responses are `resp`, routing is an input (`facts`).  The generated
Gallina is written over the primitives of coq/lib/PyDispatch.v (a universal
value type `dv`, the monad `M` = result + event trace, `try_catch` with an
ordered clause list, `seq_ctl`/`Retn` for `return`, `invoke`, `subscript`,
`contains`, `getattr_`, ...), which in turn are defined with the primitives
of Dispatch.v (`call`, `to_response`, `exc_response`, `builtin_page`, `emit`,
`assoc1/2`, `isinst`, `builtin`, `page`).

GENERATED FROM THE SYNTAX: the order and nesting of try/except clauses and
their class lists, which call happens inside which try, the order of
if/elif tests and of the operands of and/or, statement sequencing,
assignments (data flow), the loops with break/return, what every clause
returns or leaves in which variable, every call site (so also the event a
call leaves in the trace: it travels with the callable value).

TRUSTED (the tables right below + coq/lib/PyDispatch.v): the meaning of the
names the code uses.  Everything not in a table raises py2v.Unsupported.

Control-flow encoding: a block is translated in continuation style into a
term of type `M (ctl S)`; `if`/`try`/`for` followed by more statements get
their continuation lambda-lifted into a top-level definition
`<fn>_k<N> w a [f] <live variables>` (N = creation order); a `for` becomes
`Fixpoint <fn>_loop<N>` over the list primitive it iterates.  Local
variables are named by binding position (x1, x2, ...), never by spelling.
"""
import ast

import py2v
from py2v import Unsupported

# ===================================================================== TRUSTED
# `except <name>` -> class of the table exn_isa in lib/PyDispatch.v
EXC_CLASS = {
    "HTTPException": "KHTTPException", "ConnectionError": "KConnectionError",
    "SystemExit": "KSystemExit", "ResponseError": "KResponseError",
    "Exception": "KException", "BaseException": "KBaseException",
}
# self.<attr> read as a value
SELF_VALUE = {"__shandlers": "DShandlers"}
# `for x in self.<attr>`
SELF_LIST = {"__before": "(before_hooks a)", "__after": "(after_hooks a)"}
# `for k, v in self.<attr>.items()`
SELF_ITEMS = {"__ehandlers": "(eh_items a)"}
# module-level names read as values
GLOBAL_VALUE = {"default_states": "DDefaults", "METHOD_GET": "k_METHOD_GET",
                "FileObjResponse": "DClsFileObj"}
# <value>.<attr> read / written
READ_ATTR = {"method_number": "A_method_number",
             "server_software": "A_server_software",
             "ranges": "A_ranges", "args": "A_args"}
WRITE_ATTR = {"error_handler": "A_error_handler"}
# module-level functions: name -> (arity, pure, template, needs facts)
FUNCS = {
    "to_response": (1, False, "py_to_response w {0}", False),
    "internal_server_error": (1, False, "internal_server_error w {0}", False),
    "not_implemented": (2, False, "not_implemented w {0} {1}", False),
    "Request": (2, False, "mk_request f {0} {1}", True),
    "SimpleRequest": (2, False, "mk_simple_request f {0} {1}", True),
    "time": (0, True, "py_time", False),
}
# <value>.<method>() without arguments
VALUE_METHOD = {"make_response": "exn_make_response {0}"}
# self.<method>(args) that is NOT translated (routing is an input of the
# model); the generated before-hook loop is passed in
SELF_PRIM = {
    "handler_from_table":
        (1, "handler_from_table w a f (gen_handler_from_before w a) {0}"),
}
# statements dropped by name: calls of log.<anything>(...) and docstrings
LOG_NAME = "log"
# translated methods, in dependency order: python name -> (coq name, facts)
TARGET_METHODS = [
    ("state_from_table", "gen_state_from_table", False),
    ("error_from_table", "gen_error_from_table", False),
    ("handler_from_before", "gen_handler_from_before", False),
    ("__request__", "gen_request", True),
]
# ================================================================ end TRUSTED


class Dialect:
    """the trusted name tables + primitive templates of one target (the
    tables above are the `dispatch` dialect; harness/py2v_shapes.py brings
    its own for the value-conversion layer)"""
    def __init__(self, **kw):
        self.EXC_CLASS = {}
        self.SELF_VALUE = {}
        self.SELF_LIST = {}
        self.SELF_ITEMS = {}
        self.GLOBAL_VALUE = {}
        self.READ_ATTR = {}
        self.WRITE_ATTR = {}
        self.FUNCS = {}
        self.VALUE_METHOD = {}
        self.SELF_PRIM = {}
        self.CONSTS = {}            # module constants: name -> int
        self.CLASSES = None         # isinstance classes: name -> Coq term
        self.CTORS = {}             # constructor -> (slots, template)
        self.CTOR_SIGS = {}         # constructor -> ast of its __init__
        self.RAISE = {}             # raise <name>(consts) -> exn term
        self.TUPLES = False         # (a, b) builds a tuple value
        self.FUNCTIONS = False      # module-level functions with defaults
        self.END = "ret (Norm tt)"  # falling off the end of the function
        #                             (a text, or a function of the env)
        self.SELF_VARS = []         # self.<attr> held in variables (params)
        self.SELF_ALIAS = {}        # property -> the attribute it returns
        self.MUTATORS = {}          # self.<var>.<m>(args): (arity, template
        #                             of the NEW value of the variable)
        self.CALL_LOG = {}          # parameter whose calls are recorded ->
        #                             the self variable holding the record
        self.FORMATS = {}           # "fmt" % (a, b): fmt -> (arity, template)
        self.CTX = [("w", "world"), ("a", "app")]
        self.T_GETATTR = "getattr_ w {0} {1}"
        self.T_SUBSCRIPT = "subscript w a {0} {1}"
        self.T_CONTAINS = "contains w a {0} {1}"
        self.T_TRUTHY = "truthy {0}"
        self.T_ISINSTANCE = "py_isinstance w {0} {1}"
        self.T_INVOKE = "invoke w a {0} [{1}] {2}"
        self.__dict__.update(kw)


DISPATCH = Dialect(
    EXC_CLASS=EXC_CLASS, SELF_VALUE=SELF_VALUE, SELF_LIST=SELF_LIST,
    SELF_ITEMS=SELF_ITEMS, GLOBAL_VALUE=GLOBAL_VALUE, READ_ATTR=READ_ATTR,
    WRITE_ATTR=WRITE_ATTR, FUNCS=FUNCS, VALUE_METHOD=VALUE_METHOD,
    SELF_PRIM=SELF_PRIM)


def is_self(node):
    return isinstance(node, ast.Name) and node.id == "self"


def dropped(st):
    if not isinstance(st, ast.Expr):
        return False
    v = st.value
    if isinstance(v, ast.Constant) and isinstance(v.value, str):
        return True                                     # docstring
    return (isinstance(v, ast.Call) and isinstance(v.func, ast.Attribute)
            and isinstance(v.func.value, ast.Name)
            and v.func.value.id == LOG_NAME)            # log.*(...)


class _Names(ast.NodeVisitor):
    """names loaded / stored, in source order, dropped statements excluded"""
    def __init__(self):
        self.loads = []
        self.stores = []

    def visit(self, node):
        if isinstance(node, ast.stmt) and dropped(node):
            return
        if isinstance(node, ast.Name):
            (self.loads if isinstance(node.ctx, ast.Load)
             else self.stores).append(node.id)
            return
        self.generic_visit(node)


def names(nodes):
    v = _Names()
    for n in (nodes if isinstance(nodes, list) else [nodes]):
        v.visit(n)
    return v


def loads(nodes):
    return set(names(nodes).loads)


def stores(nodes):
    out = []
    for n in names(nodes).stores:
        if n not in out:
            out.append(n)
    return out


def tup(items):
    if not items:
        return "tt"
    if len(items) == 1:
        return items[0]
    return "(" + ", ".join(items) + ")"


def tup_type(n):
    if n == 0:
        return "unit"
    if n == 1:
        return "dv"
    return "(" + " * ".join(["dv"] * n) + ")"


def paren(t):
    """t, parenthesised unless it already is one parenthesised group"""
    t = t.strip()
    if t.startswith("("):
        depth = 0
        for i, ch in enumerate(t):
            depth += ch == "("
            depth -= ch == ")"
            if depth == 0:
                if i == len(t) - 1:
                    return t
                break
    if " " not in t and "\n" not in t:
        return t
    return "(" + t + ")"


def indent(text, n=2):
    pad = " " * n
    return "\n".join(pad + ln if ln else ln for ln in text.split("\n"))


class Fn:
    """one translated method"""
    def __init__(self, methods, fundef, gen_name, facts, dialect=None):
        self.d = dialect or DISPATCH
        self.methods = methods      # already translated: name -> info
        self.fundef = fundef
        self.name = gen_name
        self.facts = facts
        self.n = 0
        self.nk = 0
        self.nl = 0
        self.defs = []
        self.break_k = []
        self.loop_depth = 0
        self.nh = 0
        self.hstack = []
        self.try_depth = 0
        self.stype = ["unit"]      # state type of the enclosing block

    # ------------------------------------------------------------ helpers
    def fresh(self, base="x"):
        self.n += 1
        return "%s%d" % (base, self.n)

    def ctx_params(self):
        return " ".join("(%s : %s)" % x for x in self.d.CTX) + (
            " (f : facts)" if self.facts else "")

    def ctx_args(self):
        return " ".join(x for x, _ in self.d.CTX) + (
            " f" if self.facts else "")

    def need_facts(self, node):
        if not self.facts:
            raise Unsupported(node, "needs the routing facts outside "
                              "__request__")

    def unpack(self, var, names_):
        """text binding the components of state variable `var`"""
        if not names_:
            return ""
        if len(names_) == 1:
            return "let %s := %s in\n" % (names_[0], var)
        return "let '(%s) := %s in\n" % (", ".join(names_), var)

    # -------------------------------------------------------- expressions
    def bind(self, env, m, x, body):
        """`x <- m; body` at statement level.  Inside a try body whose
        clauses can see variables assigned in that body, the clauses are
        attached to every step together with the variables' current values
        (so a clause sees the assignments made before the raise)"""
        if self.hstack:
            return "(bind_try %s\n%s (fun %s =>\n%s))" % (
                self.hstack[-1](env), paren(m), x, body)
        return "(bind %s (fun %s =>\n%s))" % (paren(m), x, body)

    def with_vals(self, nodes, env, k, acc=()):
        """evaluate `nodes` left to right (binding the effectful ones),
        then continue with k(list of dv terms) : text of an M-term"""
        if not nodes:
            return k(list(acc))
        pure, t = self.expr(nodes[0], env)
        if pure:
            return self.with_vals(nodes[1:], env, k, acc + (t,))
        x = self.fresh()
        return self.bind(env, t, x,
                         self.with_vals(nodes[1:], env, k, acc + (x,)))

    def sub_vals(self, nodes, env, k):
        """like with_vals, for the operands of ONE expression: the result is
        a closed M-term (no statement continuation inside), so plain bind"""
        saved, self.hstack = self.hstack, []
        try:
            return paren(self.with_vals(nodes, env, k))
        finally:
            self.hstack = saved

    def selfkey(self, node):
        """env key of the expression self.<attr>, else None"""
        if isinstance(node, ast.Attribute) and is_self(node.value):
            return "self." + self.d.SELF_ALIAS.get(node.attr, node.attr)
        return None

    def mterm(self, node, env):
        pure, t = self.expr(node, env)
        return "(ret %s)" % t if pure else t

    def expr(self, node, env):
        """-> (pure, text); pure text : dv, effectful text : M dv"""
        if isinstance(node, ast.Constant):
            v = node.value
            if v is None:
                return True, "(DV PNone)"
            if isinstance(v, bool):
                raise Unsupported(node, "constant")
            if isinstance(v, int):
                return True, "(DV (PInt %s))" % py2v.zl(v)
            if isinstance(v, str):
                return True, "(DV (PStr %s))" % py2v.strlit(v)
            raise Unsupported(node, "constant")
        if isinstance(node, ast.Tuple):
            if not isinstance(node.ctx, ast.Load):
                raise Unsupported(node, "tuple")
            if not node.elts:
                return True, "(DV (PTuple []))"
            if not self.d.TUPLES or any(isinstance(x, ast.Starred)
                                        for x in node.elts):
                raise Unsupported(node, "tuple")
            if all(self.expr(x, env)[0] for x in node.elts):
                return True, "(mk_tuple [%s])" % "; ".join(
                    self.expr(x, env)[1] for x in node.elts)
            return False, self.sub_vals(
                list(node.elts), env,
                lambda t: "ret (mk_tuple [%s])" % "; ".join(t))
        if isinstance(node, ast.Name):
            if node.id in env:
                return True, env[node.id]
            if node.id == "self":
                return True, "DSelf"
            if node.id in self.d.GLOBAL_VALUE:
                return True, self.d.GLOBAL_VALUE[node.id]
            if node.id in self.d.CONSTS:
                return True, "(DV (PInt %s))" % py2v.zl(self.d.CONSTS[node.id])
            raise Unsupported(node, "unknown name")
        if isinstance(node, ast.Attribute):
            if is_self(node.value):
                key = self.selfkey(node)
                if key in env:
                    return True, env[key]
                if node.attr in self.d.SELF_VALUE:
                    return True, self.d.SELF_VALUE[node.attr]
                raise Unsupported(node, "attribute of self")
            if node.attr not in self.d.READ_ATTR:
                raise Unsupported(node, "attribute")
            return False, self.sub_vals(
                [node.value], env,
                lambda t: self.d.T_GETATTR.format(t[0],
                                                  self.d.READ_ATTR[node.attr]))
        if isinstance(node, ast.Subscript):
            if isinstance(node.slice, ast.Slice):
                raise Unsupported(node, "slice")
            return False, self.sub_vals(
                [node.value, node.slice], env,
                lambda t: self.d.T_SUBSCRIPT.format(t[0], t[1]))
        if isinstance(node, ast.BinOp):
            if not (isinstance(node.op, ast.Mod)
                    and isinstance(node.left, ast.Constant)
                    and node.left.value in self.d.FORMATS):
                raise Unsupported(node, "operator")
            arity, tmpl = self.d.FORMATS[node.left.value]
            if not (isinstance(node.right, ast.Tuple)
                    and len(node.right.elts) == arity):
                raise Unsupported(node, "format arity")
            return False, self.sub_vals(list(node.right.elts), env,
                                         lambda t: tmpl.format(*t))
        if isinstance(node, ast.BoolOp):
            op = "v_and" if isinstance(node.op, ast.And) else "v_or"
            terms = [self.mterm(v, env) for v in node.values]
            t = terms[-1]
            for x in reversed(terms[:-1]):
                t = "(%s %s\n%s)" % (op, x, t)
            return False, t
        if self.is_test(node):
            pure, b = self.cond(node, env)
            if pure:
                return True, "(of_bool %s)" % b
            x = self.fresh("b")
            return False, "(bind %s (fun %s => ret (of_bool %s)))" % (b, x, x)
        if isinstance(node, ast.Call):
            return self.call(node, env)
        raise Unsupported(node, "expression")

    @staticmethod
    def is_isinstance(node):
        return (isinstance(node, ast.Call) and isinstance(node.func, ast.Name)
                and node.func.id == "isinstance")

    def is_test(self, node):
        return (isinstance(node, ast.Compare) or self.is_isinstance(node)
                or (isinstance(node, ast.UnaryOp)
                    and isinstance(node.op, ast.Not)))

    def cond(self, node, env):
        """-> (pure, text); pure text : bool, effectful text : M bool"""
        if isinstance(node, ast.BoolOp):
            parts = [self.cond(v, env) for v in node.values]
            is_and = isinstance(node.op, ast.And)
            if all(p for p, _ in parts):
                return True, "(" + (" && " if is_and else " || ").join(
                    t for _, t in parts) + ")"
            ms = ["(ret %s)" % t if p else t for p, t in parts]
            t = ms[-1]
            for x in reversed(ms[:-1]):
                t = "(%s %s\n%s)" % ("c_and" if is_and else "c_or", x, t)
            return False, t
        if isinstance(node, ast.UnaryOp) and isinstance(node.op, ast.Not):
            p, t = self.cond(node.operand, env)
            return (True, "(negb %s)" % t) if p else (False, "(c_not %s)" % t)
        if isinstance(node, ast.Compare):
            if len(node.ops) != 1:
                raise Unsupported(node, "chained comparison")
            op, right = node.ops[0], node.comparators[0]
            neg = isinstance(op, (ast.NotIn, ast.IsNot, ast.NotEq))
            if isinstance(op, (ast.In, ast.NotIn)):
                operands = [node.left, right]
                fmt = self.d.T_CONTAINS
            elif isinstance(op, (ast.Is, ast.IsNot)):
                if not (isinstance(right, ast.Constant)
                        and right.value is None):
                    raise Unsupported(node, "is")
                operands = [node.left]
                fmt = "is_none {0}"
            elif isinstance(op, (ast.Eq, ast.NotEq)):
                operands = [node.left, right]
                fmt = self.d.T_TRUTHY.format("(py_eq {0} {1})")
            else:
                raise Unsupported(node, "comparison")
            return self.test_of(operands, env, fmt, neg)
        if self.is_isinstance(node):
            if len(node.args) != 2 or node.keywords:
                raise Unsupported(node, "isinstance shape")
            if self.d.CLASSES is not None:
                cl = node.args[1]
                items = cl.elts if isinstance(cl, ast.Tuple) else [cl]
                if not items or not all(isinstance(x, ast.Name)
                                        and x.id in self.d.CLASSES
                                        and x.id not in env for x in items):
                    raise Unsupported(cl, "isinstance class")
                names_ = "[%s]" % "; ".join(self.d.CLASSES[x.id]
                                            for x in items)
                return self.test_of(
                    [node.args[0]], env,
                    self.d.T_ISINSTANCE.format("{0}", names_), False)
            return self.test_of(list(node.args), env,
                                self.d.T_ISINSTANCE, False)
        pure, t = self.expr(node, env)
        if pure:
            return True, "(%s)" % self.d.T_TRUTHY.format(t)
        x = self.fresh()
        return False, "(bind %s (fun %s => ret (%s)))" % (
            t, x, self.d.T_TRUTHY.format(x))

    def test_of(self, operands, env, fmt, neg):
        wrap = "(negb (%s))" if neg else "(%s)"
        flags = [self.expr(o, env)[0] for o in operands]
        if all(flags):
            ts = [self.expr(o, env)[1] for o in operands]
            return True, wrap % fmt.format(*ts)
        return False, self.sub_vals(
            operands, env, lambda t: "ret " + wrap % fmt.format(*t))

    def call(self, node, env):
        f = node.func
        if isinstance(f, ast.Name) and f.id not in env:
            if f.id in self.d.CTORS:
                return False, self.call_ctor(node, env)
            if f.id in self.methods and self.methods[f.id].get("function"):
                return False, self.call_function(node, env)
        if any(isinstance(x, ast.Starred) for x in node.args):
            raise Unsupported(node, "starred argument")
        kwdict = None
        for kw in node.keywords:
            if kw.arg is not None or kwdict is not None:
                raise Unsupported(node, "keyword argument")
            kwdict = kw.value
        if isinstance(f, ast.Name) and f.id not in env:
            if f.id not in self.d.FUNCS:
                raise Unsupported(node, "call of unknown function")
            arity, pure, tmpl, facts = self.d.FUNCS[f.id]
            if len(node.args) != arity or node.keywords:
                raise Unsupported(node, "arity of %s" % f.id)
            if facts:
                self.need_facts(node)
            if pure:
                if not all(self.expr(x, env)[0] for x in node.args):
                    raise Unsupported(node, "effectful argument")
                return True, tmpl.format(*[self.expr(x, env)[1]
                                           for x in node.args])
            return False, self.sub_vals(list(node.args), env,
                                         lambda t: tmpl.format(*t))
        if isinstance(f, ast.Attribute):
            if is_self(f.value):
                if f.attr in self.methods:
                    return False, self.call_generated(node, env, kwdict)
                if f.attr in self.d.SELF_PRIM:
                    arity, tmpl = self.d.SELF_PRIM[f.attr]
                    if len(node.args) != arity or node.keywords:
                        raise Unsupported(node, "arity of %s" % f.attr)
                    self.need_facts(node)
                    if "gen_handler_from_before" in tmpl and \
                            "handler_from_before" not in self.methods:
                        raise Unsupported(node, "handler_from_before is "
                                          "not translated")
                    return False, self.sub_vals(list(node.args), env,
                                                 lambda t: tmpl.format(*t))
                raise Unsupported(node, "method of self")
            if f.attr in self.d.VALUE_METHOD:
                ent = self.d.VALUE_METHOD[f.attr]
                arity, tmpl = ent if isinstance(ent, tuple) else (0, ent)
                if len(node.args) != arity or node.keywords:
                    raise Unsupported(node, "arity of %s" % f.attr)
                return False, self.sub_vals([f.value] + list(node.args), env,
                                             lambda t: tmpl.format(*t))
            raise Unsupported(node, "method call")
        if (isinstance(f, ast.Name) and f.id in env) or \
                isinstance(f, ast.Subscript):
            nodes = [f] + list(node.args) + ([kwdict] if kwdict else [])

            def fin(t):
                n = len(node.args)
                kw = "(Some %s)" % t[n + 1] if kwdict else "None"
                return self.d.T_INVOKE.format(t[0], "; ".join(t[1:n + 1]),
                                              kw)
            return False, self.sub_vals(nodes, env, fin)
        raise Unsupported(node, "call")

    def call_generated(self, node, env, kwdict):
        info = self.methods[node.func.attr]
        if len(node.args) != len(info["params"]):
            raise Unsupported(node, "arity of %s" % node.func.attr)
        if kwdict is not None and not info["kwarg"]:
            raise Unsupported(node, "** to a method without **kwargs")
        if info["facts"]:
            self.need_facts(node)
        nodes = list(node.args) + ([kwdict] if kwdict is not None else [])

        def fin(t):
            args = list(t)
            if info["kwarg"] and kwdict is None:
                args.append("DKw")
            return "%s %s%s %s" % (info["gen"],
                                   " ".join(x for x, _ in self.d.CTX),
                                   " f" if info["facts"] else "",
                                   " ".join(args))
        return self.sub_vals(nodes, env, fin)

    def call_function(self, node, env):
        """f(*t) for a translated module-level function f: Python's
        argument binding of a splatted tuple against f's signature"""
        info = self.methods[node.func.id]
        if len(node.args) != 1 or node.keywords or \
                not isinstance(node.args[0], ast.Starred):
            raise Unsupported(node, "call shape of %s" % node.func.id)
        n = len(info["params"])
        xs = ["y%d" % i for i in range(1, n + 1)]
        ctx = " ".join(x for x, _ in self.d.CTX)
        adapter = "(fun l => match l with [%s] => %s %s %s | _ => raise " \
            "ETypeErr end)" % ("; ".join(xs), info["gen"], ctx, " ".join(xs))
        return self.sub_vals(
            [node.args[0].value], env,
            lambda t: "call_splat %d [%s] %s %s" % (
                n, "; ".join(info["defaults"]), adapter, t[0]))

    def call_ctor(self, node, env):
        """Cls(args, kw=...) for a response class: the arguments are bound
        BY THE SOURCE SIGNATURE of Cls.__init__ (positional order, keyword
        names, default constants) to the named slots of the primitive"""
        name = node.func.id
        slots, tmpl = self.d.CTORS[name]
        sig = self.d.CTOR_SIGS[name].args
        if sig.posonlyargs or sig.kwonlyargs or sig.vararg or \
                not sig.args or sig.args[0].arg != "self":
            raise Unsupported(node, "signature of %s" % name)
        params = [x.arg for x in sig.args[1:]]
        if sorted(params) != sorted(slots):
            raise Unsupported(node, "signature of %s: %s" % (name, params))
        defaults = dict(zip(params[len(params) - len(sig.defaults):],
                            sig.defaults))
        if any(isinstance(x, ast.Starred) for x in node.args) or \
                len(node.args) > len(params):
            raise Unsupported(node, "arguments of %s" % name)
        given = {}
        nodes = []
        for p_, x in zip(params, node.args):
            given[p_] = len(nodes)
            nodes.append(x)
        for kw in node.keywords:
            if kw.arg is None or kw.arg not in params or kw.arg in given:
                raise Unsupported(node, "keyword of %s" % name)
            given[kw.arg] = len(nodes)
            nodes.append(kw.value)

        def fin(t):
            vals = []
            for s_ in slots:
                if s_ in given:
                    vals.append(t[given[s_]])
                elif s_ in defaults:
                    pure, d = self.expr(defaults[s_], {})
                    if not pure:
                        raise Unsupported(defaults[s_], "default value")
                    vals.append(d)
                else:
                    raise Unsupported(node, "missing argument %s" % s_)
            return tmpl.format(*vals)
        return self.sub_vals(nodes, env, fin)

    # --------------------------------------------------------- statements
    def block(self, stmts, env, k, live):
        """k: env -> text of the continuation (always small: a `ret`, a
        recursive loop call or a call of a lifted continuation); live:
        names k reads"""
        stmts = [s for s in stmts if not dropped(s)]
        return self._block(stmts, env, k, live)

    def _block(self, stmts, env, k, live):
        if not stmts:
            return k(env)
        st, rest = stmts[0], stmts[1:]
        if isinstance(st, (ast.If, ast.Try, ast.For)):
            live_rest = loads(rest) | live
            cont = self.join(st, env, rest, k, live, live_rest) if rest else k
            return self.compound(st, env, cont, live_rest)
        return self.simple(
            st, env, lambda e: self._block(rest, e, k, live))

    def join(self, st, env, rest, k, live, live_rest):
        """lambda-lift `rest` (the statements after the compound statement
        st) into a top-level definition over the live variables"""
        if self.loop_depth:
            raise Unsupported(rest[0], "statements after a compound "
                              "statement inside a loop body")
        cand = list(env) + [s for s in stores(st) if s not in env]
        pnames = [v for v in cand
                  if v in live_rest or v.startswith("self.")]
        self.nk += 1
        kname = "%s_k%d" % (self.name, self.nk)
        params = [self.fresh() for _ in pnames]
        body = self._block(rest, dict(zip(pnames, params)), k, live)
        sig = " (%s : dv)" % " ".join(params) if params else ""
        self.defs.append("Definition %s %s%s : M (ctl %s) :=\n%s." % (
            kname, self.ctx_params(), sig, self.stype[-1], indent(body)))
        return lambda e: "%s %s %s" % (
            kname, self.ctx_args(),
            " ".join(e.get(v, "DUnbound") for v in pnames))

    def simple(self, st, env, cont):
        if isinstance(st, ast.Pass):
            return cont(env)
        if isinstance(st, ast.Return):
            if st.value is None:
                return "ret (Retn (DV PNone))"
            return self.with_vals([st.value], env,
                                  lambda t: "ret (Retn %s)" % t[0])
        if isinstance(st, ast.Raise):
            e = st.exc
            if st.cause is not None or not (
                    isinstance(e, ast.Call) and isinstance(e.func, ast.Name)
                    and e.func.id in self.d.RAISE and not e.keywords
                    and all(isinstance(x, ast.Constant) for x in e.args)):
                raise Unsupported(st, "raise")
            return "raise %s" % self.d.RAISE[e.func.id]
        if isinstance(st, ast.Break):
            if not self.break_k:
                raise Unsupported(st, "break outside loop")
            return self.break_k[-1](env)
        if isinstance(st, ast.Expr):
            if not isinstance(st.value, ast.Call):
                raise Unsupported(st, "expression statement")
            upd = self.state_update(st, env, cont)
            if upd is not None:
                return upd
            pure, t = self.expr(st.value, env)
            if pure:
                return cont(env)
            return self.bind(env, t, "_", cont(env))
        if isinstance(st, ast.Assign):
            if len(st.targets) != 1:
                raise Unsupported(st, "multiple targets")
            tg = st.targets[0]
            if isinstance(tg, ast.Name):
                if tg.id == "self":
                    raise Unsupported(st, "assignment to self")
                pure, t = self.expr(st.value, env)
                x = self.fresh()
                e2 = dict(env)
                e2[tg.id] = x
                if pure:
                    return "(let %s := %s in\n%s)" % (x, t, cont(e2))
                return self.bind(env, t, x, cont(e2))
            if isinstance(tg, ast.Attribute):
                if is_self(tg.value) or tg.attr not in self.d.WRITE_ATTR:
                    raise Unsupported(st, "attribute store")
                return self.with_vals(
                    [st.value, tg.value], env,
                    lambda t: self.bind(env, "setattr_ %s %s %s" % (
                        t[1], self.d.WRITE_ATTR[tg.attr], t[0]), "_", cont(env)))
            if isinstance(tg, ast.Subscript):
                if isinstance(tg.slice, ast.Slice):
                    raise Unsupported(st, "slice store")
                return self.with_vals(
                    [st.value, tg.value, tg.slice], env,
                    lambda t: self.bind(env, "setitem %s %s %s" % (
                        t[1], t[2], t[0]), "_", cont(env)))
            raise Unsupported(st, "assignment target")
        raise Unsupported(st, "statement")

    def state_update(self, st, env, cont):
        """self.<var>.<mutator>(args) and calls of a recorded parameter:
        the statement rebinds the variable that holds the object's state"""
        c = st.value
        if c.keywords or any(isinstance(x, ast.Starred) for x in c.args):
            return None
        if isinstance(c.func, ast.Attribute) and \
                c.func.attr in self.d.MUTATORS and \
                self.selfkey(c.func.value) in env:
            key = self.selfkey(c.func.value)
            arity, tmpl = self.d.MUTATORS[c.func.attr]
            if len(c.args) != arity:
                raise Unsupported(st, "arity of %s" % c.func.attr)
        elif isinstance(c.func, ast.Name) and c.func.id in env and \
                c.func.id in self.d.CALL_LOG:
            key = self.d.CALL_LOG[c.func.id]
            tmpl = None
        else:
            return None
        if self.loop_depth or self.try_depth or key not in env:
            raise Unsupported(st, "state update inside try/loop")
        x = self.fresh()
        e2 = dict(env)
        e2[key] = x

        def fin(t):
            m = tmpl.format(env[key], *t) if tmpl else \
                "log_call %s [%s]" % (env[key], "; ".join(t))
            return self.bind(env, m, x, cont(e2))
        return self.with_vals(list(c.args), env, fin)

    def compound(self, st, env, cont, live_rest):
        if isinstance(st, ast.If):
            pure, c = self.cond(st.test, env)
            yes = self.block(st.body, env, cont, live_rest)
            no = self.block(st.orelse, env, cont, live_rest)
            if pure:
                return "(if %s then\n%s\nelse\n%s)" % (c, indent(yes),
                                                      indent(no))
            b = self.fresh("b")
            return self.bind(env, c, b, "if %s then\n%s\nelse\n%s" % (
                b, indent(yes), indent(no)))
        if isinstance(st, ast.Try):
            return self.try_(st, env, cont, live_rest)
        if isinstance(st, ast.For):
            return self.for_(st, env, cont, live_rest)
        raise Unsupported(st, "statement")

    def classes(self, node):
        if node is None:
            return ["KBaseException"]
        items = node.elts if isinstance(node, ast.Tuple) else [node]
        out = []
        for it in items:
            if not (isinstance(it, ast.Name) and it.id in self.d.EXC_CLASS):
                raise Unsupported(it, "exception class")
            out.append(self.d.EXC_CLASS[it.id])
        if not out:
            raise Unsupported(node, "empty exception tuple")
        return out

    @staticmethod
    def exposed(hbody, v, live_rest):
        """may clause body `hbody` read variable v before assigning it, or
        fall through without having assigned it while v is read later?"""
        for st in hbody:
            if dropped(st):
                continue
            if v in loads(st):
                return True
            if isinstance(st, ast.Assign) and len(st.targets) == 1 and \
                    isinstance(st.targets[0], ast.Name) and \
                    st.targets[0].id == v:
                return False
            if isinstance(st, ast.Return):
                return False
        return v in live_rest

    def try_(self, st, env, cont, live_rest):
        if st.orelse or st.finalbody:
            raise Unsupported(st, "try/else, try/finally")
        if self.hstack:
            raise Unsupported(st, "try nested in a try body whose clauses "
                              "read variables assigned in that body")
        svars = [v for v in stores(st) if v in live_rest]
        # variables assigned in the body that a clause can see
        seen = [v for v in stores(st.body)
                if any(self.exposed(h.body, v, live_rest)
                       for h in st.handlers)]

        def k_norm(e):
            return "ret (Norm %s)" % tup([e.get(v, "DUnbound")
                                          for v in svars])

        def clauses(eh0):
            out = []
            for h in st.handlers:
                ks = self.classes(h.type)
                ev = self.fresh("e")
                eh = dict(eh0)
                if h.name:
                    eh[h.name] = "(DE %s)" % ev
                hb = self.block(h.body, eh, k_norm, live_rest)
                out.append("([%s], fun %s =>\n%s)" % ("; ".join(ks), ev,
                                                      indent(hb)))
            return "[" + ";\n   ".join(out) + "]"
        e2 = dict(env)
        for h in st.handlers:
            if h.name:
                e2.pop(h.name, None)
        self.stype.append(tup_type(len(svars)))
        self.try_depth += 1
        if not seen:
            body = self.block(st.body, env, k_norm, live_rest)
            term = "try_catch\n%s\n  %s" % (indent(body, 4), clauses(env))
        else:
            # the clause list becomes a definition over the current values
            # of the variables it reads; it is attached to every step of
            # the body (bind_try) with the values at that step
            hloads = set()
            for h in st.handlers:
                hloads |= loads(h.body)
            cand = list(env) + [v for v in seen if v not in env]
            pnames = [v for v in cand if v in hloads or v in svars]
            self.nh += 1
            hname = "%s_h%d" % (self.name, self.nh)
            params = [self.fresh() for _ in pnames]
            text = clauses(dict(zip(pnames, params)))
            sig = " (%s : dv)" % " ".join(params) if params else ""
            self.defs.append(
                "Definition %s %s%s\n  : list (list eclass * (exn -> M (ctl %s)))"
                " :=\n%s." % (hname, self.ctx_params(), sig, self.stype[-1],
                              indent(text)))
            self.hstack.append(lambda e: "(%s %s %s)" % (
                hname, self.ctx_args(),
                " ".join(e.get(v, "DUnbound") for v in pnames)))
            body = self.block(st.body, env, k_norm, live_rest)
            self.hstack.pop()
            term = body
        self.try_depth -= 1
        self.stype.pop()
        new = [self.fresh() for _ in svars]
        e2.update(zip(svars, new))
        p = self.fresh("p") if svars else "_"
        return "(seq_ctl (S:=%s) %s\n  (fun %s =>\n%s%s))" % (
            tup_type(len(svars)), paren(term), p, self.unpack(p, new),
            cont(e2))

    def iterable(self, node):
        if isinstance(node, ast.Attribute) and is_self(node.value) and \
                node.attr in self.d.SELF_LIST:
            return "list", self.d.SELF_LIST[node.attr]
        if isinstance(node, ast.Call) and not node.args and \
                not node.keywords and isinstance(node.func, ast.Attribute) \
                and node.func.attr == "items" and \
                isinstance(node.func.value, ast.Attribute) and \
                is_self(node.func.value.value) and \
                node.func.value.attr in self.d.SELF_ITEMS:
            return "items", self.d.SELF_ITEMS[node.func.value.attr]
        raise Unsupported(node, "iterable")

    def for_(self, st, env, cont, live_rest):
        if st.orelse:
            raise Unsupported(st, "for/else")
        if self.hstack:
            raise Unsupported(st, "loop in a try body whose clauses read "
                              "variables assigned in that body")
        kind, items = self.iterable(st.iter)
        if kind == "list":
            if not isinstance(st.target, ast.Name):
                raise Unsupported(st.target, "loop target")
            targets = [st.target.id]
        else:
            if not (isinstance(st.target, ast.Tuple)
                    and len(st.target.elts) == 2
                    and all(isinstance(x, ast.Name)
                            for x in st.target.elts)):
                raise Unsupported(st.target, "loop target")
            targets = [x.id for x in st.target.elts]
        body_loads = loads(st.body)
        carried = [v for v in stores(st.body)
                   if v not in targets and (v in live_rest or v in body_loads)]
        free = [v for v in env if v in body_loads and v not in carried
                and v not in targets]
        self.nl += 1
        lname = "%s_loop%d" % (self.name, self.nl)
        fparams = [self.fresh() for _ in free]
        lvar, tail = self.fresh("l"), self.fresh("l")
        tparams = [self.fresh() for _ in targets]
        cparams = [self.fresh() for _ in carried]
        envb = dict(zip(free, fparams))
        envb.update(zip(carried, cparams))
        envb.update(zip(targets, tparams))

        def state(e):
            return [e.get(v, "DUnbound") for v in carried]

        def recur(e):
            return " ".join([lname, self.ctx_args()] + fparams + [tail]
                            + state(e))
        self.break_k.append(lambda e: "ret (Norm %s)" % tup(state(e)))
        self.loop_depth += 1
        self.stype.append(tup_type(len(carried)))
        body = self.block(st.body, envb, recur, set(carried))
        self.stype.pop()
        self.loop_depth -= 1
        self.break_k.pop()
        pat = tparams[0] if kind == "list" else "(%s, %s)" % tuple(tparams)
        ety = "dv" if kind == "list" else "(dv * dv)"
        sig = "".join(" (%s : dv)" % x for x in fparams)
        sig += " (%s : list %s)" % (lvar, ety)
        sig += "".join(" (%s : dv)" % x for x in cparams)
        self.defs.append(
            "Fixpoint %s %s%s {struct %s} : M (ctl %s) :=\n"
            "  match %s with\n  | [] => ret (Norm %s)\n  | %s :: %s =>\n%s\n"
            "  end." % (lname, self.ctx_params(), sig, lvar,
                        tup_type(len(carried)), lvar, tup(cparams), pat, tail,
                        indent(body, 6)))
        call = " ".join([lname, self.ctx_args()] + [env[v] for v in free]
                        + [items] + state(env))
        e2 = dict(env)
        new = [self.fresh() for _ in carried]
        e2.update(zip(carried, new))
        p = self.fresh("p") if carried else "_"
        return "(seq_ctl (S:=%s) (%s)\n  (fun %s =>\n%s%s))" % (
            tup_type(len(carried)), call, p, self.unpack(p, new), cont(e2))

    # ----------------------------------------------------------- function
    def translate(self):
        a = self.fundef.args
        if self.fundef.decorator_list:
            raise Unsupported(self.fundef, "decorator")
        if self.d.FUNCTIONS:
            return self.translate_function()
        if a.posonlyargs or a.kwonlyargs or a.vararg or a.defaults or \
                a.kw_defaults or not a.args or a.args[0].arg != "self":
            raise Unsupported(self.fundef, "signature")
        params = [x.arg for x in a.args[1:]]
        allp = params + ([a.kwarg.arg] if a.kwarg else [])
        allp += ["self." + v for v in self.d.SELF_VARS]
        env = {p: self.fresh() for p in allp}
        body = self.block(self.fundef.body, env, self.end, set())
        sig = " (%s : dv)" % " ".join(env[p] for p in allp) if allp else ""
        self.defs.append("Definition %s %s%s : M dv :=\n  run_fn (\n%s)." % (
            self.name, self.ctx_params(), sig, indent(body, 4)))
        return {"gen": self.name, "params": params,
                "kwarg": bool(a.kwarg), "facts": self.facts}

    def end(self, env):
        return self.d.END(env) if callable(self.d.END) else self.d.END

    def translate_function(self):
        """a module-level function; its default values (constants) are
        recorded for the callers"""
        a = self.fundef.args
        if a.posonlyargs or a.kwonlyargs or a.vararg or a.kwarg or \
                a.kw_defaults or (a.args and a.args[0].arg == "self"):
            raise Unsupported(self.fundef, "signature")
        params = [x.arg for x in a.args]
        defaults = []
        for dnode in a.defaults:
            pure, t = self.expr(dnode, {})
            if not pure:
                raise Unsupported(dnode, "default value")
            defaults.append(t)
        env = {p: self.fresh() for p in params}
        body = self.block(self.fundef.body, env, self.end, set())
        sig = " (%s : dv)" % " ".join(env[p] for p in params) if params else ""
        self.defs.append("Definition %s %s%s : M dv :=\n  run_fn (\n%s)." % (
            self.name, self.ctx_params(), sig, indent(body, 4)))
        return {"gen": self.name, "params": params, "defaults": defaults,
                "kwarg": False, "facts": False, "function": True}


HEADER = """(* GENERATED by harness/py2v_dispatch.py from poorwsgi/wsgi.py \
Application.%s -- do not edit *)
From Coq Require Import ZArith List Bool String.
Require Import PW.lib.Val PW.lib.Dec PW.model.Dispatch PW.lib.PyDispatch.
Import ListNotations.
Open Scope list_scope.
Open Scope Z_scope.
"""


def gen_dispatch():
    import os
    tree = py2v.parse("poorwsgi/wsgi.py")
    methods = {}
    defs = []
    for pyname, gen, facts in TARGET_METHODS:
        fundef = py2v.find_function(tree, pyname, "Application")
        fn = Fn(methods, fundef, gen, facts)
        methods[pyname] = fn.translate()
        defs += fn.defs
    text = HEADER % ", ".join(p for p, _, _ in TARGET_METHODS)
    text += "\n" + "\n\n".join(defs) + "\n"
    os.makedirs(py2v.GEN, exist_ok=True)
    path = os.path.join(py2v.GEN, "DispatchGen.v")
    old = open(path).read() if os.path.exists(path) else None
    if old != text:
        with open(path, "w") as f:
            f.write(text)
    return path


def register(TARGETS, OUTPUT):
    TARGETS["dispatch"] = gen_dispatch
    OUTPUT["dispatch"] = "DispatchGen.v"
