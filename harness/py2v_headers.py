"""Translator plugin: poorwsgi/headers.py class Headers (property C14)

    __len__ __getitem__ __delitem__ add_header __setitem__ names keys values
    get_all items setdefault add __init__
        ->  coq/gen/HeadersGen.v   (gen_len, gen_getitem, ... gen_init)

proved equal to coq/model/Headers.v in coq/proofs/HeadersGenEq.v (theorems
C14_generated_<method>_is_model at the bottom of coq/props/C14.v).

A small general translator of its own (Python `ast` -> Gallina over
coq/lib/PyHeaders.v), syntax directed and fail closed.  Every method becomes
a computation in the monad [M] of lib/PyHeaders.v: the value of the private
attribute `self.__headers` is threaded through, exceptions are explicit and
carry the attribute's value at the time they leave the method.

Translated from the syntax:
  * statements: assignment to a local, `self.__headers = e`, `if/elif/else`
    (join points over the locals assigned in the branches), `for` over a
    list with carried locals and early `return`, `return`, `raise Cls(...)`,
    bare `raise` in a handler, `try/except` (clauses in source order, class
    tuples), `del self[k]`, `x.append(e)` on a local list literal,
    `self.__headers.append(e)`, calls of other methods of the class;
  * expressions: constants, locals, `and/or/not` with short circuit,
    `== != is None / is not None / in / not in`, tuples and lists,
    `e[<int>]`, `isinstance(e, classes)`, `len/list/tuple`, generator
    expressions under `list()/tuple()` (one `for`, any `if`s), `.lower()`,
    `.items()`, `.replace(<1 char>, <str>)`, `<str>.join(e)`,
    `Headers.iso88591(e)`, `render_negotiation(e)`, `_formatparam(a, b)`,
    `self[k]`, `k in self`, `self.method(...)` with the callee's own
    signature (defaults, keywords, **kwargs as a dict);
  * the inherited methods the class relies on: `self.get` and `in self`
    resolve to collections.abc.Mapping's (fixed definitions mapping_get /
    mapping_contains of lib/PyHeaders.v over the class's own __getitem__)
    only if the class's single base is collections.abc.Mapping and it does
    not define them itself.
Primitives (lib/PyHeaders.v, defined by model/Headers.v's own functions, NOT
translated): Headers.iso88591, str.lower, str.replace, str.join,
_formatparam, render_negotiation.

Dropped by name: docstrings, `log.*(...)` statements, and the argument of an
exception constructor in `raise` (messages are not modelled; only message
shapes that cannot themselves raise are accepted, see msg_ok).

Aliasing guard (values are copied in the semantics, Python lists are
shared): `x = self.__headers` makes the stored list shared; while it is
shared an in-place `append` on it -- directly or inside a called method --
is refused; `self.__headers = list(...)` (a new list) ends the sharing.  A
local list may only be used where it cannot escape.

Locals are named by binding position (v1, v2, ...; parameters p1, p2, ...),
so renaming a local, adding comments, docstrings, type hints or log calls
leaves the generated text unchanged.  Anything not listed raises
py2v.Unsupported: gen/HeadersGen.v and the compiled forms of it and of
proofs/HeadersGenEq.v are removed and the C14_generated_* theorems stop
compiling.
"""
import ast
import os
import sys

import py2v
from py2v import Unsupported

SOURCE = "poorwsgi/headers.py"
CLASS = "Headers"
OUTFILE = "HeadersGen.v"

# methods translated, callee before caller
METHODS = ["__len__", "__getitem__", "__delitem__", "add_header",
           "__setitem__", "names", "keys", "values", "get_all", "items",
           "setdefault", "add", "__init__"]

# ===================================================================== TRUSTED
# Python class name -> constructor of PyHeaders.pyclass
CLASSES = {"str": "Cstr", "bytes": "Cbytes", "int": "Cint", "bool": "Cbool",
           "list": "Clist", "tuple": "Ctuple", "set": "Cset", "dict": "Cdict"}
# exceptions the code may raise -> constructor of Headers.exn
RAISABLE = {"KeyError": "KeyError", "TypeError": "TypeError",
            "ValueError": "ValueError", "AttributeError": "AttributeError"}
# classes an except clause may name -> constructor of PyHeaders.exnclass
CATCHABLE = {"BaseException": "EBaseException", "Exception": "EException",
             "LookupError": "ELookupError", "KeyError": "EKeyError",
             "TypeError": "ETypeError", "ValueError": "EValueError",
             "AttributeError": "EAttributeError"}
# method of a value, number of arguments -> primitive
VALUE_METHODS = {("lower", 0): "p_lower", ("items", 0): "p_items"}
# module-level functions that stay primitives: name -> (arity, primitive,
# where the name must come from)
PRIM_FUNCS = {"render_negotiation": (1, "p_render_negotiation", "def"),
              "_formatparam": (2, "p_formatparam", "wsgiref.headers")}
# static methods of the class that stay primitives
PRIM_STATIC = {"iso88591": "p_iso88591"}
# inherited from collections.abc.Mapping: name -> helper of lib/PyHeaders.v
# (each takes the class's own __getitem__)
MAPPING_BASE = ("collections.abc", "Mapping")
BUILTINS = ["isinstance", "len", "list", "tuple", "type"]
# hooks that would change what attribute access / construction mean
FORBIDDEN_HOOKS = {"__getattribute__", "__getattr__", "__setattr__",
                   "__delattr__", "__new__", "__init_subclass__",
                   "__class_getitem__", "__set_name__"}
# names whose meaning the translation fixes: none of them may be rebound
RESERVED = set(CLASSES) | set(RAISABLE) | set(CATCHABLE) | set(PRIM_FUNCS) \
    | set(BUILTINS) | {CLASS, "Mapping", "log", "self"}
# =============================================================================

FLAG_FRESH, FLAG_INHERIT, FLAG_SHARED = "fresh", "inherit", "shared"


def join_flags(flags):
    flags = set(flags)
    if not flags:
        return None                      # unreachable
    if len(flags) == 1:
        return flags.pop()
    if FLAG_SHARED in flags:
        return FLAG_SHARED
    return FLAG_INHERIT


def zlist(text):
    return "[" + "; ".join(str(ord(c)) for c in text) + "]"


def gen_name(method):
    return "gen_" + method.strip("_")


def is_docstring(st):
    return isinstance(st, ast.Expr) and isinstance(st.value, ast.Constant) \
        and isinstance(st.value.value, str)


def is_self_headers(node):
    """the private attribute, as written inside the class"""
    return isinstance(node, ast.Attribute) and node.attr == "__headers" and \
        isinstance(node.value, ast.Name) and node.value.id == "self"


class Sig:
    """signature of a translated method (without self)"""
    def __init__(self, fundef):
        a = fundef.args
        if a.posonlyargs or a.vararg or a.kwonlyargs or a.kw_defaults:
            raise Unsupported(fundef, "signature")
        if not a.args or a.args[0].arg != "self":
            raise Unsupported(fundef, "first parameter is not self")
        self.params = [p.arg for p in a.args[1:]]
        self.kwarg = a.kwarg.arg if a.kwarg else None
        names = self.params + ([self.kwarg] if self.kwarg else [])
        if len(set(names)) != len(names) or set(names) & RESERVED:
            raise Unsupported(fundef, "parameter names")
        self.defaults = {}
        for name, node in zip(self.params[len(self.params)
                                          - len(a.defaults):], a.defaults):
            if not (isinstance(node, ast.Constant) and (
                    node.value is None or isinstance(node.value, bool))):
                raise Unsupported(node, "default value")
            self.defaults[name] = node
        # summary for the aliasing guard
        self.appends_inherited = False
        self.end_flag = FLAG_INHERIT


class Fn:
    """state of one method's translation"""
    def __init__(self, name):
        self.name = name
        self.count = 0
        self.retk = None
        self.handler_exn = None     # Coq variable of the exception caught
        self.in_try = False
        self.end_flags = []

    def fresh(self):
        self.count += 1
        return "v%d" % self.count


class Translator:
    def __init__(self, cls, has_mapping_base):
        self.cls = cls
        self.own = {}
        for st in cls.body:
            if isinstance(st, ast.FunctionDef):
                if st.name in self.own:
                    raise Unsupported(st, "method defined twice")
                if st.name in FORBIDDEN_HOOKS:
                    raise Unsupported(st, "attribute / construction hook")
                self.own[st.name] = st
            elif not is_docstring(st):
                raise Unsupported(st, "class body statement")
        self.has_mapping_base = has_mapping_base
        self.sigs = {}              # translated so far
        self.defs = []

    # ------------------------------------------------------------ utilities
    def bind(self, fn, term, k):
        var = fn.fresh()
        return "%s <- %s ;;\n%s" % (var, term, k(var))

    def lift(self, fn, term, k):
        return self.bind(fn, "mlift (%s)" % term, k)

    def lookup(self, env, node, mut_ok=False):
        name = node.id
        if name in env["@alias"]:
            raise Unsupported(node, "use of an alias of self.__headers")
        if name in env["@mut"] and not mut_ok:
            raise Unsupported(node, "local list may escape")
        if name not in env or name.startswith("@"):
            raise Unsupported(node, "unknown name %s" % name)
        return env[name]

    def seq(self, fn, env, nodes, k):
        def go(i, acc):
            if i == len(nodes):
                return k(acc)
            return self.expr(fn, env, nodes[i], lambda a: go(i + 1, acc + [a]))
        return go(0, [])

    # ---------------------------------------------------------- expressions
    def expr(self, fn, env, node, k, mut_ok=False):
        """code of type M _; k: Coq term of the value -> rest of the code"""
        if isinstance(node, ast.Constant):
            val = node.value
            if val is None:
                return k("VNone")
            if isinstance(val, bool):
                return k("(VBool %s)" % ("true" if val else "false"))
            if isinstance(val, int):
                return k("(VInt %s)" % py2v.zl(val))
            if isinstance(val, str):
                return k("(VStr %s)" % zlist(val))
            raise Unsupported(node, "constant")
        if isinstance(node, ast.Name):
            return k(self.lookup(env, node, mut_ok))
        if isinstance(node, ast.Tuple) and isinstance(node.ctx, ast.Load):
            return self.seq(fn, env, node.elts, lambda items: k(
                "(VTuple [%s])" % "; ".join(items)))
        if isinstance(node, ast.List) and isinstance(node.ctx, ast.Load):
            return self.seq(fn, env, node.elts, lambda items: k(
                "(VList [%s])" % "; ".join(items)))
        if isinstance(node, ast.UnaryOp) and isinstance(node.op, ast.Not):
            return self.expr(fn, env, node.operand, lambda a: self.lift(
                fn, "p_not %s" % a, k), mut_ok=True)
        if isinstance(node, ast.BoolOp):
            return self.boolop(fn, env, node, k)
        if isinstance(node, ast.Compare):
            return self.compare(fn, env, node, k)
        if isinstance(node, ast.Subscript) and isinstance(node.ctx, ast.Load):
            if isinstance(node.value, ast.Name) and node.value.id == "self":
                return self.expr(fn, env, node.slice, lambda key: self.bind(
                    fn, "%s %s" % (self.own_method(node, "__getitem__", env),
                                   key), k))
            idx = node.slice
            if isinstance(idx, ast.Constant) and type(idx.value) is int \
                    and idx.value >= 0:
                return self.expr(fn, env, node.value, lambda v: self.lift(
                    fn, "p_index %s %d" % (v, idx.value), k))
            raise Unsupported(node, "subscript")
        if isinstance(node, ast.Call):
            return self.call(fn, env, node, k)
        raise Unsupported(node, "expression")

    def boolop(self, fn, env, node, k):
        join, arg = fn.fresh(), fn.fresh()
        values = node.values

        def go(i):
            if i == len(values) - 1:
                return self.expr(fn, env, values[i],
                                 lambda a: "%s %s" % (join, a))
            if isinstance(node.op, ast.And):
                return self.expr(
                    fn, env, values[i], lambda a:
                    "if truthy %s then (%s)\nelse %s %s" % (
                        a, go(i + 1), join, a))
            return self.expr(
                fn, env, values[i], lambda a:
                "if truthy %s then %s %s\nelse (%s)" % (
                    a, join, a, go(i + 1)))
        body = k(arg)
        return "let %s := fun (%s : hv) => (%s) in\n%s" % (
            join, arg, body, go(0))

    def compare(self, fn, env, node, k):
        if len(node.ops) != 1:
            raise Unsupported(node, "chained comparison")
        op, right = node.ops[0], node.comparators[0]
        if isinstance(op, (ast.Is, ast.IsNot)):
            if not (isinstance(right, ast.Constant) and right.value is None):
                raise Unsupported(node, "is")
            prim = "p_is_none" if isinstance(op, ast.Is) else "p_is_not_none"
            return self.expr(fn, env, node.left, lambda a: self.lift(
                fn, "%s %s" % (prim, a), k), mut_ok=True)
        if isinstance(op, (ast.In, ast.NotIn)):
            if isinstance(right, ast.Name) and right.id == "self":
                # the container protocol of the class
                if "__contains__" in self.own:
                    target = self.own_method(node, "__contains__", env)
                else:
                    target = "mapping_contains %s" % self.inherited(
                        node, "__contains__", env)

                def test(a):
                    if isinstance(op, ast.In):
                        return self.bind(fn, "%s %s" % (target, a), k)
                    return self.bind(
                        fn, "%s %s" % (target, a),
                        lambda b: self.lift(fn, "p_not %s" % b, k))
                return self.expr(fn, env, node.left, test)
            prim = "p_in" if isinstance(op, ast.In) else "p_not_in"
            return self.expr(fn, env, node.left, lambda a: self.expr(
                fn, env, right, lambda b: self.lift(
                    fn, "%s %s %s" % (prim, a, b), k)))
        prims = {ast.Eq: "p_eq", ast.NotEq: "p_ne"}
        prim = prims.get(type(op))
        if prim is None:
            raise Unsupported(node, "comparison")
        return self.expr(fn, env, node.left, lambda a: self.expr(
            fn, env, right, lambda b: self.lift(
                fn, "%s %s %s" % (prim, a, b), k)))

    # -------------------------------------------------------- name resolution
    def own_method(self, node, name, env):
        """generated function of a method the class itself defines"""
        if name not in self.own:
            raise Unsupported(node, "class does not define %s" % name)
        if name not in self.sigs:
            raise Unsupported(node, "method %s is not translated (yet)" % name)
        sig = self.sigs[name]
        if sig.appends_inherited:
            if env["@flag"] == FLAG_SHARED:
                raise Unsupported(node, "in-place append on a shared list")
            if env["@flag"] == FLAG_INHERIT:
                env["@sig"].appends_inherited = True
        return gen_name(name)

    def after_call(self, env, name):
        """aliasing state after a call of the class's own method"""
        end = self.sigs[name].end_flag
        if end == FLAG_INHERIT:
            return env
        return dict(env, **{"@flag": end})

    def inherited(self, node, name, env):
        """collections.abc.Mapping.get / __contains__: over self[key]"""
        if not self.has_mapping_base or name in self.own:
            raise Unsupported(node, "no inherited %s" % name)
        return self.own_method(node, "__getitem__", env)

    def bind_args(self, node, sig):
        """actual argument nodes in the callee's parameter order (+ the
        **kwargs dict as [(name, node)])"""
        if any(isinstance(a, ast.Starred) for a in node.args) or \
                any(w.arg is None for w in node.keywords):
            raise Unsupported(node, "star arguments")
        if len(node.args) > len(sig.params):
            raise Unsupported(node, "too many arguments")
        # Python evaluates the arguments in source order; keywords follow
        # the positionals in the source, so parameter order = source order
        # as long as the keywords are given in parameter order
        named, extra = {}, []
        for w in node.keywords:
            if w.arg in sig.params:
                if w.arg in named or \
                        sig.params.index(w.arg) < len(node.args):
                    raise Unsupported(node, "argument given twice")
                named[w.arg] = w.value
            elif sig.kwarg:
                extra.append((w.arg, w.value))
            else:
                raise Unsupported(node, "unknown keyword %s" % w.arg)
        order = [w.arg for w in node.keywords]
        wanted = [p for p in sig.params if p in named] + [n for n, _ in extra]
        if order != wanted:
            raise Unsupported(node, "keywords not in parameter order")
        actual = []
        for i, p in enumerate(sig.params):
            if i < len(node.args):
                actual.append(node.args[i])
            elif p in named:
                actual.append(named[p])
            elif p in sig.defaults:
                actual.append(sig.defaults[p])
            else:
                raise Unsupported(node, "missing argument %s" % p)
        return actual, extra

    def self_call(self, fn, env, node, k):
        """self.method(...) -> (code, env afterwards is the caller's job)"""
        name = node.func.attr
        if name in self.own:
            target = self.own_method(node, name, env)
            sig = self.sigs[name]
            actual, extra = self.bind_args(node, sig)
            nodes = actual + [v for _, v in extra]

            def done(items):
                args = items[:len(actual)]
                if sig.kwarg:
                    args.append("(VDict [%s])" % "; ".join(
                        "(VStr %s, %s)" % (zlist(n), it) for (n, _), it in
                        zip(extra, items[len(actual):])))
                return self.bind(fn, " ".join([target] + args), k)
            return self.seq(fn, env, nodes, done)
        if name == "get":
            getitem = self.inherited(node, "get", env)
            if node.keywords or not 1 <= len(node.args) <= 2 or \
                    any(isinstance(a, ast.Starred) for a in node.args):
                raise Unsupported(node, "arguments of get")
            nodes = list(node.args)
            if len(nodes) == 1:
                nodes.append(ast.Constant(value=None))
            return self.seq(fn, env, nodes, lambda it: self.bind(
                fn, "mapping_get %s %s %s" % (getitem, it[0], it[1]), k))
        raise Unsupported(node, "method %s of self" % name)

    # ---------------------------------------------------------------- calls
    def headers_or_expr(self, fn, env, node, k):
        """an operand that may be self.__headers without making it shared
        (it is consumed on the spot)"""
        if is_self_headers(node):
            return self.bind(fn, "get_headers", k)
        return self.expr(fn, env, node, k, mut_ok=True)

    def call(self, fn, env, node, k):
        func = node.func
        plain = not node.keywords and not any(
            isinstance(a, ast.Starred) for a in node.args)
        nargs = len(node.args)
        if isinstance(func, ast.Name):
            name = func.id
            if name in env:
                raise Unsupported(node, "call of a local")
            if name == "isinstance" and plain and nargs == 2:
                spec = node.args[1]
                elts = spec.elts if isinstance(spec, ast.Tuple) else [spec]
                classes = []
                for e in elts:
                    if not (isinstance(e, ast.Name) and e.id in CLASSES):
                        raise Unsupported(e, "class in isinstance")
                    classes.append(CLASSES[e.id])
                return self.expr(fn, env, node.args[0], lambda a: self.lift(
                    fn, "p_isinstance %s [%s]" % (a, "; ".join(classes)), k),
                    mut_ok=True)
            if name == "len" and plain and nargs == 1:
                return self.headers_or_expr(
                    fn, env, node.args[0], lambda a: self.lift(
                        fn, "p_len %s" % a, k))
            if name in ("list", "tuple") and plain and nargs == 1:
                cons = "VList" if name == "list" else "VTuple"
                arg = node.args[0]
                if isinstance(arg, ast.GeneratorExp):
                    return self.genexp(fn, env, arg, lambda items: k(
                        "(%s %s)" % (cons, items)))
                return self.headers_or_expr(
                    fn, env, arg, lambda a: self.lift(
                        fn, "p_%s %s" % (name, a), k))
            if name in PRIM_FUNCS and plain and \
                    nargs == PRIM_FUNCS[name][0]:
                return self.seq(fn, env, node.args, lambda it: self.lift(
                    fn, " ".join([PRIM_FUNCS[name][1]] + it), k))
            raise Unsupported(node, "call")
        if isinstance(func, ast.Attribute):
            obj, attr = func.value, func.attr
            if isinstance(obj, ast.Name) and obj.id == "self":
                return self.self_call(fn, env, node, k)
            if isinstance(obj, ast.Name) and obj.id == CLASS and \
                    obj.id not in env:
                if attr in PRIM_STATIC and plain and nargs == 1:
                    return self.expr(
                        fn, env, node.args[0], lambda a: self.lift(
                            fn, "%s %s" % (PRIM_STATIC[attr], a), k))
                raise Unsupported(node, "static call")
            if (attr, nargs) in VALUE_METHODS and plain:
                return self.expr(fn, env, obj, lambda v: self.lift(
                    fn, "%s %s" % (VALUE_METHODS[(attr, nargs)], v), k))
            if attr == "replace" and plain and nargs == 2 and all(
                    isinstance(a, ast.Constant) and isinstance(a.value, str)
                    for a in node.args) and len(node.args[0].value) == 1:
                return self.expr(fn, env, obj, lambda v: self.lift(
                    fn, "p_replace_char %s %d %s" % (
                        v, ord(node.args[0].value),
                        zlist(node.args[1].value)), k))
            if attr == "join" and plain and nargs == 1 and \
                    isinstance(obj, ast.Constant) and \
                    isinstance(obj.value, str):
                return self.expr(fn, env, node.args[0], lambda v: self.lift(
                    fn, "p_join %s %s" % (zlist(obj.value), v), k),
                    mut_ok=True)
            raise Unsupported(node, "method call")
        raise Unsupported(node, "call")

    def unpack_target(self, fn, env, target, item):
        """(prefix code, env with the loop / comprehension target bound)"""
        env = dict(env)
        if isinstance(target, ast.Name):
            if target.id in RESERVED:
                raise Unsupported(target, "reserved name")
            env[target.id] = item
            env["@mut"] = env["@mut"] - {target.id}
            env["@alias"] = env["@alias"] - {target.id}
            return "", env
        if isinstance(target, ast.Tuple) and len(target.elts) == 2 and \
                all(isinstance(e, ast.Name) for e in target.elts) and \
                target.elts[0].id != target.elts[1].id:
            pair, a, b = fn.fresh(), fn.fresh(), fn.fresh()
            for e, var in zip(target.elts, (a, b)):
                if e.id in RESERVED:
                    raise Unsupported(e, "reserved name")
                env[e.id] = var
                env["@mut"] = env["@mut"] - {e.id}
                env["@alias"] = env["@alias"] - {e.id}
            return ("%s <- mlift (p_unpack2 %s) ;;\nlet '(%s, %s) := %s in\n"
                    % (pair, item, a, b, pair)), env
        raise Unsupported(target, "loop target")

    def genexp(self, fn, env, node, k):
        if len(node.generators) != 1:
            raise Unsupported(node, "nested comprehension")
        comp = node.generators[0]
        if comp.is_async:
            raise Unsupported(node, "async comprehension")
        for sub in ast.walk(node):
            if isinstance(sub, (ast.NamedExpr, ast.Yield, ast.YieldFrom,
                                ast.Await, ast.Lambda)):
                raise Unsupported(sub, "construct in comprehension")

        def body(items):
            item = fn.fresh()
            prefix, inner = self.unpack_target(fn, env, comp.target, item)

            def conds(i):
                if i == len(comp.ifs):
                    return self.expr(fn, inner, node.elt,
                                     lambda e: "mret (Some %s)" % e)
                return self.expr(
                    fn, inner, comp.ifs[i], lambda c:
                    "if truthy %s then (%s)\nelse mret None" % (
                        c, conds(i + 1)))
            code = prefix + conds(0)
            return self.bind(
                fn, "collect %s (fun (%s : hv) =>\n%s)" % (items, item, code),
                k)
        return self.headers_or_expr(
            fn, env, comp.iter, lambda it: self.lift(
                fn, "p_iter %s" % it, body))

    # ----------------------------------------------------------- statements
    def assigned_locals(self, stmts):
        """names of locals (re)bound anywhere in the statements, in order"""
        names = []

        def add(name):
            if name not in names:
                names.append(name)
        for st in stmts:
            for node in ast.walk(st):
                if isinstance(node, ast.Name) and \
                        isinstance(node.ctx, (ast.Store, ast.Del)):
                    add(node.id)
                elif isinstance(node, ast.Call) and \
                        isinstance(node.func, ast.Attribute) and \
                        node.func.attr == "append" and \
                        isinstance(node.func.value, ast.Name):
                    add(node.func.value.id)
                elif isinstance(node, ast.ExceptHandler) and node.name:
                    add(node.name)
        return names

    def block(self, fn, env, stmts, kend):
        """kend: env -> code at fall-through"""
        if not stmts:
            return kend(env)
        st, rest = stmts[0], stmts[1:]

        def after(env2):
            return self.block(fn, env2, rest, kend)
        if is_docstring(st):
            return after(env)
        if isinstance(st, ast.Expr) and isinstance(st.value, ast.Call):
            return self.call_stmt(fn, env, st.value, after)
        if isinstance(st, ast.Assign):
            return self.assign(fn, env, st, after)
        if isinstance(st, ast.Delete):
            if len(st.targets) == 1 and \
                    isinstance(st.targets[0], ast.Subscript) and \
                    isinstance(st.targets[0].value, ast.Name) and \
                    st.targets[0].value.id == "self":
                target = self.own_method(st, "__delitem__", env)
                return self.expr(
                    fn, env, st.targets[0].slice, lambda key: self.bind(
                        fn, "%s %s" % (target, key), lambda _: after(
                            self.after_call(env, "__delitem__"))))
            raise Unsupported(st, "del")
        if isinstance(st, ast.Return):
            if st.value is None:
                fn.end_flags.append(env["@flag"])
                return fn.retk("VNone")
            if is_self_headers(st.value):
                raise Unsupported(st, "self.__headers escapes")

            def ret(v):
                fn.end_flags.append(env["@flag"])
                return fn.retk(v)
            return self.expr(fn, env, st.value, ret)
        if isinstance(st, ast.Raise):
            if st.cause is not None:
                raise Unsupported(st, "raise ... from")
            if st.exc is None:
                if fn.handler_exn is None:
                    raise Unsupported(st, "bare raise outside a handler")
                return "mraise %s" % fn.handler_exn
            exc = st.exc
            if isinstance(exc, ast.Call) and isinstance(exc.func, ast.Name) \
                    and exc.func.id in RAISABLE and exc.func.id not in env \
                    and not exc.keywords and len(exc.args) <= 1:
                for a in exc.args:
                    self.msg_ok(env, a)
                return "mraise %s" % RAISABLE[exc.func.id]
            raise Unsupported(st, "raise")
        if isinstance(st, ast.If):
            return self.if_stmt(fn, env, st, after)
        if isinstance(st, ast.For):
            return self.for_stmt(fn, env, st, after)
        if isinstance(st, ast.Try):
            return self.try_stmt(fn, env, st, after)
        if isinstance(st, ast.Pass):
            return after(env)
        raise Unsupported(st, "statement")

    def msg_ok(self, env, node):
        """exception messages are not translated; accept only shapes whose
        evaluation cannot itself raise or have an effect: a str constant,
        `<const>.format(<local> | type(<local>), ...)`, `<const> % <local>`"""
        def simple(n):
            if isinstance(n, ast.Name):
                return n.id in env and not n.id.startswith("@")
            return isinstance(n, ast.Call) and isinstance(n.func, ast.Name) \
                and n.func.id == "type" and "type" not in env and \
                not n.keywords and len(n.args) == 1 and \
                isinstance(n.args[0], ast.Name) and n.args[0].id in env
        if isinstance(node, ast.Constant) and isinstance(node.value, str):
            return
        if isinstance(node, ast.Call) and not node.keywords and \
                isinstance(node.func, ast.Attribute) and \
                node.func.attr == "format" and \
                isinstance(node.func.value, ast.Constant) and \
                isinstance(node.func.value.value, str) and \
                all(simple(a) for a in node.args):
            return
        if isinstance(node, ast.BinOp) and isinstance(node.op, ast.Mod) and \
                isinstance(node.left, ast.Constant) and \
                isinstance(node.left.value, str) and \
                isinstance(node.right, ast.Name) and simple(node.right):
            return
        raise Unsupported(node, "exception message")

    def call_stmt(self, fn, env, call, after):
        func = call.func
        if isinstance(func, ast.Attribute) and \
                isinstance(func.value, ast.Name) and \
                func.value.id == "log" and "log" not in env:
            return after(env)                   # logging: dropped by name
        if isinstance(func, ast.Attribute) and func.attr == "append" and \
                not call.keywords and len(call.args) == 1 and \
                not isinstance(call.args[0], ast.Starred):
            if is_self_headers(func.value):
                if env["@flag"] == FLAG_SHARED:
                    raise Unsupported(call, "in-place append on a shared list")
                if env["@flag"] == FLAG_INHERIT:
                    env["@sig"].appends_inherited = True
                return self.expr(
                    fn, env, call.args[0], lambda a: self.bind(
                        fn, "get_headers", lambda h: self.lift(
                            fn, "p_append %s %s" % (h, a), lambda h2:
                            self.bind(fn, "set_headers %s" % h2,
                                      lambda _: after(env)))))
            if isinstance(func.value, ast.Name) and \
                    func.value.id in env["@mut"]:
                loc = func.value.id
                return self.expr(
                    fn, env, call.args[0], lambda a: self.lift(
                        fn, "p_append %s %s" % (env[loc], a), lambda new:
                        after(dict(env, **{loc: new}))))
            raise Unsupported(call, "append")
        if isinstance(func, ast.Attribute) and \
                isinstance(func.value, ast.Name) and func.value.id == "self":
            env = dict(env)
            method = func.attr
            return self.self_call(fn, env, call, lambda _: after(
                self.after_call(env, method) if method in self.own else env))
        raise Unsupported(call, "statement call")

    def assign(self, fn, env, st, after):
        if len(st.targets) != 1:
            raise Unsupported(st, "chained assignment")
        target = st.targets[0]
        if is_self_headers(target):
            value = st.value
            if isinstance(value, ast.Name) and value.id in env["@alias"]:
                flag, term = FLAG_SHARED, env[value.id]
                return self.bind(fn, "set_headers %s" % term, lambda _: after(
                    dict(env, **{"@flag": flag})))
            fresh = isinstance(value, ast.List) or (
                isinstance(value, ast.Call) and
                isinstance(value.func, ast.Name) and
                value.func.id == "list" and "list" not in env)
            if not fresh:
                raise Unsupported(st, "self.__headers = <not a new list>")
            return self.expr(fn, env, value, lambda v: self.bind(
                fn, "set_headers %s" % v, lambda _: after(
                    dict(env, **{"@flag": FLAG_FRESH}))))
        if not isinstance(target, ast.Name):
            raise Unsupported(st, "assignment target")
        name = target.id
        if name in RESERVED:
            raise Unsupported(st, "reserved name")
        if fn.in_try:
            raise Unsupported(st, "assignment to a local inside try")
        if is_self_headers(st.value):
            # an alias of the stored list
            def shared(h):
                env2 = dict(env, **{name: h, "@flag": FLAG_SHARED})
                env2["@alias"] = env["@alias"] | {name}
                env2["@mut"] = env["@mut"] - {name}
                return after(env2)
            return self.bind(fn, "get_headers", shared)

        def bound(v):
            env2 = dict(env, **{name: v})
            env2["@alias"] = env["@alias"] - {name}
            if isinstance(st.value, ast.List):
                env2["@mut"] = env["@mut"] | {name}
            else:
                env2["@mut"] = env["@mut"] - {name}
            return after(env2)
        return self.expr(fn, env, st.value, bound)

    def carried_names(self, env, stmts, extra=()):
        """locals bound before the construct and rebound inside it; a name
        first bound inside is local to the construct (possibly unbound
        afterwards: any later use is refused as an unknown name)"""
        return [n for n in self.assigned_locals(stmts) + list(extra)
                if n in env]

    def if_stmt(self, fn, env, st, after):
        names = []
        for n in self.carried_names(env, st.body + st.orelse):
            if n not in names:
                names.append(n)
        for n in names:
            if n in env["@alias"]:
                raise Unsupported(st, "alias rebound in a branch")
        join = fn.fresh()
        params = [fn.fresh() for _ in names]
        flags = []

        def jump(e):
            flags.append(e["@flag"])
            for n in names:
                if (n in e["@mut"]) != (n in env["@mut"]):
                    raise Unsupported(st, "list / non-list local at a join")
            if not names:
                return "%s tt" % join
            return "%s %s" % (join, " ".join(e[n] for n in names))

        def branches(c):
            body = self.block(fn, env, st.body, jump)
            orelse = self.block(fn, env, st.orelse, jump)
            env_after = dict(env)
            for n, p in zip(names, params):
                env_after[n] = p
            flag = join_flags(flags)
            if flag is not None:        # else: no branch falls out
                env_after["@flag"] = flag
            jcode = after(env_after)
            binder = " ".join("(%s : hv)" % p for p in params) \
                if names else "(_ : unit)"
            return ("let %s := fun %s => (%s) in\nif truthy %s then (%s)\n"
                    "else (%s)" % (join, binder, jcode, c, body, orelse))
        return self.expr(fn, env, st.test, branches, mut_ok=True)

    def for_stmt(self, fn, env, st, after):
        if st.orelse:
            raise Unsupported(st, "for-else")
        for sub in ast.walk(st):
            if isinstance(sub, (ast.Break, ast.Continue)):
                raise Unsupported(sub, "break / continue")
        if fn.in_try:
            raise Unsupported(st, "loop inside try")
        tnames = [n.id for n in ast.walk(st.target)
                  if isinstance(n, ast.Name)]
        names = []
        for n in self.carried_names(env, st.body, tnames):
            if n not in names:
                names.append(n)
        for n in names:
            if n in env["@alias"]:
                raise Unsupported(st, "alias rebound in a loop")

        def tup(items):
            if not items:
                return "tt"
            return "(%s)" % ", ".join(items) if len(items) > 1 else items[0]
        ctype = " * ".join("hv" for _ in names) if names else "unit"

        def loop(items):
            item, carried = fn.fresh(), fn.fresh()
            inner = dict(env)
            cvars = [fn.fresh() for _ in names]
            for n, v in zip(names, cvars):
                inner[n] = v
            prefix, inner = self.unpack_target(fn, inner, st.target, item)

            def again(e):
                if e["@flag"] != env["@flag"]:
                    raise Unsupported(st, "loop body changes the sharing "
                                      "state of self.__headers")
                for n in names:
                    if (n in e["@mut"]) != (n in env["@mut"]):
                        raise Unsupported(st, "list / non-list local in loop")
                return "mret (Next %s)" % tup([e[n] for n in names])
            saved = fn.retk
            fn.retk = lambda v: "mret (Return %s)" % v
            try:
                body = self.block(fn, inner, st.body, again)
            finally:
                fn.retk = saved
            if len(names) > 1:
                body = "let '%s := %s in\n%s" % (tup(cvars), carried, body)
            elif len(names) == 1:
                body = "let %s := %s in\n%s" % (cvars[0], carried, body)
            result, rv = fn.fresh(), fn.fresh()
            outs = [fn.fresh() for _ in names]
            env_after = dict(env)
            for n, v in zip(names, outs):
                env_after[n] = v
            # names first bound in the loop are not visible afterwards
            rest = after(env_after)
            if len(names) > 1:
                rest = "let '%s := %s in\n%s" % (tup(outs), "c_" + result,
                                                  rest)
                pat = "c_" + result
            elif len(names) == 1:
                pat = outs[0]
            else:
                pat = "_"
            return ("%s <- for_loop %s (fun (%s : hv) (%s : %s) =>\n%s%s) %s ;;"
                    "\nmatch %s with\n| Return %s => %s\n| Next %s => (%s)\n"
                    "end" % (result, items, item, carried, ctype, prefix,
                             body, tup([env[n] for n in names]), result, rv,
                             fn.retk(rv), pat, rest))
        return self.headers_or_expr(
            fn, env, st.iter, lambda it: self.lift(
                fn, "p_iter %s" % it, loop))

    def try_stmt(self, fn, env, st, after):
        if st.orelse or st.finalbody or not st.handlers:
            raise Unsupported(st, "try shape")
        if fn.in_try or fn.handler_exn is not None:
            raise Unsupported(st, "nested try")
        result, rv, exn = fn.fresh(), fn.fresh(), fn.fresh()
        saved = fn.retk
        fn.retk = lambda v: "mret (Returned %s)" % v
        fn.in_try = True
        body_flags = []

        def fell(e):
            body_flags.append(e["@flag"])
            return "mret Fell"
        try:
            body = self.block(fn, env, st.body, fell)
            entry = FLAG_SHARED if FLAG_SHARED in body_flags + [env["@flag"]] \
                else FLAG_INHERIT
            chain = "mraise %s" % exn
            fn.handler_exn = exn
            for h in reversed(st.handlers):
                if h.name is not None or h.type is None:
                    raise Unsupported(h, "except clause")
                types = h.type.elts if isinstance(h.type, ast.Tuple) \
                    else [h.type]
                tests = []
                for t in types:
                    if not (isinstance(t, ast.Name) and t.id in CATCHABLE
                            and t.id not in env):
                        raise Unsupported(t, "exception class")
                    tests.append("exn_isa %s %s" % (exn, CATCHABLE[t.id]))
                henv = dict(env, **{"@flag": entry})
                hcode = self.block(fn, henv, h.body, fell)
                chain = "if %s then (%s)\nelse (%s)" % (
                    " || ".join(tests), hcode, chain)
        finally:
            fn.retk = saved
            fn.in_try = False
            fn.handler_exn = None
        flag = join_flags(body_flags)
        env_after = dict(env)
        if flag is not None:
            env_after["@flag"] = flag
        return ("%s <- try_except (%s)\n(fun (%s : exn) => %s) ;;\n"
                "match %s with\n| Returned %s => %s\n| Fell => (%s)\nend" % (
                    result, body, exn, chain, result, rv, fn.retk(rv),
                    after(env_after)))

    # ------------------------------------------------------------ functions
    def method(self, name):
        if name not in self.own:
            raise Unsupported(self.cls, "class does not define %s" % name)
        fundef = self.own[name]
        if fundef.decorator_list:
            raise Unsupported(fundef, "decorator")
        for node in ast.walk(fundef):
            if isinstance(node, (ast.Global, ast.Nonlocal, ast.FunctionDef,
                                 ast.AsyncFunctionDef, ast.ClassDef,
                                 ast.Lambda, ast.Yield, ast.YieldFrom,
                                 ast.Await, ast.NamedExpr, ast.With,
                                 ast.While, ast.Import, ast.ImportFrom)) \
                    and node is not fundef:
                raise Unsupported(node, "construct")
            if isinstance(node, ast.Name) and node.id in RESERVED and \
                    isinstance(node.ctx, (ast.Store, ast.Del)):
                raise Unsupported(node, "reserved name rebound")
        sig = Sig(fundef)
        fn = Fn(name)
        fn.retk = lambda v: "mret %s" % v
        env = {"@alias": frozenset(), "@mut": frozenset(),
               "@flag": FLAG_INHERIT, "@sig": sig}
        formals = []
        for i, p in enumerate(sig.params + (
                [sig.kwarg] if sig.kwarg else [])):
            env[p] = "p%d" % (i + 1)
            formals.append("(p%d : hv)" % (i + 1))

        def end(e):
            fn.end_flags.append(e["@flag"])
            return "mret VNone"
        code = self.block(fn, env, fundef.body, end)
        sig.end_flag = join_flags(fn.end_flags) or FLAG_INHERIT
        self.sigs[name] = sig
        text = "(* %s.%s *)\nDefinition %s %s: M hv :=\n%s." % (
            CLASS, name, gen_name(name),
            "".join(f + " " for f in formals), code)
        # default values of the parameters, by position
        for i, p in enumerate(sig.params):
            if p in sig.defaults:
                text += "\n\nDefinition %s_default_%d : hv := %s." % (
                    gen_name(name), i + 1, self.expr(
                        fn, {}, sig.defaults[p], lambda v: v))
        self.defs.append(text)


# ------------------------------------------------------------- module checks
def check_module(tree):
    """the names the translation gives a fixed meaning are what it takes
    them for: imported / defined once at module level and never rebound"""
    classes = [n for n in tree.body if isinstance(n, ast.ClassDef)
               and n.name == CLASS]
    if len(classes) != 1:
        raise Unsupported(tree, "definitions of class %s" % CLASS)
    cls = classes[0]
    if cls.decorator_list or cls.keywords:
        raise Unsupported(cls, "class decorators / keywords")
    imported = {}
    for node in ast.walk(tree):
        if isinstance(node, ast.ImportFrom):
            for alias in node.names:
                bound = alias.asname or alias.name
                if bound in RESERVED or bound == "*":
                    if node not in tree.body or alias.asname or node.level \
                            or bound in imported:
                        raise Unsupported(node, "import of %s" % bound)
                    imported[bound] = node.module
        elif isinstance(node, ast.Import):
            for alias in node.names:
                if (alias.asname or alias.name.split(".")[0]) in RESERVED:
                    raise Unsupported(node, "import")
        elif isinstance(node, (ast.FunctionDef, ast.AsyncFunctionDef,
                               ast.ClassDef)):
            if node.name in RESERVED and not (
                    node in tree.body and (
                        node is cls or PRIM_FUNCS.get(
                            node.name, (0, 0, ""))[2] == "def")):
                raise Unsupported(node, "definition of a reserved name")
        elif isinstance(node, ast.Name) and node.id in RESERVED and \
                isinstance(node.ctx, (ast.Store, ast.Del)):
            if not (node.id == "log" and any(
                    isinstance(st, ast.Assign) and node in st.targets
                    for st in tree.body)):
                raise Unsupported(node, "reserved name rebound")
        elif isinstance(node, (ast.Global, ast.Nonlocal)) and \
                set(node.names) & RESERVED:
            raise Unsupported(node, "global / nonlocal")
        elif isinstance(node, ast.arg) and node.arg in RESERVED - {"self"}:
            raise Unsupported(node, "parameter named like a reserved name")
    wanted = {"Mapping": MAPPING_BASE[0]}
    for name, (_, _, origin) in PRIM_FUNCS.items():
        if origin == "def":
            defs = [n for n in tree.body if isinstance(n, ast.FunctionDef)
                    and n.name == name]
            if len(defs) != 1 or defs[0].decorator_list:
                raise Unsupported(tree, "definitions of %s" % name)
        else:
            wanted[name] = origin
    for name, origin in wanted.items():
        if name == "Mapping" and name not in imported:
            continue
        if imported.get(name) != origin:
            raise Unsupported(tree, "import of %s" % name)
    for name in imported:
        if name not in wanted:
            raise Unsupported(tree, "import rebinding %s" % name)
    has_mapping_base = len(cls.bases) == 1 and \
        isinstance(cls.bases[0], ast.Name) and \
        cls.bases[0].id == MAPPING_BASE[1] and \
        imported.get("Mapping") == MAPPING_BASE[0]
    for name in PRIM_STATIC:
        defs = [n for n in cls.body if isinstance(n, ast.FunctionDef)
                and n.name == name]
        if len(defs) != 1 or [ast.dump(d) for d in defs[0].decorator_list] \
                != [ast.dump(ast.Name(id="staticmethod", ctx=ast.Load()))]:
            raise Unsupported(cls, "static method %s" % name)
    return cls, has_mapping_base


def translate(outdir=None):
    tree = py2v.parse(SOURCE)
    cls, has_mapping_base = check_module(tree)
    tr = Translator(cls, has_mapping_base)
    for name in METHODS:
        tr.method(name)
    out = ["(* GENERATED by harness/py2v_headers.py from %s class %s (%s) -- "
           "do not edit *)" % (SOURCE, CLASS, ", ".join(METHODS)),
           "From Coq Require Import ZArith List Bool.",
           "Require Import PW.lib.Val PW.model.Headers PW.lib.PyHeaders.",
           "Import ListNotations.", "Open Scope list_scope.",
           "Open Scope Z_scope."]
    out += tr.defs
    text = "\n\n".join(out) + "\n"
    outdir = outdir or py2v.GEN
    os.makedirs(outdir, exist_ok=True)
    path = os.path.join(outdir, OUTFILE)
    old = open(path).read() if os.path.exists(path) else None
    if old != text:
        with open(path, "w") as f:
            f.write(text)
    return path


def drop_compiled():
    """py2v.regenerate removes gen/HeadersGen.v when the translation is
    refused; the compiled forms must go too (also of the proofs file), or a
    stale HeadersGen.vo would keep the dependent theorems compiling"""
    coq = os.path.dirname(py2v.GEN)
    for stem in (os.path.join(py2v.GEN, OUTFILE[:-2]),
                 os.path.join(coq, "proofs", "HeadersGenEq")):
        for ext in (".vo", ".vos", ".vok", ".glob"):
            if os.path.exists(stem + ext):
                os.unlink(stem + ext)


def gen_headers():
    try:
        return translate()
    except Exception:
        drop_compiled()
        raise


def register(TARGETS, OUTPUT):
    TARGETS["headers"] = gen_headers
    OUTPUT["headers"] = OUTFILE


if __name__ == "__main__":
    # development aid: python py2v_headers.py <output directory>
    print(translate(sys.argv[1] if len(sys.argv) > 1 else None))
