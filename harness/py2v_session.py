"""Plugin: poorwsgi/session.py PoorSession.write / destroy / load / header ->
coq/gen/SessionGen.v (property C13).

A domain-specific translator into the state+exception monad of
coq/lib/PySession.v (the object is the model's `state`, the constructor
arguments its `config`).  Taken from the SOURCE SYNTAX: the order of the
statements and of the pipeline calls, every `if` test (truth test of a
private attribute, `is not None`, `not isinstance(..) or .. not in ..`), the
attribute-name string and the value of every morsel store, assignments to
private attributes and `self.data`, the try/except wrapping (which statements
are inside, the class named by `except`, what the handler raises), `raise
SessionError(msg)`, `return`, constants.

Primitives (named call sites, TRUSTED TABLE `CALLS` below; semantics in
lib/PySession.v from the model's codec record): dumps, loads,
hidden(.., self.__secret_key), self.__cps.compress(.., n),
self.__cps.decompress, b64encode, b64decode(<e>.encode()), <e>.decode(),
isinstance(<e>, str|dict|SimpleCookie), self.__sid [not] in <e>,
<e>[self.__sid].value, self.cookie[self.__sid] (= v / [key] = v),
self.cookie.output() rendering (header).

Dropped, explicitly by name: docstrings, `log.<level>(...)` statement calls,
type annotations of parameters, the cause of `raise .. from <handler name>`.
Local variables are numbered by position (v1, v2, ...), never by spelling.
Fail closed: every other node raises py2v.Unsupported; then SessionGen.v and
the compiled forms of gen/SessionGen and proofs/SessionGenEq are removed."""
import ast
import os
import re

import py2v
from py2v import Unsupported

SOURCE = "poorwsgi/session.py"
CLASS = "PoorSession"

# TRUSTED TABLE: attribute of self -> field of lib/PySession.v
FIELDS = {"__expires": "Fexpires", "__max_age": "Fmax_age",
          "__domain": "Fdomain", "__path": "Fpath", "__secure": "Fsecure",
          "__same_site": "Fsame_site", "data": "Fdata"}
# TRUSTED TABLE: attributes of self that may be assigned
ASSIGNABLE = ("__expires", "__max_age", "data")
# TRUSTED TABLE: free function called with one argument -> primitive
CALLS = {"dumps": "p_dumps", "loads": "p_loads", "b64encode": "p_b64encode"}
# TRUSTED TABLE: what the module must import these names from
IMPORTS = {"dumps": "json", "loads": "json", "b64encode": "base64",
           "b64decode": "base64", "SimpleCookie": "http.cookies"}
# TRUSTED TABLE: class named in isinstance / except
CLASSES = {"str": "Cstr", "dict": "Cdict", "SimpleCookie": "CSimpleCookie"}
EXCEPTS = {"Exception": "EException", "BaseException": "EBaseException",
           "SessionError": "ESessionError"}


def is_self_attr(node, attr=None):
    return isinstance(node, ast.Attribute) and \
        isinstance(node.value, ast.Name) and node.value.id == "self" and \
        (attr is None or node.attr == attr)


def is_morsel(node):
    """self.cookie[self.__sid]"""
    return isinstance(node, ast.Subscript) and \
        is_self_attr(node.value, "cookie") and is_self_attr(node.slice, "__sid")


def is_log_call(st):
    if not (isinstance(st, ast.Expr) and isinstance(st.value, ast.Call)):
        return False
    fn = st.value.func
    if not (isinstance(fn, ast.Attribute) and
            isinstance(fn.value, ast.Name) and fn.value.id == "log"):
        return False
    # dropped only when its arguments cannot do anything: constants, names,
    # attribute reads, repr()/str() of those, tuples and `%` of those
    for arg in list(st.value.args) + [k.value for k in st.value.keywords]:
        for sub in ast.walk(arg):
            if isinstance(sub, ast.Call):
                if not (isinstance(sub.func, ast.Name) and
                        sub.func.id in ("repr", "str") and
                        len(sub.args) == 1 and not sub.keywords):
                    raise Unsupported(sub, "call inside a log call")
            elif not isinstance(sub, (ast.Constant, ast.Name, ast.Attribute,
                                      ast.Tuple, ast.BinOp, ast.Mod,
                                      ast.Load)):
                raise Unsupported(sub, "expression inside a log call")
    return True


def is_docstring(st):
    return isinstance(st, ast.Expr) and \
        isinstance(st.value, ast.Constant) and isinstance(st.value.value, str)


def zlist(text):
    return "[" + ";".join(str(ord(c)) for c in text) + "]"


class Fun:
    """one translated method"""

    def __init__(self, methods):
        self.n = 0
        self.methods = methods      # python method name -> generated name

    def fresh(self):
        self.n += 1
        return "v%d" % self.n

    # ------------------------------------------------------------ terms
    @staticmethod
    def seq(binds, last):
        return "".join("%s <- %s ;;\n" % b for b in binds) + last

    def sub(self, env, node):
        """an expression as a self-contained term of type M sv"""
        binds, atom = self.expr(env, node)
        if not binds:
            return "mret %s" % atom
        return "(%s)" % self.seq(binds, "mret %s" % atom)

    def bind(self, binds, term):
        var = self.fresh()
        binds.append((var, term))
        return var

    def expr(self, env, node):
        """-> (bindings, atom): A-normal form, Python evaluation order"""
        binds = []
        if isinstance(node, ast.Name) and isinstance(node.ctx, ast.Load):
            if node.id in env:
                return binds, env[node.id]
            raise Unsupported(node, "name")
        if isinstance(node, ast.Constant):
            val = node.value
            if val is True or val is False:
                return binds, "(@SBool J %s)" % ("true" if val else "false")
            if val is None:
                return binds, "(@SNone J)"
            if isinstance(val, int):
                return binds, "(@SInt J %s)" % py2v.zl(val)
            raise Unsupported(node, "constant")
        if isinstance(node, ast.UnaryOp) and isinstance(node.op, ast.USub) \
                and isinstance(node.operand, ast.Constant) \
                and type(node.operand.value) is int:
            return binds, "(@SInt J %s)" % py2v.zl(-node.operand.value)
        if isinstance(node, ast.UnaryOp) and isinstance(node.op, ast.Not):
            binds, atom = self.expr(env, node.operand)
            return binds, "(p_not %s)" % atom
        if isinstance(node, ast.Attribute) and isinstance(node.ctx, ast.Load):
            if is_self_attr(node) and node.attr in FIELDS:
                return binds, self.bind(binds,
                                        "get_attr %s" % FIELDS[node.attr])
            # <e>[self.__sid].value
            if node.attr == "value" and isinstance(node.value, ast.Subscript) \
                    and is_self_attr(node.value.slice, "__sid") \
                    and not is_self_attr(node.value.value):
                binds, atom = self.expr(env, node.value.value)
                return binds, self.bind(binds, "p_cookie_value %s" % atom)
            raise Unsupported(node, "attribute")
        if isinstance(node, ast.Compare):
            if len(node.ops) != 1:
                raise Unsupported(node, "comparison chain")
            op, right = node.ops[0], node.comparators[0]
            if isinstance(op, (ast.In, ast.NotIn)) and \
                    is_self_attr(node.left, "__sid"):
                binds, atom = self.expr(env, right)
                prim = "p_sid_in" if isinstance(op, ast.In) else "p_sid_not_in"
                return binds, self.bind(binds, "%s %s" % (prim, atom))
            if isinstance(op, (ast.Is, ast.IsNot)) and \
                    isinstance(right, ast.Constant) and right.value is None:
                binds, atom = self.expr(env, node.left)
                prim = "p_is_none" if isinstance(op, ast.Is) \
                    else "p_is_not_none"
                return binds, "(%s %s)" % (prim, atom)
            raise Unsupported(node, "comparison")
        if isinstance(node, ast.BoolOp):
            # short circuit, the value of the deciding operand
            binds, atom = self.expr(env, node.values[0])
            for nxt in node.values[1:]:
                rest = self.sub(env, nxt)
                if isinstance(node.op, ast.Or):
                    term = "(if truthy %s then mret %s else %s)" % (
                        atom, atom, rest)
                else:
                    term = "(if truthy %s then %s else mret %s)" % (
                        atom, rest, atom)
                atom = self.bind(binds, term)
            return binds, atom
        if isinstance(node, ast.IfExp):
            binds, test = self.expr(env, node.test)
            yes = self.sub(env, node.body)
            no = self.sub(env, node.orelse)
            return binds, self.bind(binds, "(if truthy %s then %s else %s)" % (
                test, yes, no))
        if isinstance(node, ast.List) and isinstance(node.ctx, ast.Load) \
                and not node.elts:
            return binds, "(@SList J [])"
        if isinstance(node, ast.Tuple) and isinstance(node.ctx, ast.Load):
            atoms = []
            for elt in node.elts:
                if isinstance(elt, ast.Starred):
                    raise Unsupported(node, "starred element")
                more, atom = self.expr(env, elt)
                binds += more
                atoms.append(atom)
            return binds, "(STuple [%s])" % "; ".join(atoms)
        if isinstance(node, ast.Subscript) and isinstance(node.ctx, ast.Load) \
                and isinstance(node.slice, ast.Slice) \
                and node.slice.step is None:
            binds, atom = self.expr(env, node.value)
            bounds = []
            for bound in (node.slice.lower, node.slice.upper):
                if bound is None:
                    bounds.append("None")
                elif isinstance(bound, ast.Constant) and \
                        type(bound.value) is int and bound.value >= 0:
                    bounds.append("(Some %d)" % bound.value)
                else:
                    raise Unsupported(node, "slice bound")
            return binds, self.bind(binds, "p_slice %s %s %s" % (
                atom, bounds[0], bounds[1]))
        if isinstance(node, ast.Call):
            return self.call(env, node)
        raise Unsupported(node, "expression")

    def call(self, env, node):
        fn = node.func
        if node.keywords:
            raise Unsupported(node, "keyword arguments")
        for arg in node.args:
            if isinstance(arg, ast.Starred):
                raise Unsupported(node, "starred argument")
        nargs = len(node.args)
        if isinstance(fn, ast.Name):
            if fn.id in CALLS and nargs == 1:
                binds, atom = self.expr(env, node.args[0])
                return binds, self.bind(binds, "%s %s" % (CALLS[fn.id], atom))
            if fn.id == "hidden" and nargs == 2 and \
                    is_self_attr(node.args[1], "__secret_key"):
                binds, atom = self.expr(env, node.args[0])
                return binds, self.bind(binds, "p_hidden %s" % atom)
            if fn.id == "b64decode" and nargs == 1:
                arg = node.args[0]
                if isinstance(arg, ast.Call) and not arg.args and \
                        not arg.keywords and \
                        isinstance(arg.func, ast.Attribute) and \
                        arg.func.attr == "encode":
                    binds, atom = self.expr(env, arg.func.value)
                    return binds, self.bind(
                        binds, "p_b64decode_encode %s" % atom)
                raise Unsupported(node, "b64decode argument")
            if fn.id == "isinstance" and nargs == 2 and \
                    isinstance(node.args[1], ast.Name) and \
                    node.args[1].id in CLASSES:
                binds, atom = self.expr(env, node.args[0])
                return binds, self.bind(binds, "p_isinstance %s %s" % (
                    atom, CLASSES[node.args[1].id]))
            raise Unsupported(node, "call")
        if isinstance(fn, ast.Attribute):
            if is_self_attr(fn.value, "__cps"):
                if fn.attr == "compress" and nargs == 2:
                    binds, atom = self.expr(env, node.args[0])
                    more, level = self.expr(env, node.args[1])
                    binds += more
                    return binds, self.bind(binds, "p_compress %s %s" % (
                        atom, level))
                if fn.attr == "decompress" and nargs == 1:
                    binds, atom = self.expr(env, node.args[0])
                    return binds, self.bind(binds, "p_decompress %s" % atom)
                raise Unsupported(node, "compress object method")
            if fn.attr == "output" and nargs == 0 and \
                    is_self_attr(fn.value, "cookie"):
                binds = []
                return binds, self.bind(binds, "p_output")
            if fn.attr == "split" and nargs == 1 and \
                    isinstance(node.args[0], ast.Constant) and \
                    isinstance(node.args[0].value, str) and \
                    not is_self_attr(fn.value):
                binds, atom = self.expr(env, fn.value)
                return binds, self.bind(binds, "p_split %s (SStr %s)" % (
                    atom, zlist(node.args[0].value)))
            if is_self_attr(fn) and fn.attr in self.methods and nargs == 0:
                binds = []
                return binds, self.bind(binds, self.methods[fn.attr])
            if fn.attr == "decode" and nargs == 0 and \
                    not is_self_attr(fn.value):
                binds, atom = self.expr(env, fn.value)
                return binds, self.bind(binds, "p_decode %s" % atom)
        raise Unsupported(node, "call")

    # ------------------------------------------------------- statements
    @staticmethod
    def has_return(stmts):
        for st in stmts:
            for sub in ast.walk(st):
                if isinstance(sub, (ast.Return, ast.Yield, ast.YieldFrom,
                                    ast.Break, ast.Continue, ast.Await)):
                    return True
        return False

    @staticmethod
    def check_no_local_store(stmts, allowed=()):
        for st in stmts:
            for sub in ast.walk(st):
                if isinstance(sub, ast.Name) and \
                        isinstance(sub.ctx, (ast.Store, ast.Del)) and \
                        sub.id not in allowed:
                    raise Unsupported(sub, "local assigned in a nested block")
                if isinstance(sub, ast.Call) and \
                        isinstance(sub.func, ast.Attribute) and \
                        sub.func.attr == "append" and \
                        isinstance(sub.func.value, ast.Name) and \
                        sub.func.value.id not in allowed:
                    raise Unsupported(sub, "local mutated in a nested block")
                if isinstance(sub, (ast.NamedExpr, ast.Lambda, ast.FunctionDef,
                                    ast.ClassDef, ast.Global, ast.Nonlocal)):
                    raise Unsupported(sub, "nested scope construct")

    def unit_block(self, env, stmts, handler=None):
        """statements that cannot return and assign no local, as M unit"""
        if self.has_return(stmts):
            raise Unsupported(stmts[0], "return inside this block")
        self.check_no_local_store(stmts)
        return "(%s)" % self.block(env, stmts, lambda e: "mret tt", handler)

    def block(self, env, stmts, kend, handler=None):
        """`kend(env)` is the term for falling off the end; `handler` is the
        name bound by the enclosing except clause (for `raise .. from`)"""
        if not stmts:
            return kend(env)
        st, rest = stmts[0], stmts[1:]

        def after(env2=env):
            return self.block(env2, rest, kend, handler)

        if is_docstring(st) or is_log_call(st):
            return after()                      # dropped, by name
        if isinstance(st, ast.Pass):
            return after()
        if isinstance(st, ast.Return):
            if st.value is None:
                return "mret (@SNone J)"
            binds, atom = self.expr(env, st.value)
            return self.seq(binds, "mret %s" % atom)
        if isinstance(st, ast.Raise):
            return self.raise_(st, handler)
        if isinstance(st, ast.Expr):
            if isinstance(st.value, ast.Call):
                fn = st.value.func
                if is_self_attr(fn) and fn.attr in self.methods:
                    binds, _ = self.expr(env, st.value)
                    return self.seq(binds, after())
                call = st.value
                plain = not call.keywords and not any(
                    isinstance(a, ast.Starred) for a in call.args)
                if plain and isinstance(fn, ast.Attribute) and \
                        isinstance(fn.value, ast.Name) and \
                        fn.value.id in env:
                    local = fn.value.id
                    if fn.attr == "append" and len(call.args) == 1:
                        # mutation of a local list = its new value
                        binds, atom = self.expr(env, call.args[0])
                        new = self.bind(binds, "p_append %s %s" % (
                            env[local], atom))
                        return self.seq(binds, after(dict(env,
                                                          **{local: new})))
                    if fn.attr == "add_header" and len(call.args) == 2:
                        binds, one = self.expr(env, call.args[0])
                        more, two = self.expr(env, call.args[1])
                        binds += more
                        self.bind(binds, "p_add_header %s %s %s" % (
                            env[local], one, two))
                        return self.seq(binds, after())
            raise Unsupported(st, "expression statement")
        if isinstance(st, ast.Assign):
            if len(st.targets) != 1:
                raise Unsupported(st, "multiple targets")
            target = st.targets[0]
            binds, atom = self.expr(env, st.value)
            if isinstance(target, ast.Name):
                return self.seq(binds, after(dict(env, **{target.id: atom})))
            if is_self_attr(target) and target.attr in ASSIGNABLE:
                self.bind(binds, "set_attr %s %s" % (
                    FIELDS[target.attr], atom))
                return self.seq(binds, after())
            if is_morsel(target):
                self.bind(binds, "cookie_set_value %s" % atom)
                return self.seq(binds, after())
            if isinstance(target, ast.Subscript) and is_morsel(target.value) \
                    and isinstance(target.slice, ast.Constant) \
                    and isinstance(target.slice.value, str) \
                    and re.fullmatch(r"[A-Za-z-]+", target.slice.value):
                self.bind(binds, 'morsel_set "%s" %s' % (
                    target.slice.value, atom))
                return self.seq(binds, after())
            raise Unsupported(st, "assignment target")
        if isinstance(st, ast.If):
            binds, test = self.expr(env, st.test)
            if not st.orelse and st.body and \
                    isinstance(st.body[-1], ast.Return) and \
                    not self.has_return(st.body[:-1]):
                # early return: the rest of the function is the else branch
                self.check_no_local_store(st.body)
                yes = self.block(env, st.body, None, handler)
                return self.seq(binds, "if truthy %s then (%s)\nelse (%s)" % (
                    test, yes, after()))
            yes = self.unit_block(env, st.body, handler)
            no = self.unit_block(env, st.orelse, handler) if st.orelse \
                else "mret tt"
            self.bind(binds, "(if truthy %s then %s else %s)" % (
                test, yes, no))
            return self.seq(binds, after())
        if isinstance(st, ast.For):
            if st.orelse or not isinstance(st.target, ast.Name) or \
                    self.has_return(st.body):
                raise Unsupported(st, "loop shape")
            changed = set()
            for sub in ast.walk(st):
                if isinstance(sub, ast.Name) and \
                        isinstance(sub.ctx, (ast.Store, ast.Del)):
                    changed.add(sub.id)
                if isinstance(sub, ast.Call) and \
                        isinstance(sub.func, ast.Attribute) and \
                        sub.func.attr == "append" and \
                        isinstance(sub.func.value, ast.Name):
                    changed.add(sub.func.value.id)
                if isinstance(sub, (ast.NamedExpr, ast.Lambda, ast.FunctionDef,
                                    ast.ClassDef, ast.Global, ast.Nonlocal)):
                    raise Unsupported(sub, "nested scope construct")
            # carried = locals that exist before the loop and change in it,
            # in the order of their first binding; other names assigned in
            # the body are local to one iteration
            carried = [n for n in env if n in changed]
            binds, it = self.expr(env, st.iter)
            item, acc = self.fresh(), self.fresh()
            inner = dict(env)
            lets = ""
            for i, name in enumerate(carried):
                var = self.fresh()
                lets += "let %s := cnth %s %d in\n" % (var, acc, i)
                inner[name] = var
            inner[st.target.id] = item
            body = self.block(
                inner, st.body,
                lambda e: "mret [%s]" % "; ".join(e[n] for n in carried),
                handler)
            out = self.bind(
                binds, "mfor %s (fun (%s : sv J) (%s : list (sv J)) =>\n"
                "%s%s) [%s]" % (it, item, acc, lets, body,
                                "; ".join(env[n] for n in carried)))
            env2 = dict(env)
            for i, name in enumerate(carried):
                env2[name] = "(cnth %s %d)" % (out, i)
            return self.seq(binds, after(env2))
        if isinstance(st, ast.Try):
            if st.orelse or st.finalbody or not st.handlers:
                raise Unsupported(st, "try shape")
            term = self.unit_block(env, st.body, handler)
            # the first matching clause wins: fold from the last one
            clauses = []
            for hnd in st.handlers:
                if not (isinstance(hnd.type, ast.Name) and
                        hnd.type.id in EXCEPTS):
                    raise Unsupported(hnd, "except class")
                self.check_no_local_store(hnd.body)
                clauses.append((EXCEPTS[hnd.type.id],
                                self.unit_block(env, hnd.body,
                                                hnd.name or "")))
            if len(clauses) != 1:
                raise Unsupported(st, "more than one except clause")
            cls, hterm = clauses[0]
            binds = []
            self.bind(binds, "mtry %s %s %s" % (term, cls, hterm))
            return self.seq(binds, after())
        raise Unsupported(st, "statement")

    def raise_(self, st, handler):
        exc = st.exc
        if not (isinstance(exc, ast.Call) and isinstance(exc.func, ast.Name)
                and exc.func.id == "SessionError" and len(exc.args) == 1
                and not exc.keywords
                and isinstance(exc.args[0], ast.Constant)
                and isinstance(exc.args[0].value, str)):
            raise Unsupported(st, "raise")
        if st.cause is not None and not (
                isinstance(st.cause, ast.Name) and handler
                and st.cause.id == handler):
            raise Unsupported(st, "raise from")
        return "mraise (XSession %s)" % zlist(exc.args[0].value)


def method(cls, name):
    found = [n for n in cls.body
             if isinstance(n, (ast.FunctionDef, ast.AsyncFunctionDef))
             and n.name == name]
    if len(found) != 1 or not isinstance(found[0], ast.FunctionDef):
        raise Unsupported(cls, "definitions of %s" % name)
    fun = found[0]
    if fun.decorator_list:
        raise Unsupported(fun, "decorator")
    return fun


def params(fun, count):
    """positional parameters after self (annotations dropped)"""
    args = fun.args
    if args.vararg or args.kwarg or args.kwonlyargs or args.posonlyargs \
            or args.kw_defaults:
        raise Unsupported(fun, "signature")
    for default in args.defaults:
        # the theorems quantify over every argument value; `= None` only
        # names one of them
        if not (isinstance(default, ast.Constant) and default.value is None):
            raise Unsupported(default, "default value")
    names = [a.arg for a in args.args]
    if len(names) != count + 1 or names[0] != "self":
        raise Unsupported(fun, "signature")
    return names[1:]


def check_module(tree):
    """the primitive names mean what the tables say"""
    imported = {}
    for node in tree.body:
        if isinstance(node, ast.ImportFrom):
            for alias in node.names:
                imported[alias.asname or alias.name] = \
                    (node.module, alias.name)
        elif isinstance(node, ast.Import):
            for alias in node.names:
                imported[(alias.asname or alias.name).split(".")[0]] = \
                    (alias.name, None)
    for name, module in IMPORTS.items():
        if imported.get(name) != (module, name):
            raise Unsupported(tree, "import of %s" % name)
    defs = [n for n in tree.body if isinstance(
        n, (ast.FunctionDef, ast.ClassDef, ast.AsyncFunctionDef))]
    for name, kind in (("hidden", ast.FunctionDef),
                       ("SessionError", ast.ClassDef),
                       (CLASS, ast.ClassDef)):
        found = [n for n in defs if n.name == name]
        if len(found) != 1 or not isinstance(found[0], kind):
            raise Unsupported(tree, "definitions of %s" % name)
    watched = set(IMPORTS) | {"hidden", "SessionError", "isinstance", "str",
                              "dict", "Exception", "BaseException", "log"}
    for node in ast.walk(tree):
        if isinstance(node, ast.Name) and node.id in watched and \
                isinstance(node.ctx, (ast.Store, ast.Del)) and \
                not (node.id == "log" and node in [
                    t for st in tree.body if isinstance(st, ast.Assign)
                    for t in st.targets]):
            raise Unsupported(node, "rebinding")
        if isinstance(node, (ast.Global, ast.Nonlocal)) and \
                watched & set(node.names):
            raise Unsupported(node, "rebinding")
        if isinstance(node, ast.arg) and node.arg in watched:
            raise Unsupported(node, "parameter shadows a primitive")


HEADER = """(* GENERATED by harness/py2v_session.py from %s class %s (%s) -- do not edit *)

From Coq Require Import ZArith List Bool String.

Require Import PW.lib.Val PW.model.Session PW.lib.PySession.

Import ListNotations SessionNotations.

Open Scope string_scope.

Open Scope list_scope.

Open Scope Z_scope.
"""

# python method -> (generated name, number of parameters after self)
TARGETS_ = [("write", "gen_write", 0), ("destroy", "gen_destroy", 0),
            ("load", "gen_load", 1), ("header", "gen_header", 1)]


def drop_compiled():
    coq = os.path.dirname(py2v.GEN)
    for stem in (os.path.join(py2v.GEN, "SessionGen"),
                 os.path.join(coq, "proofs", "SessionGenEq")):
        for ext in (".vo", ".vos", ".vok", ".glob"):
            if os.path.exists(stem + ext):
                os.unlink(stem + ext)


def translate():
    tree = py2v.parse(SOURCE)
    check_module(tree)
    cls = [n for n in tree.body
           if isinstance(n, ast.ClassDef) and n.name == CLASS][0]
    if cls.decorator_list or cls.keywords:
        raise Unsupported(cls, "class header")
    out = [HEADER % (SOURCE, CLASS, ", ".join(t[0] for t in TARGETS_))]
    methods = {}
    for pyname, gname, count in TARGETS_:
        fun = method(cls, pyname)
        names = params(fun, count)
        tr = Fun(dict(methods))
        env = {}
        sig = ""
        for i, name in enumerate(names):
            env[name] = "p%d" % (i + 1)
            sig += " (p%d : sv J)" % (i + 1)
        body = tr.block(env, fun.body, lambda e: "mret (@SNone J)")
        out.append("(* %s.%s *)\nDefinition %s {J : Type}%s : M J (sv J) :=\n"
                   "%s.\n" % (CLASS, pyname, gname, sig, body))
        methods[pyname] = gname
    path = os.path.join(py2v.GEN, "SessionGen.v")
    text = "\n".join(out)
    old = open(path).read() if os.path.exists(path) else None
    if old != text:
        with open(path, "w") as handle:
            handle.write(text)
    return path


def gen_session():
    try:
        return translate()
    except Exception:
        drop_compiled()
        raise


def register(TARGETS, OUTPUT):
    TARGETS["session"] = gen_session
    OUTPUT["session"] = "SessionGen.v"
