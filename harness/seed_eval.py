"""Confirm a seeded change and run our checks against it (by hand, not part
of any registered check).

usage: seed_eval.py <dir with patch.diff demo.py meta.json> [--tier quick]
       [--props C01,C04]   (default: the property named in meta.json)

Everything happens in a scratch worktree of /repo outside /repo and /verif;
the worktree is removed afterwards.  The confirmed change is stored as
/verif/seeded/<prop>-<n>/ with meta.json extended by what was run."""
import json
import os
import re
import shutil
import subprocess
import sys
import time

VERIF = os.path.dirname(os.path.dirname(os.path.abspath(__file__)))
WT = "/root/scratch/seedwt_%d" % os.getpid()
PY = "/venv/bin/python"


def sh(cmd, cwd=None, env=None, timeout=1800):
    proc = subprocess.run(cmd, cwd=cwd, env=env, shell=isinstance(cmd, str),
                          stdout=subprocess.PIPE, stderr=subprocess.STDOUT,
                          text=True, timeout=timeout)
    return proc.returncode, proc.stdout


def table():
    """markdown catch table from seeded/*/meta.json"""
    rows = []
    base = os.path.join(VERIF, "seeded")

    def order(name):
        prop, _, rest = name.partition("-")
        return (prop, rest.startswith("w"), rest)
    for name in sorted(os.listdir(base), key=order):
        path = os.path.join(base, name, "meta.json")
        if not os.path.exists(path):
            continue
        meta = json.load(open(path))
        ver = meta.get("verified_by_us", {})
        checks = ver.get("checks", {})
        first = ""
        for c in checks.values():
            for ln in c["lines"]:
                if ln.startswith("  - "):
                    first = ln[4:].split(":")[0]
                    break
            if first:
                break
        own = meta.get("property")
        others = [k for k, c in checks.items() if c["caught"] and k != own]
        if own in checks and checks[own]["caught"]:
            caught = "yes"
        elif others:
            caught = "by " + ", ".join(sorted(others))
        else:
            caught = "**no**"
        note = meta.get("strengthened", "")
        if note:
            note = "strengthened — " + note
        summary = meta.get("summary", "").replace("|", "/")
        if len(summary) > 150:
            summary = summary[:147] + "..."
        rows.append("| %s | %s | %s | %s | %s |" % (
            name, summary, caught, first, note))
    print("| change | what it does | caught | first reported | note |\n"
          "|---|---|---|---|---|")
    print("\n".join(rows))


def main():
    if sys.argv[1] == "--table":
        return table()
    src = os.path.abspath(sys.argv[1])
    tier = "quick"
    props = None
    args = sys.argv[2:]
    while args:
        a = args.pop(0)
        if a == "--tier":
            tier = args.pop(0)
        elif a == "--props":
            props = args.pop(0).split(",")
    meta = json.load(open(os.path.join(src, "meta.json")))
    prop = meta["property"]
    props = props or [prop]
    result = {"ran_at": time.strftime("%Y-%m-%d %H:%M:%S"), "tier": tier}
    sh(["git", "-C", "/repo", "worktree", "add", "--detach", WT, "HEAD"])
    try:
        rc, out = sh(["git", "apply", os.path.join(src, "patch.diff")],
                     cwd=WT)
        result["patch_applies"] = rc == 0
        if rc:
            result["apply_log"] = out[-500:]
        # existing test suite with the change (private network namespace:
        # the integrity tests bind a fixed port)
        rc, out = sh("unshare -rn sh -c 'ip link set lo up 2>/dev/null; "
                     "cd %s && %s -m pytest -q -p no:cacheprovider "
                     "--timeout=900 --continue-on-collection-errors 2>&1 "
                     "| tail -3'" % (WT, PY))
        m = re.search(r"(\d+) passed", out)
        result["tests_passed"] = int(m.group(1)) if m else 0
        result["tests_tail"] = out.strip().splitlines()[-1:] if out else []
        for name in os.listdir(WT):
            if name.startswith("req_GET_profile"):
                os.unlink(os.path.join(WT, name))
        env = dict(os.environ, PYTHONHASHSEED="0")
        rc1, o1 = sh([PY, os.path.join(src, "demo.py")],
                     env=dict(env, PYTHONPATH=WT), cwd="/root/scratch")
        rc0, o0 = sh([PY, os.path.join(src, "demo.py")],
                     env=dict(env, PYTHONPATH="/repo"), cwd="/root/scratch")
        result["demo_exit_with_change"] = rc1
        result["demo_exit_without_change"] = rc0
        result["demo_output_with_change"] = o1[-400:]
        confirmed = (result["patch_applies"] and result["tests_passed"] >= 210
                     and rc1 != 0 and rc0 == 0)
        result["confirmed"] = confirmed
        result["checks"] = {}
        for p in props:
            t0 = time.time()
            rc, out = sh([os.path.join(VERIF, "bin", "check"), p, "--tier",
                          tier], cwd=VERIF,
                         env=dict(os.environ, VERIF_REPO=WT), timeout=3600)
            lines = [ln for ln in out.splitlines()
                     if ln.startswith(("VIOLATION", "KNOWN-FINDING", "  - "))
                     or ln.startswith(p + " ")]
            result["checks"][p] = {
                "exit": rc, "caught": rc != 0 and "VIOLATION" in out,
                "wall_s": round(time.time() - t0, 1),
                "lines": [ln[:300] for ln in lines[:8]]}
    finally:
        sh(["git", "-C", "/repo", "worktree", "remove", "--force", WT])
        shutil.rmtree(WT, ignore_errors=True)
    n = os.path.basename(src.rstrip("/"))
    wave = re.match(r"mut(\d+)_", os.path.basename(os.path.dirname(
        src.rstrip("/"))))
    if wave:
        n = "w%s-%s" % (wave.group(1), n)
    dest = os.path.join(VERIF, "seeded", "%s-%s" % (prop, n))
    if result.get("confirmed"):
        os.makedirs(dest, exist_ok=True)
        shutil.copy(os.path.join(src, "patch.diff"), dest)
        shutil.copy(os.path.join(src, "demo.py"), dest)
        meta["verified_by_us"] = result
        with open(os.path.join(dest, "meta.json"), "w") as f:
            json.dump(meta, f, indent=1)
    print(json.dumps({"dir": src, "confirmed": result.get("confirmed"),
                      "tests": result.get("tests_passed"),
                      "demo": [result.get("demo_exit_with_change"),
                               result.get("demo_exit_without_change")],
                      "checks": {p: (c["caught"], c["wall_s"])
                                 for p, c in result["checks"].items()}}))
    return 0


if __name__ == "__main__":
    sys.exit(main())
