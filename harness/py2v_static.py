"""Translator tie for static file serving (C12):

    poorwsgi/wsgi.py     Application.handler_from_table, from the statement
                         after the user-route lookups ("# try file or index")
                         to the end of the method
    poorwsgi/request.py  SimpleRequest.document_root, document_index
    poorwsgi/results.py  directory_index (listing, filter, rows)
        ->  coq/gen/StaticGen.v
              gen_gate, gen_rfile, gen_serve,
              gen_document_root, gen_document_index,
              gen_directory_index[_loop_<n>]

Domain specific and fail closed.  The functions are walked statement by
statement (Python `ast`).  GENERATED FROM THE SYNTAX: every string
expression piece by piece (format strings split at their `%s`, `+`,
`.lstrip(chars)`, `x[i]`, `x[:k]`, `==`, `!=`, `&`, `|`, the constants), the
order and nesting of the tests, `and` / `or` / `not`, which branch returns or
raises what, the dict reads with their keys and defaults, the list mutations
(`append`, `sort`) in their order, the `for` loop with its `continue`s and
the row it adds.  The leaves are terms over the primitives of
coq/model/StaticPath.v and coq/lib/PyStatic.v.

TRUSTED (the tables between the TRUSTED markers, nothing else):
  UNITS        which function is translated into what, the meaning of its
               parameters, ATOMS: attribute reads -> variables of the
               generated definition
  CALLS        fully qualified callee -> model primitive (normpath, the
               file-system tests on the model's [fs], os.listdir)
  METHODS      str / dict / list methods -> lib/PyStatic.v operations
  LEAVES       return / raise shapes -> constructors of StaticPath.outcome
  DROPPED      statements without a counterpart in the model: docstrings,
               log.*(...), the before-hooks call, req.uri_rule /
               req.uri_handler bookkeeping (C02, C03), the user-route
               statements in front of the translated part (SKIPPED_HEADS)
  PURE         callables whose calls have no effect on the file system or
               the listing: an assignment whose right-hand side is built of
               them only makes its targets OPAQUE (HTML text, sizes, dates
               -- C15's business); an opaque value reaching anything that is
               translated (a test with control flow behind it, a file
               name, a row) is refused
  PAGE / ROW   the HTML page variable is the first element of the returned
               tuple; inside the loop `page += FMT % (...)` adds one row,
               whose name is the one translated loop-local str among the
               arguments (html_escape is the identity here: the model's row
               is "fname before html_escape")
Names are resolved through the module's import statements to fully
qualified names before they are looked up.  Everything else raises
py2v.Unsupported: the generated file is removed and the theorems
C12_generated_* stop compiling.

Locals are named by binding position (v1, v2, ...) and parameters by
position, so renaming them, adding comments, docstrings or log calls leaves
the generated text unchanged.
"""
import ast
import os

import py2v
from py2v import Unsupported

# ===================================================================== TRUSTED
T_STR, T_BOOL, T_INT = "str", "bool", "int"
T_OPTSTR, T_LIST, T_DICT, T_PAGE = "optstr", "liststr", "dict", "page"
COQ_TYPE = {T_STR: "list Z", T_BOOL: "bool", T_INT: "Z",
            T_OPTSTR: "option (list Z)", T_LIST: "list (list Z)",
            T_DICT: "list Z -> option (list Z)", T_PAGE: "list (list Z)",
            "outcome": "outcome"}

FS = ("fs", "list Z -> node")                    # what the os reports
LISTDIR = ("listdir", "list Z -> list (list Z)")  # os.listdir
LOWER = ("lower", "list Z -> list Z")            # str.lower

# the translated functions.
#   roles: meaning of the positional parameters (None = an object that is
#          only a carrier of attributes; else (variable, type))
#   atoms: (parameter role name, attribute chain) -> (variable, type)
#   binders: parameters of the generated definition, in this order
UNITS = {
    "directory_index": dict(
        source="poorwsgi/results.py", cls=None, function="directory_index",
        gen="gen_directory_index", result="outcome", decorators=[],
        roles=[("req", None), ("dir", ("dir", T_STR))],
        atoms={("req", "document_root"): ("root", T_STR)},
        binders=[FS, LISTDIR, ("root", "list Z"), ("dir", "list Z")]),
    "serve": dict(
        source="poorwsgi/wsgi.py", cls="Application",
        function="handler_from_table",
        gen="gen_serve", result="outcome", decorators=[],
        roles=[("self", None), ("req", None)],
        atoms={("req", "document_root"): ("root", T_STR),
               ("req", "document_index"): ("index", T_BOOL),
               ("req", "debug"): ("debug", T_BOOL),
               ("req", "method_number"): ("mn", T_INT),
               ("req", "path"): ("p", T_STR)},
        binders=[FS, LISTDIR, ("root", "list Z"), ("index", "bool"),
                 ("debug", "bool"), ("mn", "Z"), ("p", "list Z")]),
    "document_root": dict(
        source="poorwsgi/request.py", cls="SimpleRequest",
        function="document_root",
        gen="gen_document_root", result=T_STR, decorators=["property"],
        roles=[("self", None)],
        atoms={("self", "__poor_environ"): ("environ", T_DICT),
               ("self", "__app", "document_root"): ("app_root", T_STR)},
        binders=[("environ", COQ_TYPE[T_DICT]), ("app_root", "list Z")]),
    "document_index": dict(
        source="poorwsgi/request.py", cls="SimpleRequest",
        function="document_index",
        gen="gen_document_index", result=T_BOOL, decorators=["property"],
        roles=[("self", None)],
        atoms={("self", "__poor_environ"): ("environ", T_DICT),
               ("self", "__app", "document_index"): ("app_index", T_BOOL)},
        binders=[LOWER, ("environ", COQ_TYPE[T_DICT]),
                 ("app_index", "bool")]),
}
# the two sub-terms of `serve` the property is about, also emitted alone
GATE = dict(gen="gen_gate", binders=[("root", "list Z"), ("mn", "Z")])
RFILE = dict(gen="gen_rfile", binders=[("root", "list Z"), ("p", "list Z")])

# statements at the head of handler_from_table that are NOT translated: the
# user-route lookups (not part of model/StaticPath.v, which "starts where no
# static or regular expression route matched"; tied by gen/SelectGen.v).
# Recognised by their head expression, each at most once, in this order.
SKIPPED_HEADS = {"serve": [("If", "req.path in self.__handlers"),
                           ("For", "self.__rhandlers")]}

# fully qualified callee -> (argument types, Coq term, result type)
CALLS = {
    "os.path.normpath": ([T_STR], "(normpath {0})", T_STR),
    "os.path.exists": ([T_STR], "(n_exists (fs {0}))", T_BOOL),
    "os.path.isfile": ([T_STR], "(n_isfile (fs {0}))", T_BOOL),
    "os.path.isdir": ([T_STR], "(n_isdir (fs {0}))", T_BOOL),
    "os.access": ([T_STR, "R_OK"], "(n_readable (fs {0}))", T_BOOL),
    "os.listdir": ([T_STR], "(listdir {0})", T_LIST),
    # escaping is C15's; the model's row is the name before html_escape
    "poorwsgi.results.html_escape": ([T_STR], "{0}", T_STR),
}
# fully qualified names that are values
VALUES = {"os.R_OK": (None, "R_OK")}
STATE_MODULE = "poorwsgi.state"          # its integer constants are read
# (receiver type, method, number of arguments) ->
#     (argument types, Coq term over {0} = receiver, result type)
METHODS = {
    (T_STR, "lstrip", 1): ([T_STR], "(str_lstrip {1} {0})", T_STR),
    (T_STR, "lower", 0): ([], "(lower {0})", T_STR),
    (T_DICT, "get", 1): ([T_STR], "({0} {1})", T_OPTSTR),
    (T_DICT, "get", 2): ([T_STR, T_STR], "(dict_get_or {0} {1} {2})", T_STR),
}
# statement `x.m(args)`: the new value of x
MUTATORS = {
    (T_LIST, "append", 1): ([T_STR], "(list_append {0} {1})"),
    (T_LIST, "sort", 0): ([], "(sort {0})"),     # the model's sort on str
}
# x[i] on a str can raise IndexError
INDEX_ERROR = 'OError "IndexError"'

# leaves: (kind, fully qualified callee or role method, argument shapes)
#   -> outcome.  Argument shapes: a role name, or a type (then {n} is its
#   term).  `raise C(code)`: the code is a constant of STATE_MODULE.
LEAVES = {
    "serve": [
        ("return", "poorwsgi.results.debug_info", ["req", "self"], "ODebug"),
        ("return", "self.handler_from_default", ["req"], "ODefault"),
        ("return", "poorwsgi.response.FileResponse", [T_STR], "(OFile {0})"),
        ("return", "poorwsgi.results.directory_index", ["req", T_STR],
         "(gen_directory_index fs listdir root {1})"),
        ("raise", "poorwsgi.response.HTTPException", 403, "OForbidden"),
    ],
    "directory_index": [
        ("raise", "poorwsgi.response.HTTPException", 500,
         '(OError "HTTPException500")'),
        # return (page, content type, headers)
        ("page", None, 3, "(OListing dir {0})"),
    ],
}
# dropped statements
DROPPED_CALL_HEADS = ("log",)                       # log.info(...), ...
DROPPED_CALLS = {"serve": [("self.handler_from_before", ["req"])]}
DROPPED_ATTR_WRITES = {"serve": [("req", "uri_rule"), ("req", "uri_handler")]}
# pure callables / attribute reads allowed in dropped (opaque) expressions
PURE = {"poorwsgi.headers.time_to_http", "os.path.getctime",
        "os.path.getsize", "os.path.isfile", "os.path.isdir",
        "poorwsgi.results.html_escape", "poorwsgi.results.hbytes",
        "mimetypes.guess_type", "time.strftime", "time.gmtime"}
PURE_METHODS = {"rstrip"}
PURE_ATTRS = {("req", "uri"), ("req", "debug"), ("req", "server_software"),
              ("req", "server_admin"), ("req", "path"),
              ("req", "document_root")}
# functions that may be read as values in dropped assignments
PURE_NAMES = {"poorwsgi.results.debug_info",
              "poorwsgi.results.directory_index"}
# ================================================================ end TRUSTED

OPAQUE = "<opaque>"


class Val:
    def __init__(self, term, typ, const=None, origin=None):
        self.term, self.typ, self.const, self.origin = term, typ, const, origin


class Module:
    """one source file: its AST and what its top-level names stand for"""
    def __init__(self, rel):
        self.rel = rel
        self.name = rel[:-3].replace("/", ".")
        self.tree = py2v.parse(rel)
        self.bind = {}          # top-level name -> qualified name / None
        for node in self.tree.body:
            if isinstance(node, ast.Import):
                for al in node.names:
                    self.add(al.asname or al.name.split(".")[0],
                             al.name if al.asname else al.name.split(".")[0])
            elif isinstance(node, ast.ImportFrom):
                if node.level:
                    for al in node.names:
                        self.add(al.asname or al.name, None)
                    continue
                for al in node.names:
                    self.add(al.asname or al.name,
                             "%s.%s" % (node.module, al.name))
            elif isinstance(node, (ast.FunctionDef, ast.ClassDef,
                                   ast.AsyncFunctionDef)):
                self.add(node.name, "%s.%s" % (self.name, node.name))
            elif isinstance(node, (ast.Assign, ast.AnnAssign, ast.AugAssign)):
                tgts = node.targets if isinstance(node, ast.Assign) \
                    else [node.target]
                for tgt in tgts:
                    for sub in ast.walk(tgt):
                        if isinstance(sub, ast.Name):
                            self.add(sub.id, "%s.%s" % (self.name, sub.id))
            elif isinstance(node, (ast.Expr, ast.If, ast.Try)):
                for sub in ast.walk(node):
                    if isinstance(sub, ast.Name) and \
                            isinstance(sub.ctx, (ast.Store, ast.Del)):
                        self.add(sub.id, None)
                    elif isinstance(sub, (ast.Import, ast.ImportFrom,
                                          ast.FunctionDef, ast.ClassDef)):
                        for name in self.bound_by(sub):
                            self.add(name, None)
            else:
                raise Unsupported(node, "top-level statement")

    @staticmethod
    def bound_by(node):
        if isinstance(node, (ast.Import, ast.ImportFrom)):
            return [(al.asname or al.name).split(".")[0] for al in node.names]
        return [node.name]

    def add(self, name, qual):
        # a name bound twice stands for nothing we can know statically
        self.bind[name] = None if name in self.bind else qual

    def qualified(self, dotted_name):
        head, _, rest = dotted_name.partition(".")
        if head not in self.bind or self.bind[head] is None:
            return None
        return self.bind[head] + ("." + rest if rest else "")


def dotted(node):
    if isinstance(node, ast.Name):
        return node.id
    if isinstance(node, ast.Attribute):
        base = dotted(node.value)
        return None if base is None else "%s.%s" % (base, node.attr)
    return None


def has_control(stmts):
    for s in stmts:
        for node in ast.walk(s):
            if isinstance(node, (ast.Return, ast.Raise, ast.Continue,
                                 ast.Break, ast.Yield, ast.YieldFrom,
                                 ast.For, ast.While, ast.Try, ast.With)):
                return True
    return False


class State:
    def __init__(self):
        self.env = {}           # local name -> Val | OPAQUE
        self.inline = False     # in a joined branch: no lets, no raising
        self.loop = None        # (again : State -> code) inside a for body
        self.loop_top = False   # directly in the body of the loop
        self.loop_locals = set()

    def copy(self):
        new = State()
        new.env = dict(self.env)
        new.inline, new.loop, new.loop_top = \
            self.inline, self.loop, self.loop_top
        new.loop_locals = set(self.loop_locals)
        return new


class Fn:
    """one translated function"""
    def __init__(self, tr, key):
        self.tr, self.key, self.spec = tr, key, UNITS[key]
        self.mod = tr.module(self.spec["source"])
        self.fundef = py2v.find_function(self.mod.tree, self.spec["function"],
                                         self.spec["cls"])
        self.counter = 0
        self.loops, self.nloops = [], 0
        self.page = None
        self.roles = {}         # python parameter name -> role name
        self.local_names = None
        args = self.fundef.args
        if args.vararg or args.kwarg or args.kwonlyargs or args.defaults or \
                args.posonlyargs or \
                len(args.args) != len(self.spec["roles"]):
            raise Unsupported(self.fundef, "signature")
        decos = [dotted(d) for d in self.fundef.decorator_list]
        if decos != self.spec["decorators"]:
            raise Unsupported(self.fundef, "decorators")
        self.init = State()
        for arg, (role, val) in zip(args.args, self.spec["roles"]):
            if arg.arg in self.roles:
                raise Unsupported(self.fundef, "repeated parameter")
            self.roles[arg.arg] = role
            if val is not None:
                self.init.env[arg.arg] = Val(val[0], val[1], origin="param")

    def fresh(self):
        self.counter += 1
        return "v%d" % self.counter

    # ------------------------------------------------------------------ names
    def role_chain(self, node):
        """(role, attr, attr, ...) of an attribute chain on a role object"""
        chain = []
        while isinstance(node, ast.Attribute):
            chain.append(node.attr)
            node = node.value
        if isinstance(node, ast.Name) and node.id in self.roles:
            return (self.roles[node.id],) + tuple(reversed(chain))
        return None

    def qualified(self, node, st):
        """fully qualified name of a global, through the imports"""
        name = dotted(node)
        if name is None:
            return None
        head = name.split(".")[0]
        if head in st.env or head in self.roles or self.assigned(head):
            return None
        return self.mod.qualified(name)

    def assigned(self, name):
        """is `name` a local of the function (bound anywhere in it, also in
        the statements that are not translated)?"""
        if self.local_names is None:
            names = set()
            for node in ast.walk(self.fundef):
                if isinstance(node, ast.Name) and \
                        isinstance(node.ctx, (ast.Store, ast.Del)):
                    names.add(node.id)
                elif isinstance(node, ast.ExceptHandler) and node.name:
                    names.add(node.name)
                elif isinstance(node, (ast.Import, ast.ImportFrom)):
                    names |= set(Module.bound_by(node))
                elif isinstance(node, (ast.FunctionDef, ast.ClassDef,
                                       ast.AsyncFunctionDef)) and \
                        node is not self.fundef:
                    names.add(node.name)
                elif isinstance(node, (ast.Global, ast.Nonlocal)):
                    raise Unsupported(node, "global / nonlocal")
            self.local_names = names
        return name in self.local_names

    def check_scopes(self, stmts):
        """the translated statements bind names by assignment and `for`
        only"""
        for s in stmts:
            for node in ast.walk(s):
                if isinstance(node, (ast.FunctionDef, ast.ClassDef,
                                     ast.AsyncFunctionDef, ast.Lambda,
                                     ast.Import, ast.ImportFrom,
                                     ast.NamedExpr, ast.ListComp, ast.SetComp,
                                     ast.DictComp, ast.GeneratorExp,
                                     ast.Await, ast.Yield, ast.YieldFrom)):
                    raise Unsupported(node, "binding construct / scope")

    # ------------------------------------------------------------ expressions
    def ev(self, node, st, k):
        """translate an expression; k : Val -> code.  A sub-expression that
        can raise wraps the code k returns (so evaluation order is the
        order of the calls of k)."""
        if isinstance(node, ast.Constant):
            v = node.value
            if isinstance(v, str):
                return k(Val(py2v.strlit(v), T_STR, v))
            if isinstance(v, int) and not isinstance(v, bool):
                return k(Val(py2v.zl(v), T_INT, v))
            raise Unsupported(node, "constant")
        if isinstance(node, ast.Name) and node.id in st.env:
            val = st.env[node.id]
            if val is OPAQUE:
                raise Unsupported(node, "untranslated (presentation) value "
                                  "used in translated code")
            if val.typ == T_PAGE:
                raise Unsupported(node, "page variable used as a value")
            return k(val)
        if isinstance(node, (ast.Name, ast.Attribute)):
            chain = self.role_chain(node)
            if chain is not None:
                hit = self.spec["atoms"].get(chain)
                if hit is None:
                    raise Unsupported(node, "attribute of %s" % chain[0])
                return k(Val(hit[0], hit[1], origin="param"))
            qual = self.qualified(node, st)
            if qual in VALUES:
                return k(Val(*VALUES[qual]))
            if qual is not None and qual.startswith(STATE_MODULE + "."):
                cname = qual[len(STATE_MODULE) + 1:]
                if cname in self.tr.consts:
                    val = self.tr.consts[cname]
                    return k(Val(py2v.zl(val), T_INT, val))
            raise Unsupported(node, "unknown name")
        if isinstance(node, ast.BinOp):
            return self.binop(node, st, k)
        if isinstance(node, ast.Compare):
            if len(node.ops) != 1:
                raise Unsupported(node, "chained comparison")
            op = node.ops[0]

            def cmp(vals):
                left, right = vals
                if left.typ != T_STR or right.typ != T_STR:
                    raise Unsupported(node, "comparison of these types")
                eq = "(lz_eqb %s %s)" % (left.term, right.term)
                if isinstance(op, ast.Eq):
                    return k(Val(eq, T_BOOL))
                if isinstance(op, ast.NotEq):
                    return k(Val("(negb %s)" % eq, T_BOOL))
                raise Unsupported(node, "comparison operator")
            return self.evs([node.left, node.comparators[0]], st, cmp)
        if isinstance(node, ast.BoolOp):
            sym = "&&" if isinstance(node.op, ast.And) else "||"

            def first(val):
                terms = [self.as_bool(node.values[0], val)]
                for other in node.values[1:]:     # short-circuited operands
                    oval = self.pure(other, st)
                    terms.append(self.as_bool(other, oval))
                return k(Val("(%s)" % (" %s " % sym).join(terms), T_BOOL))
            return self.ev(node.values[0], st, first)
        if isinstance(node, ast.UnaryOp) and isinstance(node.op, ast.Not):
            return self.ev(node.operand, st, lambda val: k(Val(
                "(negb %s)" % self.truth(node.operand, val), T_BOOL)))
        if isinstance(node, ast.IfExp):
            def choose(val):
                yes, no = self.pure(node.body, st), self.pure(node.orelse, st)
                if yes.typ != no.typ or yes.typ not in (T_STR, T_BOOL, T_INT):
                    raise Unsupported(node, "branches of different types")
                return k(Val("(if %s then %s else %s)" % (
                    self.truth(node.test, val), yes.term, no.term), yes.typ))
            return self.ev(node.test, st, choose)
        if isinstance(node, ast.Call):
            return self.call(node, st, k)
        if isinstance(node, ast.Subscript):
            return self.subscript(node, st, k)
        raise Unsupported(node, "expression")

    def evs(self, nodes, st, k, done=()):
        """left to right"""
        if not nodes:
            return k(list(done))
        return self.ev(nodes[0], st, lambda val: self.evs(
            nodes[1:], st, k, tuple(done) + (val,)))

    def pure(self, node, st):
        """an expression that cannot raise"""
        box = []

        def keep(val):
            box.append(val)
            return OPAQUE
        if self.ev(node, st, keep) is not OPAQUE or len(box) != 1:
            raise Unsupported(node, "may raise where the translation needs "
                              "a plain value")
        return box[0]

    @staticmethod
    def as_bool(node, val):
        """operand of and / or in value position: bools only (the result of
        `a or b` is then the bool [a || b])"""
        if val.typ != T_BOOL:
            raise Unsupported(node, "and / or of non-bool values")
        return val.term

    @staticmethod
    def truth(node, val):
        if val.typ == T_BOOL:
            return val.term
        if val.typ == T_STR:
            return "(str_truth %s)" % val.term
        if val.typ == T_INT:
            return "(int_truth %s)" % val.term
        raise Unsupported(node, "truth value of a %s" % val.typ)

    def test(self, node, st, k):
        """a condition: k : bool term -> code"""
        if isinstance(node, ast.BoolOp):
            sym = "&&" if isinstance(node.op, ast.And) else "||"

            def first(term):
                terms = [term]
                for other in node.values[1:]:
                    box = []

                    def keep(t):
                        box.append(t)
                        return OPAQUE
                    if self.test(other, st, keep) is not OPAQUE:
                        raise Unsupported(other, "may raise in a "
                                          "short-circuited operand")
                    terms.append(box[0])
                return k("(%s)" % (" %s " % sym).join(terms))
            return self.test(node.values[0], st, first)
        if isinstance(node, ast.UnaryOp) and isinstance(node.op, ast.Not):
            return self.test(node.operand, st,
                             lambda term: k("(negb %s)" % term))
        return self.ev(node, st, lambda val: k(self.truth(node, val)))

    def binop(self, node, st, k):
        if isinstance(node.op, ast.Mod):
            fmt = node.left
            if not (isinstance(fmt, ast.Constant) and
                    isinstance(fmt.value, str)):
                raise Unsupported(node, "format is not a literal")
            pieces = fmt.value.split("%s")
            if any("%" in piece for piece in pieces):
                raise Unsupported(node, "format directive other than %s")
            args = node.right.elts if isinstance(node.right, ast.Tuple) \
                else [node.right]
            if len(args) != len(pieces) - 1:
                raise Unsupported(node, "number of format arguments")

            def fill(vals):
                parts = []
                for i, piece in enumerate(pieces):
                    if piece:
                        parts.append(py2v.strlit(piece))
                    if i < len(vals):
                        if vals[i].typ != T_STR:   # %s of a str is the str
                            raise Unsupported(node, "%s of a non-str")
                        parts.append(vals[i].term)
                origin = "local" if any(v.origin == "local" for v in vals) \
                    else None
                return k(Val("(%s)" % " ++ ".join(parts), T_STR,
                             origin=origin))
            return self.evs(list(args), st, fill)

        def arith(vals):
            left, right = vals
            if isinstance(node.op, ast.Add) and left.typ == T_STR and \
                    right.typ == T_STR:
                return k(Val("(%s ++ %s)" % (left.term, right.term), T_STR))
            fn = {ast.BitAnd: "Z.land", ast.BitOr: "Z.lor"}.get(type(node.op))
            if fn is None or left.typ != T_INT or right.typ != T_INT:
                raise Unsupported(node, "operator")
            return k(Val("(%s %s %s)" % (fn, left.term, right.term), T_INT))
        return self.evs([node.left, node.right], st, arith)

    def call(self, node, st, k):
        if node.keywords or any(isinstance(a, ast.Starred)
                                for a in node.args):
            raise Unsupported(node, "keywords / starred arguments")
        qual = self.qualified(node.func, st)
        if qual in CALLS:
            want, term, typ = CALLS[qual]

            def apply(vals):
                if [v.typ for v in vals] != want:
                    raise Unsupported(node, "arguments of %s" % qual)
                return k(Val(term.format(*[v.term for v in vals]), typ))
            return self.evs(list(node.args), st, apply)
        if isinstance(node.func, ast.Attribute) and qual is None:
            def method(vals):
                recv, args = vals[0], vals[1:]
                hit = METHODS.get((recv.typ, node.func.attr, len(args)))
                if hit is None:
                    raise Unsupported(node, "method %s of a %s" % (
                        node.func.attr, recv.typ))
                want, term, typ = hit
                if [v.typ for v in args] != want:
                    raise Unsupported(node, "argument types")
                return k(Val(term.format(recv.term, *[v.term for v in args]),
                             typ))
            return self.evs([node.func.value] + list(node.args), st, method)
        raise Unsupported(node, "call")

    def subscript(self, node, st, k):
        sl = node.slice
        if isinstance(sl, ast.Slice):
            if sl.lower is not None or sl.step is not None or \
                    sl.upper is None:
                raise Unsupported(node, "slice other than [:k]")

            def cut(vals):
                if vals[0].typ != T_STR or vals[1].typ != T_INT:
                    raise Unsupported(node, "slice of these types")
                return k(Val("(str_upto %s %s)" % (vals[0].term,
                                                    vals[1].term), T_STR))
            return self.evs([node.value, self.int_node(sl.upper)], st, cut)

        def index(vals):
            if vals[0].typ != T_STR or vals[1].typ != T_INT:
                raise Unsupported(node, "index of these types")
            if st.inline:
                raise Unsupported(node, "may raise in a joined branch")
            var = self.fresh()
            return "(match str_at %s %s with\n | None => %s\n | Some %s => %s\n end)" \
                % (vals[0].term, vals[1].term, self.raised(node), var,
                   k(Val(var, T_STR)))
        return self.evs([node.value, self.int_node(sl)], st, index)

    def raised(self, node):
        if self.spec["result"] != "outcome":
            raise Unsupported(node, "may raise in a function whose model "
                              "has no error outcome")
        return INDEX_ERROR

    @staticmethod
    def int_node(node):
        """-1 is UnaryOp(USub, 1) in the AST"""
        if isinstance(node, ast.UnaryOp) and isinstance(node.op, ast.USub) \
                and isinstance(node.operand, ast.Constant) and \
                isinstance(node.operand.value, int) and \
                not isinstance(node.operand.value, bool):
            return ast.copy_location(ast.Constant(-node.operand.value), node)
        return node

    # ----------------------------------------------------- opaque expressions
    def opaque_ok(self, node, st):
        """built of constants, names and PURE callables only: evaluating it
        has no effect on what is translated"""
        if isinstance(node, ast.Constant):
            return
        if isinstance(node, ast.Name):
            if node.id in st.env or node.id in self.roles:
                return
            if self.qualified(node, st) in PURE_NAMES:
                return
            raise Unsupported(node, "name in an untranslated expression")
        if isinstance(node, ast.Attribute):
            if self.role_chain(node) in PURE_ATTRS:
                return
            raise Unsupported(node, "attribute in an untranslated expression")
        if isinstance(node, ast.BinOp) and \
                isinstance(node.op, (ast.Add, ast.Mod)):
            self.opaque_ok(node.left, st)
            self.opaque_ok(node.right, st)
            return
        if isinstance(node, (ast.Tuple, ast.BoolOp)):
            for sub in (node.elts if isinstance(node, ast.Tuple)
                        else node.values):
                self.opaque_ok(sub, st)
            return
        if isinstance(node, ast.UnaryOp) and isinstance(node.op, ast.Not):
            self.opaque_ok(node.operand, st)
            return
        if isinstance(node, ast.IfExp):
            for sub in (node.test, node.body, node.orelse):
                self.opaque_ok(sub, st)
            return
        if isinstance(node, ast.Compare):
            if not all(isinstance(op, (ast.Eq, ast.NotEq)) for op in node.ops):
                raise Unsupported(node, "comparison in an untranslated "
                                  "expression")
            for sub in [node.left] + node.comparators:
                self.opaque_ok(sub, st)
            return
        if isinstance(node, ast.Call):
            if node.keywords or any(isinstance(a, ast.Starred)
                                    for a in node.args):
                raise Unsupported(node, "keywords / starred arguments")
            qual = self.qualified(node.func, st)
            if qual in PURE:
                pass
            elif qual is None and isinstance(node.func, ast.Attribute) and \
                    node.func.attr in PURE_METHODS:
                self.opaque_ok(node.func.value, st)
                # a str method: not on the (mutable) list
                recv = node.func.value
                if isinstance(recv, ast.Name) and \
                        isinstance(st.env.get(recv.id), Val) and \
                        st.env[recv.id].typ in (T_LIST, T_DICT):
                    raise Unsupported(node, "method of a translated object")
            else:
                raise Unsupported(node, "call of a callable that is not "
                                  "listed as pure")
            for sub in node.args:
                self.opaque_ok(sub, st)
            return
        raise Unsupported(node, "untranslated expression")

    # ------------------------------------------------------------- statements
    def block(self, stmts, st, k):
        """k : State -> code, used when the block falls through"""
        if not stmts:
            return k(st)
        s, rest = stmts[0], stmts[1:]

        def after(st2):
            return self.block(rest, st2, k)
        if isinstance(s, ast.Pass):
            return after(st)
        if isinstance(s, ast.Expr):
            return self.expr_stmt(s, st, after)
        if isinstance(s, ast.Assign):
            return self.assign(s, s.targets, s.value, st, after)
        if isinstance(s, ast.AugAssign):
            return self.augassign(s, st, after)
        if isinstance(s, ast.If):
            return self.if_stmt(s, st, after)
        if isinstance(s, ast.For):
            return self.for_loop(s, st, after)
        if isinstance(s, ast.Continue):
            if st.loop is None or st.inline:
                raise Unsupported(s, "continue here")
            return st.loop(st)
        if isinstance(s, ast.Return):
            return self.ret(s, st)
        if isinstance(s, ast.Raise):
            return self.raise_stmt(s, st)
        raise Unsupported(s, "statement")

    def expr_stmt(self, s, st, after):
        val = s.value
        if isinstance(val, ast.Constant) and isinstance(val.value, str):
            return after(st)                                  # docstring
        if not isinstance(val, ast.Call):
            raise Unsupported(s, "expression statement")
        callee = dotted(val.func) or ""
        head = callee.split(".")[0]
        if head in DROPPED_CALL_HEADS and "." in callee and \
                head not in st.env and head not in self.roles and \
                not self.assigned(head):
            if val.keywords:
                raise Unsupported(s, "keywords")
            for arg in val.args:
                self.opaque_ok(arg, st)
            return after(st)                                  # log.*(...)
        chain = self.role_chain(val.func)
        for name, want in DROPPED_CALLS.get(self.key, []):
            if chain is not None and ".".join(chain) == name:
                got = [self.roles.get(a.id) if isinstance(a, ast.Name)
                       else None for a in val.args]
                if val.keywords or got != want:
                    raise Unsupported(s, "arguments of %s" % name)
                return after(st)                    # the before-hooks call
        # x.append(e), x.sort()
        if isinstance(val.func, ast.Attribute) and \
                isinstance(val.func.value, ast.Name) and \
                val.func.value.id in st.env and not val.keywords:
            name = val.func.value.id
            recv = st.env[name]
            if recv is OPAQUE:
                raise Unsupported(s, "method call on an untranslated value")
            hit = MUTATORS.get((recv.typ, val.func.attr, len(val.args)))
            if hit is None:
                raise Unsupported(s, "method statement")
            want, term = hit
            args = [self.pure(a, st) for a in val.args]
            if [a.typ for a in args] != want:
                raise Unsupported(s, "argument types")
            new = term.format(recv.term, *[a.term for a in args])
            return self.bind(name, Val(new, recv.typ, origin=recv.origin),
                             st, after)
        raise Unsupported(s, "expression statement")

    def bind(self, name, val, st, after):
        """name := val (a let, or a substitution in a joined branch)"""
        if st.loop is not None:
            st.loop_locals.add(name)
        if st.inline or val.term.isidentifier() or val.const is not None:
            st.env[name] = val
            return after(st)
        var = self.fresh()
        st.env[name] = Val(var, val.typ, origin=val.origin)
        return "(let %s := %s in\n %s)" % (var, val.term, after(st))

    def target_names(self, s, targets):
        names = []
        for tgt in targets:
            elts = tgt.elts if isinstance(tgt, ast.Tuple) else [tgt]
            for elt in elts:
                if not isinstance(elt, ast.Name):
                    return None
                names.append(elt.id)
        for name in names:
            if name in self.roles:
                raise Unsupported(s, "assignment to a parameter object")
        return names

    def assign(self, s, targets, value, st, after):
        # req.uri_rule = ..., req.uri_handler = ...
        if len(targets) == 1 and isinstance(targets[0], ast.Attribute):
            chain = self.role_chain(targets[0])
            if chain in DROPPED_ATTR_WRITES.get(self.key, []):
                self.opaque_ok(value, st)
                return after(st)
            raise Unsupported(s, "attribute assignment")
        names = self.target_names(s, targets)
        if names is None:
            raise Unsupported(s, "assignment target")
        if self.page in names:
            if names != [self.page] or self.page in st.env or \
                    st.loop is not None or st.inline:
                raise Unsupported(s, "assignment to the page variable")
            self.opaque_ok(value, st)
            st.env[self.page] = Val("[]", T_PAGE)
            return after(st)
        single = len(targets) == 1 and isinstance(targets[0], ast.Name)

        def usable(val):
            if val.typ not in COQ_TYPE or val.term is None:
                raise Unsupported(s, "value")
            return val
        counter = self.counter
        try:
            if not single:
                raise Unsupported(s, "tuple / chained target")
            # trial only: the continuation is not run under this `try`
            if st.inline:
                self.pure(value, st)
            else:
                self.ev(value, st.copy(), lambda val: usable(val) and OPAQUE)
        except Unsupported as err:
            # not translated: allowed when nothing translated depends on it
            self.counter = counter
            try:
                self.opaque_ok(value, st)
            except Unsupported:
                raise err
            for name in names:
                self.forget(name, st)
            return after(st)
        self.counter = counter
        if st.inline:
            return self.bind(names[0], self.local(usable(
                self.pure(value, st)), st), st, after)
        return self.ev(value, st, lambda val: self.bind(
            names[0], self.local(usable(val), st), st, after))

    @staticmethod
    def forget(name, st):
        st.env[name] = OPAQUE
        if st.loop is not None:
            st.loop_locals.add(name)

    @staticmethod
    def local(val, st):
        origin = "local" if st.loop is not None else val.origin
        return Val(val.term, val.typ, val.const, origin)

    def augassign(self, s, st, after):
        if not isinstance(s.target, ast.Name) or \
                not isinstance(s.op, ast.Add):
            raise Unsupported(s, "augmented assignment")
        name = s.target.id
        cur = st.env.get(name)
        if cur is None:
            raise Unsupported(s, "augmented assignment to an unbound name")
        if name == self.page:
            if st.loop is None:
                self.opaque_ok(s.value, st)     # header / footer text
                return after(st)
            if st.inline:
                raise Unsupported(s, "page changed under a condition")
            if not st.loop_top:
                raise Unsupported(s, "row added under a condition")
            row = self.row(s, st)
            return self.bind(name, Val("(list_append %s %s)" % (
                cur.term, row.term), T_PAGE), st, after)
        if cur is OPAQUE:
            self.opaque_ok(s.value, st)
            return after(st)
        raise Unsupported(s, "augmented assignment to a translated value")

    def row(self, s, st):
        """page += FMT % (...): the row's name"""
        val = s.value
        if not (isinstance(val, ast.BinOp) and isinstance(val.op, ast.Mod)
                and isinstance(val.left, ast.Constant)
                and isinstance(val.left.value, str)
                and isinstance(val.right, ast.Tuple)):
            raise Unsupported(s, "row is not FMT % (...)")
        found = []
        for elt in val.right.elts:
            hit = st.env.get(elt.id) if isinstance(elt, ast.Name) else None
            if isinstance(hit, Val) and hit.typ == T_STR and \
                    hit.origin == "local" and elt.id in st.loop_locals:
                if all(hit.term != f.term for f in found):
                    found.append(hit)
            else:
                self.opaque_ok(elt, st)
        if len(found) != 1:
            raise Unsupported(s, "the row does not show exactly one "
                              "translated name")
        return found[0]

    def if_stmt(self, s, st, after):
        if has_control(s.body) or has_control(s.orelse):
            if st.inline:
                raise Unsupported(s, "control flow in a joined branch")
            top = st.loop_top

            def out(st2):               # falling out of the `if` statement
                st2.loop_top = top
                return after(st2)
            # narrowing `if var:` for var a str or None
            if isinstance(s.test, ast.Name) and \
                    isinstance(st.env.get(s.test.id), Val) and \
                    st.env[s.test.id].typ == T_OPTSTR:
                cur = st.env[s.test.id]
                var = self.fresh()
                yes, no = self.nested(st), self.nested(st)
                yes.env[s.test.id] = Val(var, T_STR, origin=cur.origin)
                return ("(match %s with\n | Some ((_ :: _) as %s) => %s\n"
                        " | _ => %s\n end)") % (
                    cur.term, var, self.block(s.body, yes, out),
                    self.block(s.orelse, no, out))
            return self.test(s.test, st, lambda cond: (
                "(if %s\n then %s\n else %s)" % (
                    cond, self.block(s.body, self.nested(st), out),
                    self.block(s.orelse, self.nested(st), out))))
        # no control flow inside: join the two branches
        yes, no = st.copy(), st.copy()
        yes.inline = no.inline = True
        yes.loop_top = no.loop_top = False
        end = lambda st2: OPAQUE                              # noqa: E731
        if self.block(s.body, yes, end) is not OPAQUE or \
                self.block(s.orelse, no, end) is not OPAQUE:
            raise Unsupported(s, "branch does not fall through")
        changed = [n for n in list(yes.env) + list(no.env)
                   if yes.env.get(n) is not st.env.get(n)
                   or no.env.get(n) is not st.env.get(n)]
        changed = sorted(set(changed), key=changed.index)
        joined = {}
        for name in changed:
            a, b = yes.env.get(name), no.env.get(name)
            if isinstance(a, Val) and isinstance(b, Val) and \
                    a.typ == b.typ and a.typ in COQ_TYPE and \
                    a.typ != T_PAGE and a.term is not None:
                joined[name] = (a, b)
            elif name == self.page or T_PAGE in (
                    getattr(a, "typ", None), getattr(b, "typ", None)):
                raise Unsupported(s, "page changed under a condition")
        if not joined:
            # nothing translated depends on the test
            counter = self.counter
            try:
                if self.test(s.test, st.copy(), lambda cond: OPAQUE) \
                        is not OPAQUE:
                    raise Unsupported(s.test, "dropped test may raise")
            except Unsupported:
                self.opaque_ok(s.test, st)
            self.counter = counter
            for name in changed:
                self.forget(name, st)
            return after(st)

        def join(cond):
            for name in changed:
                if name not in joined:
                    self.forget(name, st)

            def go(names, st2):
                if not names:
                    return after(st2)
                a, b = joined[names[0]]
                origin = "local" if "local" in (a.origin, b.origin) \
                    else a.origin
                return self.bind(names[0], Val(
                    "(if %s then %s else %s)" % (cond, a.term, b.term),
                    a.typ, origin=origin), st2, lambda st3: go(names[1:], st3))
            return go([n for n in changed if n in joined], st)
        return self.test(s.test, st, join)

    @staticmethod
    def nested(st):
        new = st.copy()
        new.loop_top = False
        return new

    def for_loop(self, s, st, after):
        if s.orelse or not isinstance(s.target, ast.Name) or st.inline or \
                st.loop is not None or s.target.id in self.roles:
            raise Unsupported(s, "for-else / target / nested loop")
        for node in ast.walk(s):
            if isinstance(node, (ast.Break, ast.Return)):
                raise Unsupported(node, "break / return in the loop")
        box = self.pure(s.iter, st)
        if box.typ != T_LIST:
            raise Unsupported(s.iter, "iteration over this object")
        self.nloops += 1
        lname = "%s_loop_%d" % (self.spec["gen"], self.nloops)
        # translated locals bound before the loop that the loop or the code
        # after it mentions: parameters of the loop function
        inside_iter = {id(n) for n in ast.walk(s.iter)}
        later = {n.id for n in ast.walk(self.fundef)
                 if isinstance(n, ast.Name) and id(n) not in inside_iter
                 and (n.lineno, n.col_offset) >= (s.lineno, s.col_offset)}
        carried = [n for n, v in st.env.items()
                   if isinstance(v, Val) and v.origin != "param"
                   and n in later]
        inner = st.copy()
        params = []
        for name in carried:
            var = self.fresh()
            cur = st.env[name]
            inner.env[name] = Val(var, cur.typ, origin=cur.origin)
            params.append((var, COQ_TYPE[cur.typ]))
        item = self.fresh()
        fixed = " ".join(b[0] for b in self.spec["binders"])

        def again(st2):
            args = []
            for name in carried:
                cur = st2.env.get(name)
                if not isinstance(cur, Val) or \
                        cur.typ != st.env[name].typ:
                    raise Unsupported(s, "a value carried round the loop "
                                      "is not translated")
                args.append(cur.term)
            return "(%s)" % " ".join([lname, fixed] + args + ["rest"])
        body_st = inner.copy()
        body_st.loop, body_st.loop_top = again, True
        body_st.loop_locals = set()
        body_st.env[s.target.id] = Val(item, T_STR, origin="local")
        body_st.loop_locals.add(s.target.id)
        body = self.block(s.body, body_st, again)
        # after the loop the locals of its body are not visible
        done_st = inner.copy()
        done = after(done_st)
        binders = " ".join("(%s : %s)" % b for b in
                           self.spec["binders"] + params)
        self.loops.append(
            "Fixpoint %s %s (items : list (list Z)) {struct items} : %s :=\n"
            " match items with\n | [] => %s\n | %s :: rest => %s\n end." % (
                lname, binders, COQ_TYPE[self.spec["result"]], done, item,
                body))
        return "(%s)" % " ".join(
            [lname, fixed] + [st.env[n].term for n in carried] + [box.term])

    # ----------------------------------------------------------------- leaves
    def leaf_args(self, node, args, want, st):
        if len(args) != len(want):
            return None
        terms = []
        for arg, shape in zip(args, want):
            if isinstance(arg, ast.Name) and arg.id in self.roles:
                if self.roles[arg.id] != shape:
                    return None
                terms.append(None)
                continue
            if shape not in COQ_TYPE:
                return None
            val = self.pure(arg, st)
            if val.typ != shape:
                return None
            terms.append(val.term)
        return terms

    def ret(self, s, st):
        if st.inline or st.loop is not None:
            raise Unsupported(s, "return here")
        if self.spec["result"] != "outcome":
            if s.value is None:
                raise Unsupported(s, "return without a value")
            val = self.pure(s.value, st)
            if val.typ != self.spec["result"] or val.term is None:
                raise Unsupported(s, "type of the returned value")
            return val.term
        call = s.value
        for kind, callee, want, out in LEAVES[self.key]:
            if kind == "page":
                if isinstance(call, ast.Tuple) and len(call.elts) == want \
                        and isinstance(call.elts[0], ast.Name) and \
                        call.elts[0].id == self.page:
                    cur = st.env.get(self.page)
                    if not isinstance(cur, Val) or cur.typ != T_PAGE:
                        raise Unsupported(s, "page variable not bound")
                    for elt in call.elts[1:]:
                        self.opaque_ok(elt, st)
                    return out.format(cur.term)
                continue
            if kind != "return" or not isinstance(call, ast.Call) or \
                    call.keywords:
                continue
            chain = self.role_chain(call.func)
            name = ".".join(chain) if chain is not None \
                else self.qualified(call.func, st)
            if name != callee:
                continue
            terms = self.leaf_args(s, call.args, want, st)
            if terms is None:
                raise Unsupported(s, "arguments of %s" % callee)
            return out.format(*terms)
        raise Unsupported(s, "no outcome for this return")

    def raise_stmt(self, s, st):
        if st.inline or self.spec["result"] != "outcome":
            raise Unsupported(s, "raise here")
        exc = s.exc
        if s.cause is not None or not isinstance(exc, ast.Call) or \
                exc.keywords or len(exc.args) != 1:
            raise Unsupported(s, "raise shape")
        name = self.qualified(exc.func, st)
        code = self.pure(exc.args[0], st)
        if code.typ != T_INT or code.const is None:
            raise Unsupported(s, "status is not a constant")
        for kind, callee, want, out in LEAVES[self.key]:
            if kind == "raise" and callee == name and want == code.const:
                return out
        raise Unsupported(s, "no outcome for this raise")

    # --------------------------------------------------------------- function
    def body(self):
        """the translated statements of the function"""
        stmts = list(self.fundef.body)
        heads = list(SKIPPED_HEADS.get(self.key, []))
        if stmts and isinstance(stmts[0], ast.Expr) and \
                isinstance(stmts[0].value, ast.Constant) and \
                isinstance(stmts[0].value.value, str):
            stmts = stmts[1:]                                 # docstring
        for kind, text in heads:
            want = ast.dump(ast.parse(text, mode="eval").body)
            if not stmts:
                break
            s = stmts[0]
            if kind == "If" and isinstance(s, ast.If) and not s.orelse and \
                    ast.dump(s.test) == want:
                stmts = stmts[1:]
            elif kind == "For" and isinstance(s, ast.For) and \
                    not s.orelse and ast.dump(s.iter) == want:
                stmts = stmts[1:]
        return stmts

    def find_page(self, stmts):
        """the page variable: first element of the returned tuple"""
        if not any(leaf[0] == "page" for leaf in LEAVES.get(self.key, [])):
            return None
        last = stmts[-1] if stmts else None
        if isinstance(last, ast.Return) and \
                isinstance(last.value, ast.Tuple) and last.value.elts and \
                isinstance(last.value.elts[0], ast.Name):
            return last.value.elts[0].id
        raise Unsupported(self.fundef, "does not end with return (page, ...)")

    def run(self):
        stmts = self.body()
        self.check_scopes(stmts)
        self.page = self.find_page(stmts)

        def end(_st):
            raise Unsupported(self.fundef, "falls off the end (returns None)")
        code = self.block(stmts, self.init.copy(), end)
        defs = list(self.loops)
        defs.append(self.definition(self.spec["gen"], self.spec["binders"],
                                    COQ_TYPE[self.spec["result"]], code))
        return defs

    @staticmethod
    def definition(name, binders, typ, code):
        return "Definition %s %s : %s :=\n %s." % (
            name, " ".join("(%s : %s)" % b for b in binders), typ, code)

    def parts(self):
        """gate and file name of `serve`, alone: the test of the first
        translated statement and the first assignment under it"""
        stmts = self.body()
        self.check_scopes(stmts)
        gate = stmts[0] if stmts else None
        if not isinstance(gate, ast.If) or not gate.body or \
                not isinstance(gate.body[0], ast.Assign) or \
                len(gate.body[0].targets) != 1 or \
                not isinstance(gate.body[0].targets[0], ast.Name):
            raise Unsupported(self.fundef, "no `if gate: rfile = ...`")
        st = self.init.copy()
        box = []
        if self.test(gate.test, st, lambda t: box.append(t) or OPAQUE) \
                is not OPAQUE:
            raise Unsupported(gate.test, "gate may raise")
        name = self.pure(gate.body[0].value, st)
        if name.typ != T_STR:
            raise Unsupported(gate.body[0], "file name is not a str")
        return [self.definition(GATE["gen"], GATE["binders"], "bool", box[0]),
                self.definition(RFILE["gen"], RFILE["binders"], "list Z",
                                name.term)]


def indent(text):
    """layout only: indent every line by its parenthesis depth"""
    out, depth = [], 0
    for line in text.split("\n"):
        line = line.strip()
        out.append("  " * (depth + (0 if not out else 1)) + line)
        depth += line.count("(") - line.count(")")
    return "\n".join(out)


class Translation:
    def __init__(self):
        self.consts = py2v.state_consts()
        self.modules = {}
        self.defs = []
        # directory_index first: `serve` calls it
        self.defs.append("(* poorwsgi/wsgi.py handler_from_table: the gate "
                         "and the file name *)")
        self.defs += Fn(self, "serve").parts()
        self.defs.append("(* poorwsgi/request.py SimpleRequest *)")
        for key in ("document_root", "document_index"):
            self.defs += Fn(self, key).run()
        self.defs.append("(* poorwsgi/results.py directory_index *)")
        self.defs += Fn(self, "directory_index").run()
        self.defs.append("(* poorwsgi/wsgi.py handler_from_table from "
                         "\"try file or index\" on *)")
        self.defs += Fn(self, "serve").run()

    def module(self, rel):
        if rel not in self.modules:
            self.modules[rel] = Module(rel)
        return self.modules[rel]

    def text(self):
        out = ["(* GENERATED by harness/py2v_static.py from poorwsgi/wsgi.py "
               "Application.handler_from_table, poorwsgi/request.py "
               "SimpleRequest.document_root / document_index, "
               "poorwsgi/results.py directory_index -- do not edit *)",
               "From Coq Require Import ZArith List Bool String.",
               "Require Import PW.lib.Val PW.lib.PyStatic "
               "PW.model.StaticPath.",
               "Import ListNotations.", "Open Scope string_scope.",
               "Open Scope list_scope.", "Open Scope Z_scope.", ""]
        return "\n".join(out) + "\n" + "\n\n".join(
            d if d.startswith("(*") else indent(d) for d in self.defs) + "\n"


def gen_static():
    text = Translation().text()
    os.makedirs(py2v.GEN, exist_ok=True)
    path = os.path.join(py2v.GEN, "StaticGen.v")
    old = open(path).read() if os.path.exists(path) else None
    if old != text:
        with open(path, "w") as f:
            f.write(text)
    return path


def register(TARGETS, OUTPUT):
    TARGETS["static"] = gen_static
    OUTPUT["static"] = "StaticGen.v"
