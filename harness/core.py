"""Common machinery of every check: Coq build, proof obligations,
model evaluation (vm_compute), known findings, verdict, evidence."""
import fcntl
import hashlib
import json
import os
import random
import re
import subprocess
import sys
import time

VERIF = os.path.dirname(os.path.dirname(os.path.abspath(__file__)))
COQ = os.path.join(VERIF, "coq")
BUILD = os.path.join(VERIF, "build")
REPO = os.environ.get("VERIF_REPO", "/repo")
COQ_SUBDIRS = ("lib", "gen", "model", "proofs", "props")
FORBIDDEN = re.compile(
    r"\b(Admitted|admit|Axiom|Axioms|Parameter|Parameters|Conjecture|"
    r"Admit Obligations|bypass_check)\b|Unset Guard|type-in-type|"
    r"impredicative-set|Unset Universe Checking|Unset Positivity")

TRUSTED_BASE = [
    "Coq 8.16.1 kernel and its VM (vm_compute); no native_compute; no "
    "guard/positivity/universe check disabled",
    "axioms: none (every property theorem must print 'Closed under the "
    "global context')",
    "hand-written Gallina model of the named Python functions (modelled, not "
    "verified); tied to /repo by the differential correspondence run of this "
    "check",
    "harness: generators, Python->Coq term printer, canonicalisers, "
    "independent oracles; CPython 3.12",
]


_T = "translator tie (regenerated from /repo on every run, trusted): "
TRANSLATORS = {
    "C01": _T + "harness/py2v_dispatch.py + coq/lib/PyDispatch.v "
           "(Application.__request__, state_from_table, error_from_table, "
           "handler_from_before -> gen/DispatchGen.v)",
    "C02": _T + "harness/py2v_select.py (handler_from_table, "
           "handler_from_default -> gen/SelectGen.v); harness/py2v_route.py "
           "+ coq/lib/PyRoute.v (re_filter, built-in filters, __regex, "
           "__converter, set_filter, compile step of set_route/pop_route/"
           "is_route -> gen/RouteGen.v)",
    "C05": _T + "harness/py2v_shapes.py + coq/lib/PyShapes.v (make_response, "
           "to_response, __start_response__ -> gen/ShapesGen.v)",
    "C07": _T + "harness/py2v.py + coq/lib/Py.v (make_partial, range block, "
           "__range_generator__ -> gen/RangeGen.v); harness/py2v_clen.py + "
           "coq/lib/PyClen.v (__end_of_response__ of the three classes -> "
           "gen/ClenGen.v)",
    "C09": _T + "harness/py2v.py + coq/lib/Py.v (CachedInput.read/readline "
           "-> gen/CachedGen.v); harness/py2v_reqinput.py + "
           "coq/lib/PyReqInput.v (CachedInput.__init__, Request.input / read "
           "/ data / read_chunk -> gen/ReqInputGen.v)",
    "C11": _T + "harness/py2v_digest.py + coq/lib/PyDigest.v (check_response,"
           " check_credentials, check_digest handler -> gen/DigestGen.v); "
           "harness/py2v_challenge.py + coq/lib/PyChallenge.v "
           "(results.unauthorized -> gen/ChallengeGen.v)",
    "C13": _T + "harness/py2v_hidden.py + coq/lib/PyBytes.v (session.hidden "
           "-> gen/HiddenGen.v); harness/py2v_session.py + "
           "coq/lib/PySession.v (PoorSession.write/destroy/load/header -> "
           "gen/SessionGen.v)",
    "C15": _T + "harness/py2pages.py (nine page functions of results.py -> "
           "gen/PagesGen.v); harness/py2v_escape.py + coq/lib/PyEscape.v "
           "(HTML_ESCAPE_TABLE, html_escape -> gen/EscapeGen.v)",
    "C16": _T + "harness/py2v.py + coq/lib/Py.v (get_token, check_token -> "
           "gen/TokenGen.v)",
}
TRANSLATORS.update({
    "C06": _T + "harness/py2v_clen.py + coq/lib/PyClen.v (Response / "
           "FileObjResponse / GeneratorResponse length bookkeeping and "
           "__end_of_response__, IBytesIO iteration -> gen/ClenGen.v); "
           "harness/py2v_call.py + coq/lib/PyCall.v (BaseResponse.__call__, "
           "Declined.__call__, BaseResponse.__end_of_response__ -> "
           "gen/CallGen.v)",
    "C10": _T + "harness/py2v_form.py + coq/lib/PyForm.v (Args, "
           "FieldStorage / EmptyForm / JsonDict / JsonList accessors, "
           "parse_json_request, decision skeleton of Request.__init__ -> "
           "gen/FormGen.v); harness/py2v_envhdr.py + coq/lib/PyEnvHdr.v "
           "(head of Request.__init__: headers from the CGI variables, "
           "media type, charset, content length -> gen/EnvHdrGen.v)",
    "C12": _T + "harness/py2v_static.py + coq/lib/PyStatic.v (static part "
           "of handler_from_table, document_root/document_index properties, "
           "directory_index filter loop -> gen/StaticGen.v)",
    "C08": _T + "harness/py2v_multipart.py + coq/lib/PyMultipart.v "
           "(read_lines_to_outerboundary, _write, make_file, valid_boundary "
           "-> gen/MultipartGen.v); harness/py2v_multi.py + "
           "coq/lib/PyMulti.v (_skip_to_boundary, skip_lines, read_multi -> "
           "gen/MultiGen.v); harness/py2v_fsparse.py + coq/lib/PyFsParse.v "
           "(FieldStorageParser.__init__, _parse_content_type, parse, "
           "read_single, read_lines -> gen/FsParseGen.v)",
    "C14": _T + "harness/py2v_headers.py + coq/lib/PyHeaders.v (class "
           "Headers -> gen/HeadersGen.v); harness/py2v_latin.py + "
           "coq/lib/PyLatin.v (Headers.iso88591, utf8, __iter__ -> "
           "gen/LatinGen.v)",
    "C17": _T + "harness/py2v_shared.py (syntactic census of process-wide "
           "mutable objects, their writers and escapes -> gen/SharedGen.v; "
           "an under-approximation, judged by model/SharedState.v)",
    "C18": _T + "harness/py2v_param.py + coq/lib/PyParam.v (_parseparam, "
           "parse_header -> gen/ParamGen.v); harness/py2v_codec.py + "
           "coq/lib/PyCodec.v (parse_range, ContentRange, parse_/"
           "render_negotiation, the four date functions -> gen/CodecGen.v)",
    "C19": _T + "harness/py2v_registry.py + coq/lib/PyRegistry.v (the "
           "registration methods of Application -> gen/RegistryGen.v); "
           "harness/py2v_views.py (views and decorator forms -> "
           "gen/ViewsGen.v)",
})
TRANSLATORS["C03"] = TRANSLATORS["C01"] + (
    "; harness/py2v_slots.py + coq/lib/PySlots.v (write-once slots of "
    "SimpleRequest and the census of their writers -> gen/SlotsGen.v)")
TRANSLATORS["C04"] = TRANSLATORS["C01"] + (
    "; harness/py2v_abort.py + coq/lib/PyAbort.v (HTTPException, abort, "
    "redirect, RedirectResponse.__init__ -> gen/AbortGen.v)")
TRANSLATORS["C20"] = _T + ("harness/py2v_select.py (handler_from_table, "
                            "handler_from_default -> gen/SelectGen.v)")
_INPUTS = ("; harness/py2v_inputs.py (census of string-keyed lookups and the "
           "dispatch footprint in wsgi.py / request.py -> gen/InputsGen.v, "
           "judged by model/Inputs.v)")
for _id in ("C02", "C12", "C20"):
    TRANSLATORS[_id] = TRANSLATORS[_id] + _INPUTS
for _id in ("C02", "C11", "C20"):
    TRANSLATORS[_id] = TRANSLATORS[_id] + '; harness/py2v_reqfacts.py + coq/lib/PyReqFacts.v (Request.authorization, SimpleRequest.__init__ debug flag, method, method_number, path -> gen/ReqFactsGen.v)'
TRANSLATORS["C05"] += ("; harness/py2v_classes.py + coq/lib/PyClasses.v "
                       "(constructors of the response classes -> "
                       "gen/ClassesGen.v)")
TRANSLATORS["C05"] += ("; harness/py2v_hdrwrites.py (census of the places "
                       "that name a response header -> "
                       "gen/HeaderWritesGen.v, judged by "
                       "model/HeaderWrites.v)")
TRANSLATORS["C10"] += ("; harness/py2v_reads.py (census of the places that "
                       "consume an input stream -> gen/ReadSitesGen.v, "
                       "judged by model/ReadSites.v)")
TRANSLATORS["C17"] += ("; harness/py2v_config.py + coq/lib/PyConfig.v (the "
                       "configuration literal, getters and setters of "
                       "Application and the census of configuration writers "
                       "-> gen/ConfigGen.v)")
TRANSLATORS["C17"] += ("; the same plugin lists the request-time methods of "
                       "Application and their writes through self")


def sh(cmd, timeout, cwd=None, env=None):
    try:
        proc = subprocess.run(cmd, cwd=cwd, env=env, timeout=timeout,
                              stdout=subprocess.PIPE,
                              stderr=subprocess.STDOUT, text=True)
        return proc.returncode, proc.stdout
    except subprocess.TimeoutExpired as err:
        out = err.stdout or ""
        if isinstance(out, bytes):
            out = out.decode("utf-8", "replace")
        return 124, out + "\nTIMEOUT after %ss" % timeout


class Lock:
    def __enter__(self):
        os.makedirs(BUILD, exist_ok=True)
        self.f = open(os.path.join(BUILD, ".lock"), "w")
        fcntl.flock(self.f, fcntl.LOCK_EX)
        return self

    def __exit__(self, *a):
        fcntl.flock(self.f, fcntl.LOCK_UN)
        self.f.close()


GEN_ERRORS = {}


def coq_sources():
    out = []
    for sub in COQ_SUBDIRS:
        d = os.path.join(COQ, sub)
        if os.path.isdir(d):
            for name in sorted(os.listdir(d)):
                if name.endswith(".v"):
                    out.append("%s/%s" % (sub, name))
    return out


def grep_gate():
    """No Admitted/Axiom/... anywhere in the development."""
    hits = []
    for rel in coq_sources():
        text = open(os.path.join(COQ, rel), encoding="utf-8").read()
        text = re.sub(r"\(\*.*?\*\)", "", text, flags=re.S)
        for m in FORBIDDEN.finditer(text):
            hits.append("%s: %s" % (rel, m.group(0)))
    return hits


class _NoLock:
    def __enter__(self):
        return self

    def __exit__(self, *a):
        return False


def build(full=False, timeout=1500, locked=False):
    """(Re)build all .vo files. Returns (ok, log)."""
    with (_NoLock() if locked else Lock()):
        global GEN_ERRORS
        import py2v
        GEN_ERRORS = {k: v for k, v in py2v.regenerate().items() if v}
        srcs = coq_sources()
        proj = "-Q . PW\n" + "\n".join(srcs) + "\n"
        pfile = os.path.join(COQ, "_CoqProject")
        old = open(pfile).read() if os.path.exists(pfile) else None
        if old != proj or not os.path.exists(os.path.join(COQ, "Makefile")):
            with open(pfile, "w") as f:
                f.write(proj)
            rc, out = sh(["coq_makefile", "-f", "_CoqProject", "-o",
                          "Makefile"], 60, cwd=COQ)
            if rc:
                return False, out
        if full:
            sh(["make", "clean"], 120, cwd=COQ)
        rc, out = sh(["make", "-j16", "-k"], timeout, cwd=COQ)
        return rc == 0, out


def compile_props(prop, locked=False):
    """Compile props/<prop>.v afresh; returns dict with theorem names,
    assumptions report and success flag."""
    src = os.path.join(COQ, "props", prop + ".v")
    res = {"file": "coq/props/%s.v" % prop, "theorems": [], "closed": 0,
           "axioms": [], "ok": False, "log": ""}
    if not os.path.exists(src):
        res["log"] = "missing " + src
        return res
    text = open(src, encoding="utf-8").read()
    text_nc = re.sub(r"\(\*.*?\*\)", "", text, flags=re.S)
    res["theorems"] = re.findall(r"^\s*(?:Theorem|Corollary)\s+(\w+)",
                                 text_nc, flags=re.M)
    printed = re.findall(r"Print Assumptions\s+(\w+)", text_nc)
    missing = [t for t in res["theorems"] if t not in printed]
    with (_NoLock() if locked else Lock()):
        rc, out = sh(["coqc", "-Q", ".", "PW", "props/%s.v" % prop], 600,
                     cwd=COQ)
    res["log"] = out[-4000:]
    res["closed"] = out.count("Closed under the global context")
    if "Axioms:" in out:
        res["axioms"] = re.findall(r"^(\S+)\s*:", out.split("Axioms:", 1)[1],
                                   flags=re.M)
    res["ok"] = (rc == 0 and not missing and not res["axioms"]
                 and res["closed"] == len(res["theorems"]) > 0)
    if missing:
        res["log"] += "\nno Print Assumptions for: %s" % missing
    return res


# ---------------------------------------------------------------- Coq terms
def zlit(n):
    return "(%d)" % n if n < 0 else "%d" % n


def zlist(seq):
    return "[" + ";".join(zlit(int(x)) for x in seq) + "]"


def cps(s):
    """code points of a str / byte values of bytes"""
    if isinstance(s, (bytes, bytearray)):
        return list(s)
    return [ord(c) for c in s]


def slit(s):
    """list Z literal for str/bytes"""
    return zlist(cps(s))


def optz(x):
    return "None" if x is None else "(Some %s)" % zlit(x)


def blit(b):
    return "true" if b else "false"


def clist(items):
    return "[" + ";".join(items) + "]"


class Exn:
    """marker for an exception outcome in expected values"""
    def __init__(self, name):
        self.name = name

    def __repr__(self):
        return "Exn(%s)" % self.name


def to_v(obj):
    if isinstance(obj, Exn):
        return '(VX "%s")' % obj.name
    if obj is None:
        return "VN"
    if isinstance(obj, bool):
        return "(VB %s)" % blit(obj)
    if isinstance(obj, int):
        return "(VZ %s)" % zlit(obj)
    if isinstance(obj, str):
        return "(VS %s)" % slit(obj)
    if isinstance(obj, (bytes, bytearray)):
        return "(VY %s)" % slit(obj)
    if isinstance(obj, (list, tuple)):
        return "(VL %s)" % clist(to_v(x) for x in obj)
    if isinstance(obj, dict):
        return "(VL %s)" % clist(to_v((k, v)) for k, v in obj.items())
    raise TypeError("cannot render %r" % (obj,))


def _big_stack():
    import resource
    try:
        resource.setrlimit(resource.RLIMIT_STACK,
                           (resource.RLIM_INFINITY, resource.RLIM_INFINITY))
    except (ValueError, OSError):
        pass


_RE_FAIL = re.compile(r"=\s*\[(.*?)\]\s*:\s*list nat", re.S)


_EVAL_COUNTER = __import__("itertools").count()


def coq_eval(tag, imports, cases, shard=400, timeout=900):
    """cases: list of (model_term, expected_python_value_or_V_text).
    Evaluates [V_eqb model_term expected] for every case with vm_compute in
    parallel shards.  Returns (failing_indices, log).  The shard files live
    in a directory of this process (concurrent runs do not disturb each
    other) and are removed afterwards; a shard that does not compile is
    tried once more after a rebuild (a concurrent build may have replaced a
    .vo under it) before it counts."""
    import shutil
    # one directory per call: checks may run several evaluations side by
    # side in threads
    cdir = os.path.join(BUILD, "cases", "p%d_%d" % (os.getpid(),
                                                    next(_EVAL_COUNTER)))
    shutil.rmtree(cdir, ignore_errors=True)
    os.makedirs(cdir, exist_ok=True)
    files = []
    for k in range(0, len(cases), shard):
        name = "%s_%d" % (tag, k // shard)
        path = os.path.join(cdir, name + ".v")
        with open(path, "w") as f:
            f.write("From Coq Require Import ZArith List String.\n"
                    "Require Import PW.lib.Val.\n%s\n"
                    "Import ListNotations.\nOpen Scope string_scope.\n"
                    "Open Scope Z_scope.\n"
                    "Definition cases : list (V * V) := [\n" % imports)
            body = []
            for term, exp in cases[k:k + shard]:
                etxt = exp if isinstance(exp, str) and exp.startswith("(V") \
                    or exp == "VN" else to_v(exp)
                body.append("(%s, %s)" % (term, etxt))
            f.write(";\n".join(body))
            f.write("].\nEval vm_compute in (failures cases).\n")
        files.append((k, name))
    maxpar = 16

    def run(todo):
        procs, fails, log, broken = [], [], [], []

        def reap(entry):
            k, name, proc = entry
            try:
                out, _ = proc.communicate(timeout=timeout)
            except subprocess.TimeoutExpired:
                proc.kill()
                out, _ = proc.communicate()
                out = (out or "") + "\nTIMEOUT"
            m = _RE_FAIL.search(out or "")
            if proc.returncode != 0 or not m:
                log.append("%s: coqc failed:\n%s" % (name,
                                                    (out or "")[-3000:]))
                broken.append((k, name))
            else:
                for tok in re.findall(r"\d+", m.group(1)):
                    fails.append(k + int(tok))
        for k, name in todo:
            while len(procs) >= maxpar:
                reap(procs.pop(0))
            proc = subprocess.Popen(
                ["coqc", "-Q", COQ, "PW", "-Q", cdir, "Cases",
                 os.path.join(cdir, name + ".v")],
                stdout=subprocess.PIPE, stderr=subprocess.STDOUT, text=True,
                cwd=cdir, preexec_fn=_big_stack)
            procs.append((k, name, proc))
        for entry in procs:
            reap(entry)
        return fails, log, broken
    try:
        fails, log, broken = run(files)
        if broken:
            build()
            fails2, log, broken = run(broken)
            fails += fails2
        fails += [-(k + 1) for k, _ in broken]
    finally:
        shutil.rmtree(cdir, ignore_errors=True)
    return sorted(fails), "\n".join(log)


def coq_show(imports, term, timeout=120):
    """Evaluate one term and return Coq's printed value (diagnostics)."""
    cdir = os.path.join(BUILD, "cases")
    os.makedirs(cdir, exist_ok=True)
    path = os.path.join(cdir, "show_%d.v" % os.getpid())
    with open(path, "w") as f:
        f.write("From Coq Require Import ZArith List String.\n"
                "Require Import PW.lib.Val.\n%s\nImport ListNotations.\n"
                "Open Scope string_scope.\nOpen Scope Z_scope.\n"
                "Eval vm_compute in (%s).\n" % (imports, term))
    rc, out = sh(["coqc", "-Q", COQ, "PW", path], timeout, cwd=cdir)
    return out.strip()[-2000:]


# ---------------------------------------------------------------- findings
def load_findings(prop):
    data = json.load(open(os.path.join(VERIF, "known_findings.json")))
    return [e for e in data["entries"] if e["property"] == prop]


# ---------------------------------------------------------------- context
class Ctx:
    def __init__(self, prop, tier, seed):
        self.prop, self.tier, self.seed = prop, tier, seed
        self.rng = random.Random(seed)
        self.t0 = time.time()
        self.findings = load_findings(prop)
        self.known = {e["key"]: e for e in self.findings
                      if e["status"] == "finding"}
        self.known_hit = {}
        self.violations = []        # (kind, key, detail-dict)
        self.evaluations = 0
        self.nontrivial = set()
        self.samples = []
        self.dist = {}
        self.obl = None
        self.notes = []
        self.corr_cases = 0
        self.corr_disagree = 0
        self.extra = {}
        self.broken = []            # names of theorems/correspondences broken

    quick = property(lambda self: self.tier == "quick")

    def count(self, bucket, n=1):
        self.dist[bucket] = self.dist.get(bucket, 0) + n

    def case(self, sig, nontrivial=True, sample=None):
        """register one explored case; sig must be hashable/short"""
        self.evaluations += 1
        if nontrivial:
            self.nontrivial.add(hashlib.blake2b(
                repr(sig).encode("utf-8", "replace"),
                digest_size=8).digest())
        if sample is not None and len(self.samples) < 6:
            self.samples.append(sample)

    def violation(self, key, detail):
        """a confirmed failing input on the implementation.
        key names the case class; known findings are matched by key."""
        if key in self.known:
            self.known_hit.setdefault(key, detail)
            return
        self.violations.append(("input", key, detail))

    def unproved(self, name, detail):
        """a theorem or a correspondence no longer checks"""
        self.broken.append(name)
        self.violations.append(("unproved", name, detail))

    # -- obligations
    def check_obligations(self):
        gate = grep_gate()
        with Lock():    # generated files, .vo and the props file as one unit
            ok, log = build(locked=True)
            obl = compile_props(self.prop, locked=True)
            if not obl["ok"]:
                # a failure must be reproducible: build and compile once
                # more (stale files left by an interrupted or concurrent
                # run must not turn into an alarm)
                ok, log = build(locked=True)
                obl = compile_props(self.prop, locked=True)
        self.obl = obl
        if gate:
            obl["ok"] = False
            obl["log"] += "\nforbidden: %s" % gate
        if not ok:
            # a failing file of another property must not block this one,
            # unless the props file itself failed (compile_props tells)
            self.notes.append("make reported errors: %s" % log[-1500:])
        if not obl["ok"]:
            self.unproved("theorems of coq/props/%s.v" % self.prop,
                          {"translator": GEN_ERRORS,
                           "log": obl["log"][-3000:],
                           "theorems": obl["theorems"],
                           "closed": obl["closed"], "axioms": obl["axioms"]})
        return obl["ok"]

    # -- correspondence
    def correspondence(self, name, imports, cases, describe):
        """cases: list of (term, expected, payload). describe(payload) ->
        json-able description used in replay files."""
        self.corr_cases += len(cases)
        fails, log = coq_eval("%s_%s" % (self.prop, name), imports,
                              [(t, e) for t, e, _ in cases])
        bad = []
        for idx in fails:
            if idx < 0:
                self.unproved("correspondence %s (coqc failed)" % name,
                              {"log": log[-3000:]})
                return fails
            term, exp, payload = cases[idx]
            bad.append({"case": describe(payload), "model_term": term,
                        "implementation": repr(exp)[:500]})
        self.corr_disagree += len(bad)
        if bad:
            got = coq_show(imports, cases[fails[0]][0])
            bad[0]["model_value"] = got
            self.unproved("correspondence %s" % name,
                          {"disagreements": len(bad), "first": bad[:5]})
        return fails

    # -- verdict
    def finish(self, rule, level_text=None, assumptions=None):
        wall = time.time() - self.t0
        replay_path = None
        rc = 0
        os.makedirs(os.path.join(VERIF, "replays"), exist_ok=True)
        os.makedirs(os.path.join(VERIF, "evidence"), exist_ok=True)
        inputs = [v for v in self.violations if v[0] == "input"]
        unproved = [v for v in self.violations if v[0] == "unproved"]
        for key, det in self.known_hit.items():
            print("KNOWN-FINDING: property=%s %s" %
                  (self.prop, self.known[key]["what"]))
        if self.violations:
            rc = 1
            h = hashlib.sha1(repr(self.violations[:3]).encode()).hexdigest()
            replay_path = os.path.join(VERIF, "replays", "%s-%s.json" %
                                       (self.prop, h[:10]))
            with open(replay_path, "w") as f:
                json.dump({
                    "property": self.prop, "tier": self.tier,
                    "seed": self.seed,
                    "failing_inputs": [{"key": k, "detail": d}
                                       for _, k, d in inputs[:20]],
                    "no_longer_checks": [{"name": k, "detail": d}
                                         for _, k, d in unproved[:20]],
                    "replay": "bin/check %s --replay <this file>  (= --tier "
                    "%s --seed %d)" % (self.prop, self.tier, self.seed)},
                    f, indent=1, default=repr)
            tail = "" if inputs else " no-failing-input-found"
            print("VIOLATION property=%s replay=%s%s" %
                  (self.prop, replay_path, tail))
            for _, k, d in self.violations[:5]:
                print("  - %s: %s" % (k, json.dumps(d, default=repr)[:600]))
        obl = self.obl or {"theorems": [], "closed": 0, "ok": False}
        cov = {
            "obligations": max(1, len(obl["theorems"])),
            "discharged": min(obl["closed"], len(obl["theorems"]))
            if obl.get("ok") else 0,
            "checker_cmd": "coq_makefile -f coq/_CoqProject && make -j16 "
            "(coqc 8.16.1, full .vo build); coqc -Q coq PW coq/props/%s.v "
            "(Print Assumptions under every theorem)" % self.prop,
            "trusted_base": TRUSTED_BASE + (
                [TRANSLATORS[self.prop]] if self.prop in TRANSLATORS
                else []) + (assumptions or []),
            "theorems": obl["theorems"],
            "evaluations": max(1, self.evaluations),
            "distinct_nontrivial": len(self.nontrivial),
            "rule": rule,
            "samples": self.samples or ["(none)"],
            "correspondence_cases": self.corr_cases,
            "correspondence_disagreements": self.corr_disagree,
            "input_distribution": self.dist,
            "known_findings_seen": sorted(self.known_hit),
            "notes": self.notes,
        }
        cov.update(self.extra)
        ev = {"property_id": self.prop, "tier": self.tier, "seed": self.seed,
              "level": "proof", "coverage": cov,
              "assumptions": assumptions or [],
              "wall_s": round(wall, 2), "violations": len(self.violations)}
        # evidence/ describes runs on /repo; a run against another tree
        # (VERIF_REPO: seeded or scratch trees) must not overwrite it
        evdir = os.path.join(VERIF, "evidence")
        if os.path.realpath(REPO) != "/repo":
            evdir = os.path.join(VERIF, "build", "evidence-other-tree")
            os.makedirs(evdir, exist_ok=True)
        with open(os.path.join(evdir, self.prop + ".json"),
                  "w") as f:
            json.dump(ev, f, indent=1, default=repr)
        print("%s %s: obligations %d/%d, correspondence %d cases "
              "(%d disagree), evaluations %d, violations %d, %.1fs" %
              (self.prop, self.tier, cov["discharged"], cov["obligations"],
               self.corr_cases, self.corr_disagree, self.evaluations,
               len(self.violations), wall))
        return rc


def main(argv):
    import argparse
    import importlib
    ap = argparse.ArgumentParser()
    ap.add_argument("prop")
    ap.add_argument("--tier", default=os.environ.get("VERIF_TIER", "quick"))
    ap.add_argument("--seed", type=int,
                    default=int(os.environ.get("VERIF_SEED", "20260930")))
    ap.add_argument("--replay", help="replay file written by a failing run: "
                    "re-runs the check with the tier and seed recorded there "
                    "(the generators are deterministic in the seed)")
    args = ap.parse_args(argv)
    if args.replay:
        rec = json.load(open(args.replay))
        args.tier, args.seed = rec["tier"], rec["seed"]
        print("replaying %s: tier=%s seed=%d; recorded failing inputs: %d, "
              "no longer checking: %s" % (
                  args.replay, args.tier, args.seed,
                  len(rec.get("failing_inputs", [])),
                  [x["name"] for x in rec.get("no_longer_checks", [])]))
    sys.path.insert(0, os.path.join(VERIF, "harness"))
    mod = importlib.import_module("checks.%s" % args.prop.lower())
    ctx = Ctx(args.prop, args.tier, args.seed)
    try:
        rc = mod.run(ctx)
    except BaseException as err:  # noqa: the check itself broke
        import traceback
        traceback.print_exc()
        ctx.unproved("check harness crashed", {"error": repr(err)})
        rc = ctx.finish("harness crashed before completion")
    return rc


if __name__ == "__main__":
    # run through the importable module so that checks and core share one
    # module object (class identities such as Exn)
    sys.path.insert(0, os.path.join(VERIF, "harness"))
    import core as _core
    sys.exit(_core.main(sys.argv[1:]))
