"""Translator plugin: poorwsgi/fieldstorage.py
FieldStorageParser.read_lines_to_outerboundary, _write, make_file
-> coq/gen/MultipartGen.v (proved equal to model/Multipart.v's rlob and to the
file model of proofs/MultipartGenEq.v; theorems C08_generated_*_is_model).

Reuses the general translator (py2v.Unit over lib/Py.v) and adds, with the
semantics of lib/PyMultipart.v:

  * `a << b`; chained comparisons `a <= b <= c` (b evaluated once, short
    circuit);
  * `line = self.input.readline(e)`: the input object is a value of the
    abstract type St (Section variable) read through the Section variable
    `rl : Z -> St -> list Z * St` -- the reader of the hand model; it is
    the only variable that is not a `pv`;
  * bytes: `x.rstrip()` (no argument), `x.decode(a, b)` (decoder = Section
    variable D);
  * file objects: `isinstance(f, (A, B))` / `isinstance(f, A)` on class
    names, `f.tell()`, `f.getvalue()`, the statement `f.write(e)` on a local
    name, `tempfile.TemporaryFile(...)` (opaque constructor tuple made a
    fresh file), `self.file_callback(e)`;
  * the method calls `self._write(a, b)` and `self.make_file()` as calls of
    the generated functions (their signatures are checked);
  * the class constant `BUFSIZE` is translated from its defining expression
    in the class body;
  * valid_boundary: `isinstance(x, bytes)`, `bool(e)`, and `NAME.match(e)`
    where NAME is a module-level `NAME = re.compile(<constant>)`; the
    pattern text is parsed (parse_pattern below: "^", character classes
    [a-b...] with an optional {lo,hi}, "$"; everything else is refused)
    into the regular-expression terms of lib/PyMultipart.v.

Dropped by name: docstrings and `log.*(...)` statements (py2v.Unit.block).
Everything else raises py2v.Unsupported.
"""
import ast
import os

import py2v
from py2v import Unsupported, strlit, mangle

SOURCE = "poorwsgi/fieldstorage.py"
CLASS = "FieldStorageParser"
TYPES = {"self.input": "St"}            # every other variable is a pv
MAKE_FIELDS = ["self.filename", "self.file_callback", "self.encoding"]
WRITE_FIELDS = ["self.filename", "self.file_callback", "self.encoding",
                "self.errors"]
LOOP_FIELDS = ["self.limit", "self.outerboundary", "self.input",
               "self.bytes_read", "self.done"]
SECTION_VARS = [("St", "Type"), ("rl", "Z -> St -> list Z * St"),
                ("D", "list Z -> list Z")]
CMP = {ast.Eq: "peq", ast.NotEq: "pne", ast.Lt: "plt", ast.LtE: "ple",
       ast.Gt: "pgt", ast.GtE: "pge"}


def parse_pattern(node, pat):
    """(is_bytes, [(ranges, lo, hi)], dollar) for the supported subset"""
    is_bytes = isinstance(pat, bytes)
    text = pat.decode("latin-1") if is_bytes else pat
    if not isinstance(text, str) or not text.startswith("^"):
        raise Unsupported(node, "pattern must start with ^")
    i, items, dollar = 1, [], False
    while i < len(text):
        ch = text[i]
        if ch == "$" and i == len(text) - 1:
            dollar = True
            i += 1
            continue
        if ch != "[":
            raise Unsupported(node, "pattern element %r" % ch)
        j = text.find("]", i + 2)
        if j < 0:
            raise Unsupported(node, "unterminated class")
        body = text[i + 1:j]
        if body.startswith("^") or "\\" in body or "[" in body:
            raise Unsupported(node, "class %r" % body)
        ranges, k = [], 0
        while k < len(body):
            if k + 2 < len(body) and body[k + 1] == "-":
                lo, hi = ord(body[k]), ord(body[k + 2])
                if lo > hi:
                    raise Unsupported(node, "class range")
                ranges.append((lo, hi))
                k += 3
            elif body[k] == "-" and 0 < k < len(body) - 1:
                raise Unsupported(node, "class %r" % body)
            else:
                ranges.append((ord(body[k]), ord(body[k])))
                k += 1
        i = j + 1
        lo = hi = 1
        if i < len(text) and text[i] == "{":
            j = text.find("}", i)
            parts = text[i + 1:j].split(",") if j > 0 else []
            if len(parts) != 2 or not all(x.isdigit() for x in parts):
                raise Unsupported(node, "quantifier")
            lo, hi = int(parts[0]), int(parts[1])
            if lo > hi or hi > 1000:
                raise Unsupported(node, "quantifier bounds")
            i = j + 1
        elif i < len(text) and text[i] in "*+?|()\\.":
            raise Unsupported(node, "pattern element %r" % text[i])
        items.append((ranges, lo, hi))
    return is_bytes, items, dollar


def ty(name):
    return TYPES.get(name, "pv")


def is_readline(node):
    return isinstance(node, ast.Call) and \
        isinstance(node.func, ast.Attribute) and \
        node.func.attr == "readline"


class MultipartUnit(py2v.Unit):
    patterns = {}       # module-level NAME = re.compile(<constant>)

    # ------------------------------------------------------------ expressions
    def expr(self, cx, env, node, k):
        if isinstance(node, ast.BinOp) and isinstance(node.op, ast.LShift):
            return self.expr(cx, env, node.left, lambda a: self.expr(
                cx, env, node.right, lambda b: self.bindk(
                    cx, "plshift %s %s" % (a, b), k)))
        if isinstance(node, ast.Compare) and len(node.ops) == 2:
            return self.chain(cx, env, node, k)
        if isinstance(node, (ast.Name, ast.Attribute)):
            name = self.dotted(node)
            if name in TYPES:
                raise Unsupported(node, "the input object used as a value")
        return super().expr(cx, env, node, k)

    def chain(self, cx, env, node, k):
        """a op1 b op2 c  ==  (a op1 b) and (b op2 c), b evaluated once"""
        fn1, fn2 = CMP.get(type(node.ops[0])), CMP.get(type(node.ops[1]))
        if fn1 is None or fn2 is None:
            raise Unsupported(node, "chained comparison operator")
        mid, right = node.comparators
        join, arg = cx.fresh("j"), cx.fresh("b")
        t1, t2 = cx.fresh("t"), cx.fresh("t")
        return "let %s := fun (%s : pv) => (%s) in\n%s" % (
            join, arg, k(arg),
            self.expr(cx, env, node.left, lambda a: self.expr(
                cx, env, mid, lambda b: (
                    "%s <- %s %s %s ;;\nif truthy %s then (%s) else %s %s"
                    % (t1, fn1, a, b, t1,
                       self.expr(cx, env, right, lambda c: (
                           "%s <- %s %s %s ;;\n%s %s" % (
                               t2, fn2, b, c, join, t2))),
                       join, t1)))))

    def call(self, cx, env, node, k):
        fn = node.func
        fname = self.dotted(fn)
        plain = not node.keywords and not any(
            isinstance(a, ast.Starred) for a in node.args)
        if is_readline(node):
            raise Unsupported(node, "readline outside `x = self.input."
                              "readline(e)`")
        if fname == "isinstance" and plain and len(node.args) == 2:
            classes = node.args[1]
            elts = classes.elts if isinstance(classes, ast.Tuple) \
                else [classes]
            if not elts or not all(isinstance(e, ast.Name) for e in elts):
                raise Unsupported(node, "isinstance classes")
            names = "[%s]" % "; ".join(strlit(e.id) for e in elts)
            return self.expr(cx, env, node.args[0], lambda a: self.bindk(
                cx, "pisinstance %s %s" % (a, names), k))
        if fname == "bool" and plain and len(node.args) == 1:
            return self.expr(cx, env, node.args[0], lambda a: self.bindk(
                cx, "pbool %s" % a, k))
        if isinstance(fn, ast.Attribute) and fn.attr == "match" and plain \
                and len(node.args) == 1 and isinstance(fn.value, ast.Name) \
                and fn.value.id in self.patterns:
            is_bytes, items, dollar = self.patterns[fn.value.id]
            term = "[%s]" % "; ".join(
                "RClass [%s] %d %d" % ("; ".join(
                    "(%d, %d)" % r for r in ranges), lo, hi)
                for ranges, lo, hi in items)
            return self.expr(cx, env, node.args[0], lambda a: self.bindk(
                cx, "pre_match %s %s %s %s" % (
                    "true" if is_bytes else "false", term,
                    "true" if dollar else "false", a), k))
        if fname == "self._write" and plain and len(node.args) == 2:
            fields = " ".join(env[f] for f in WRITE_FIELDS)
            return self.seq(cx, env, node.args, lambda it: self.bindk(
                cx, "gen_write %s %s %s" % (fields, it[0], it[1]), k))
        if fname == "self.make_file" and plain and not node.args:
            fields = " ".join(env[f] for f in MAKE_FIELDS)
            return self.bindk(cx, "gen_make_file %s" % fields, k)
        if fname == "self.file_callback" and plain and len(node.args) == 1:
            return self.expr(cx, env, node.args[0], lambda a: self.bindk(
                cx, "pcall_factory %s %s" % (env["self.file_callback"], a),
                k))
        if fname == "tempfile.TemporaryFile":
            return super().call(cx, env, node,
                                lambda t: k("(pnewfile %s)" % t))
        if isinstance(fn, ast.Attribute) and plain and fname is not None \
                and fname.rsplit(".", 1)[0] not in TYPES:
            if fn.attr in ("rstrip", "tell", "getvalue") and not node.args:
                return self.expr(cx, env, fn.value, lambda a: self.bindk(
                    cx, "p%s %s" % (fn.attr, a), k))
            if fn.attr == "decode" and len(node.args) == 2:
                return self.expr(cx, env, fn.value, lambda a: self.seq(
                    cx, env, node.args, lambda it: self.bindk(
                        cx, "pdecode D %s %s %s" % (a, it[0], it[1]), k)))
        return super().call(cx, env, node, k)

    # ------------------------------------------------------------ statements
    def assigned(self, stmts):
        out = super().assigned(stmts)
        for st in stmts:
            for node in ast.walk(st):
                if is_readline(node):
                    out.append(node.func.value)
                elif isinstance(node, ast.Expr) and \
                        isinstance(node.value, ast.Call) and \
                        isinstance(node.value.func, ast.Attribute) and \
                        node.value.func.attr == "write":
                    out.append(node.value.func.value)
        return out

    def block(self, cx, env, stmts, kend, loopk=None):
        if stmts and isinstance(stmts[0], ast.Assign) and \
                is_readline(stmts[0].value):
            st, rest = stmts[0], stmts[1:]
            call = st.value
            obj = self.dotted(call.func.value)
            if obj not in TYPES or obj not in env or call.keywords or \
                    len(call.args) != 1 or len(st.targets) != 1 or \
                    not isinstance(st.targets[0], ast.Name):
                raise Unsupported(st, "readline statement shape")
            data, new = cx.fresh(st.targets[0].id), cx.fresh(obj)

            def after_read(arg):
                env2 = self.assign(cx, env, st.targets[0], data)
                env2[obj] = new
                return ("pr <- preadline rl %s %s ;; let '(%s, %s) := pr in\n"
                        "%s" % (env[obj], arg, data, new,
                                self.block(cx, env2, rest, kend, loopk)))
            return self.expr(cx, env, call.args[0], after_read)
        for st in stmts[:1]:
            if isinstance(st, ast.If):
                for name in self.names_assigned(st.body + st.orelse):
                    if name in TYPES:
                        raise Unsupported(st, "input object assigned in a "
                                          "branch")
        return super().block(cx, env, stmts, kend, loopk)

    def effect_call(self, cx, env, call, after):
        fn = call.func
        if isinstance(fn, ast.Attribute) and fn.attr == "write" and \
                isinstance(fn.value, ast.Name) and fn.value.id in env and \
                len(call.args) == 1 and not call.keywords:
            obj = fn.value.id
            new = cx.fresh(obj)
            return self.expr(cx, env, call.args[0], lambda a: (
                "%s <- pwrite %s %s ;;\n%s" % (
                    new, env[obj], a, after(dict(env, **{obj: new})))))
        raise Unsupported(call, "statement call")

    def while_loop(self, cx, env, st, after):
        """py2v.Unit.while_loop with typed parameters and result"""
        if st.orelse:
            raise Unsupported(st, "while-else")
        carried = self.names_assigned(st.body)
        free = [n for n in env if n not in carried]
        lname = "%s_loop_%d" % (cx.name, len(cx.loops) + 1)
        params = {n: cx.fresh(n) for n in free + carried}
        inner = dict(params)
        order = free + carried

        def default(n):
            if n in TYPES:
                raise Unsupported(st, "input object not bound")
            return "PNone"

        def again(e):
            return "%s fuel_ %s" % (lname, " ".join(
                e[n] if n in e else default(n) for n in order))
        exitn = cx.fresh("exit")

        def leave(e):
            return "%s %s" % (exitn, " ".join(
                e[n] if n in e else default(n) for n in order))
        saved = cx.breakk
        cx.breakk = leave
        body = self.block(cx, inner, st.body, again, again)
        cx.breakk = saved
        exit_params = {n: cx.fresh(n) for n in order}
        done = after(dict(exit_params))
        sig = " ".join("(%s : %s)" % (params[n], ty(n)) for n in order)
        esig = " ".join("(%s : %s)" % (exit_params[n], ty(n))
                        for n in order)
        test = self.expr(
            cx, inner, st.test, lambda c:
            "if truthy %s then\n match fuel with\n | O => Err (Raised "
            "\"OutOfFuel\" PNone)\n | S fuel_ => (%s)\n end\nelse %s" % (
                c, body, leave(inner)))
        cx.loops.append(
            "Fixpoint %s (fuel : nat) %s {struct fuel} : %s :=\n"
            "let %s := fun %s => (%s) in\n%s." % (
                lname, sig, cx.restype, exitn, esig, done, test))
        return "%s fuel %s" % (lname, " ".join(
            env[n] if n in env else default(n) for n in order))

    def method(self, fundef, gen_name, fields, restype="res pv",
               retwrap=None, prelude=(), fuel=False):
        """one method of the class: parameters = the listed self fields,
        then the method's own parameters"""
        args = fundef.args
        if args.defaults or args.vararg or args.kwarg or args.kwonlyargs \
                or args.posonlyargs:
            raise Unsupported(fundef, "signature")
        if fields is None:              # a module-level function
            own = [a.arg for a in args.args]
            fields = []
        elif not args.args or args.args[0].arg != "self":
            raise Unsupported(fundef, "signature")
        else:
            own = [a.arg for a in args.args[1:]]
        if fundef.decorator_list:
            raise Unsupported(fundef, "decorator")
        params = fields + own
        cx = py2v.Ctx(self, gen_name)
        cx.fundef = fundef
        cx.result = None
        cx.retwrap = retwrap
        cx.breakk = None
        cx.restype = restype
        if any(isinstance(n, (ast.Yield, ast.YieldFrom, ast.Await))
               for n in ast.walk(fundef)):
            raise Unsupported(fundef, "generator")
        env = {p: mangle(p) for p in params}

        def end(e):
            if retwrap is not None:
                raise Unsupported(fundef, "falls off the end")
            return "Ok PNone"
        code = self.block(cx, env, list(prelude) + fundef.body, end)
        sig = " ".join("(%s : %s)" % (mangle(p), ty(p)) for p in params)
        if fuel:
            sig += " (fuel : nat)"
        text = "\n\n".join(cx.loops + [
            "Definition %s %s : %s :=\n%s." % (gen_name, sig, restype, code)])
        self.defs.append(text)
        return params

    def write(self, filename, header, section_vars=()):
        out = ["(* GENERATED by harness/py2v_multipart.py from %s -- do not "
               "edit *)" % header,
               "From Coq Require Import ZArith List Bool String.",
               "Require Import PW.lib.Val PW.lib.Dec PW.lib.Py "
               "PW.lib.PyMultipart.",
               "Import ListNotations.", "Open Scope string_scope.",
               "Open Scope list_scope.", "Open Scope Z_scope.", "",
               "Section Gen."]
        for var, typ in section_vars:
            out.append("Variable %s : %s." % (var, typ))
        out += self.defs
        out.append("End Gen.")
        path = os.path.join(py2v.GEN, filename)
        text = "\n\n".join(out) + "\n"
        old = open(path).read() if os.path.exists(path) else None
        if old != text:
            with open(path, "w") as f:
                f.write(text)
        return path


def class_const(cls, name):
    """the single class-level assignment `name = <expr>`"""
    found = [n for n in cls.body if isinstance(n, ast.Assign)
             and len(n.targets) == 1 and isinstance(n.targets[0], ast.Name)
             and n.targets[0].id == name]
    if len(found) != 1:
        raise Unsupported(cls, "class constant %s" % name)
    target = ast.Attribute(value=ast.Name(id="self", ctx=ast.Load()),
                           attr=name, ctx=ast.Store())
    node = ast.Assign(targets=[target], value=found[0].value,
                      lineno=found[0].lineno)
    return ast.copy_location(node, found[0])


def gen_multipart():
    tree = py2v.parse(SOURCE)
    cls = [n for n in tree.body if isinstance(n, ast.ClassDef)
           and n.name == CLASS]
    if len(cls) != 1:
        raise Unsupported(tree, "class %s" % CLASS)
    cls = cls[0]

    def meth(name):
        found = [n for n in cls.body if isinstance(n, ast.FunctionDef)
                 and n.name == name]
        if len(found) != 1:
            raise Unsupported(cls, "method %s" % name)
        return found[0]
    unit = MultipartUnit()
    unit.patterns = {}
    for node in tree.body:
        if isinstance(node, ast.Assign) and len(node.targets) == 1 and \
                isinstance(node.targets[0], ast.Name) and \
                isinstance(node.value, ast.Call) and \
                unit.dotted(node.value.func) == "re.compile":
            call = node.value
            if len(call.args) != 1 or call.keywords or \
                    not isinstance(call.args[0], ast.Constant):
                raise Unsupported(node, "re.compile arguments")
            unit.patterns[node.targets[0].id] = parse_pattern(
                node, call.args[0].value)
    vb = [n for n in tree.body if isinstance(n, ast.FunctionDef)
          and n.name == "valid_boundary"]
    if len(vb) != 1:
        raise Unsupported(tree, "function valid_boundary")
    if unit.method(vb[0], "gen_valid_boundary", None) != ["data"]:
        raise Unsupported(vb[0], "parameters")
    got = unit.method(meth("make_file"), "gen_make_file", MAKE_FIELDS)
    if got != MAKE_FIELDS:
        raise Unsupported(meth("make_file"), "parameters")
    got = unit.method(meth("_write"), "gen_write", WRITE_FIELDS,
                      prelude=[class_const(cls, "BUFSIZE")])
    if got != WRITE_FIELDS + ["line", "file"]:
        raise Unsupported(meth("_write"), "parameters")

    def wrap(env, value):
        return "Ok (PTuple [%s; %s; %s], %s)" % (
            value, env["self.done"], env["self.bytes_read"],
            env["self.input"])
    fields = LOOP_FIELDS + [f for f in WRITE_FIELDS]
    got = unit.method(meth("read_lines_to_outerboundary"),
                      "gen_read_lines_to_outerboundary", fields,
                      restype="res (pv * St)", retwrap=wrap, fuel=True)
    if got != fields + ["file"]:
        raise Unsupported(meth("read_lines_to_outerboundary"), "parameters")
    return unit.write("MultipartGen.v", SOURCE + " valid_boundary, "
                      "FieldStorageParser.make_file, _write, "
                      "read_lines_to_outerboundary",
                      SECTION_VARS)


def register(TARGETS, OUTPUT):
    TARGETS["multipart"] = gen_multipart
    OUTPUT["multipart"] = "MultipartGen.v"
