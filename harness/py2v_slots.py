"""Plugin: the write-once request slots uri_rule / uri_handler /
error_handler of poorwsgi/request.py SimpleRequest -> coq/gen/SlotsGen.v
(property C03: "every before hook runs after the endpoint has been chosen
(which the hook can already see on the request)").

Part 1 -- translation (domain specific, fail closed).  For each of the three
names the class body of SimpleRequest must bind the name exactly twice, by

    @property
    def <name>(self): [docstring] return <expr>

    @<name>.setter
    def <name>(self, value): [docstring] <stmts>

in this order (nothing else at class level may bind the name; the class has
no bases, decorators, metaclass, and defines none of __setattr__,
__getattr__, __getattribute__, __delattr__, __slots__; `property` is not
rebound in the module).  Translated by syntax over coq/lib/PySlots.v:

    stmt ::= self.<attr> = expr | if test: stmts [else: stmts] | pass
    expr ::= None | <second parameter> | self.<attr>
    test ::= expr is None | expr is not None | not test | test and/or test

`self.__x` is written with its mangled name `_SimpleRequest__x`.  Parameters
are identified by position, not by spelling; annotations, docstrings, bare
string statements and `log.*(...)` calls are dropped (by name, nothing else
is).  From SimpleRequest.__init__ the top-level assignments to the
attributes the six functions touch are translated the same way into
gen_init_slots (they must be the only stores to these attributes inside
__init__); the rest of __init__ is not translated (the census below shows
that nothing else in the package stores to them).

Part 2 -- census `slot_writers` over every poorwsgi/*.py, as
(function, target, value) with source text through ast.unparse after
renaming parameters to arg0, arg1, ... (by position) and local variables to
loc0, loc1, ... (by position of first assignment), so the spelling of local
names does not matter.  Seen:

  * every attribute in store/del position (assignment, augmented, annotated
    assignment, del, for/with targets, tuple unpacking) whose attribute name
    ends with uri_rule / uri_handler / error_handler (this covers
    x.uri_rule, self.__uri_rule and x._SimpleRequest__uri_rule);
    value = the assigned expression, "<op>= e" for augmented assignment,
    "<del>", or "<For>", "<With>", ... for other binding statements;
  * every call of setattr / delattr / .__setattr__ / .__delattr__ and every
    mention of .__dict__ (whatever their arguments): value "<setattr>" /
    "<__dict__>";
  * every class-level `def` or assignment, in any class, of one of the three
    names or of __setattr__ / __getattr__ / __getattribute__ / __delattr__ /
    __slots__: (class, "def <name>", decorators) / (class, "<name> =", value).

Not seen: attribute names computed at run time by other means
(operator.attrgetter, vars(), ctypes ...), code outside poorwsgi/*.py
(handlers and hooks of the application) -- those stay with the monitor.
coq/props/C03.v proves every entry is in the policy of model/Slots.v."""
import ast
import copy
import glob
import os

import py2v
from py2v import Unsupported

SOURCE = "poorwsgi/request.py"
CLASS = "SimpleRequest"
SLOTS = ("uri_rule", "uri_handler", "error_handler")
PROTOCOL = ("__setattr__", "__getattr__", "__getattribute__", "__delattr__",
            "__slots__")


# --------------------------------------------------------------- translation
def mangled(attr):
    if attr.startswith("__") and not attr.endswith("__"):
        return "_" + CLASS.lstrip("_") + attr
    return attr


def slit(text):
    return '"%s"' % text.replace('"', '""')


def is_log_call(st):
    return isinstance(st, ast.Expr) and isinstance(st.value, ast.Call) and \
        isinstance(st.value.func, ast.Attribute) and \
        isinstance(st.value.func.value, ast.Name) and \
        st.value.func.value.id == "log"


def is_string_stmt(st):
    return isinstance(st, ast.Expr) and \
        isinstance(st.value, ast.Constant) and \
        isinstance(st.value.value, str)


class SlotUnit:
    """one function; `names` = positional parameter names"""

    def __init__(self, names):
        self.names = names
        self.count = 0
        self.touched = set()

    def is_self(self, node):
        return isinstance(node, ast.Name) and node.id == self.names[0]

    def expr(self, node, cur):
        if isinstance(node, ast.Constant) and node.value is None:
            return "py_none"
        if isinstance(node, ast.Name) and isinstance(node.ctx, ast.Load) \
                and len(self.names) > 1 and node.id == self.names[1]:
            return "value"
        if isinstance(node, ast.Attribute) and self.is_self(node.value) \
                and isinstance(node.ctx, ast.Load):
            self.touched.add(mangled(node.attr))
            return "(attr_load %s %s)" % (cur, slit(mangled(node.attr)))
        raise Unsupported(node, "expression")

    def test(self, node, cur):
        if isinstance(node, ast.Compare) and len(node.ops) == 1 and \
                isinstance(node.ops[0], (ast.Is, ast.IsNot)) and \
                isinstance(node.comparators[0], ast.Constant) and \
                node.comparators[0].value is None:
            fn = "is_none" if isinstance(node.ops[0], ast.Is) \
                else "is_not_none"
            return "(%s %s)" % (fn, self.expr(node.left, cur))
        if isinstance(node, ast.UnaryOp) and isinstance(node.op, ast.Not):
            return "(negb %s)" % self.test(node.operand, cur)
        if isinstance(node, ast.BoolOp):
            fn = "andb" if isinstance(node.op, ast.And) else "orb"
            out = self.test(node.values[-1], cur)
            for val in reversed(node.values[:-1]):
                out = "(%s %s %s)" % (fn, self.test(val, cur), out)
            return out
        raise Unsupported(node, "test (truth value of an object)")

    def block(self, stmts, cur):
        """Gallina term for the object after the statements"""
        if not stmts:
            return cur
        st, rest = stmts[0], stmts[1:]
        if is_string_stmt(st) or is_log_call(st) or \
                isinstance(st, ast.Pass):
            return self.block(rest, cur)
        if isinstance(st, ast.Assign) and len(st.targets) == 1 and \
                isinstance(st.targets[0], ast.Attribute) and \
                self.is_self(st.targets[0].value):
            attr = mangled(st.targets[0].attr)
            self.touched.add(attr)
            self.count += 1
            new = "self_%d" % self.count
            return "let %s := attr_store %s %s %s in\n  %s" % (
                new, cur, slit(attr), self.expr(st.value, cur),
                self.block(rest, new))
        if isinstance(st, ast.If):
            test = self.test(st.test, cur)
            then = self.block(st.body, cur)
            other = self.block(st.orelse, cur)
            self.count += 1
            new = "self_%d" % self.count
            return "let %s := (if %s then (%s) else (%s)) in\n  %s" % (
                new, test, then, other, self.block(rest, new))
        raise Unsupported(st, "statement")


def positional(fun, count):
    args = fun.args
    if not isinstance(fun, ast.FunctionDef) or args.posonlyargs or \
            args.kwonlyargs or args.vararg or args.kwarg or args.defaults \
            or args.kw_defaults or len(args.args) != count:
        raise Unsupported(fun, "signature")
    names = [a.arg for a in args.args]
    if len(set(names)) != count:
        raise Unsupported(fun, "signature")
    for node in ast.walk(fun):
        if isinstance(node, ast.Name) and node.id in names and \
                not isinstance(node.ctx, ast.Load):
            raise Unsupported(node, "parameter rebound")
        if node is not fun and isinstance(
                node, (ast.FunctionDef, ast.AsyncFunctionDef, ast.Lambda,
                       ast.ClassDef, ast.Global, ast.Nonlocal)):
            raise Unsupported(node, "nested scope")
    return names


def find_class(tree):
    found = [n for n in tree.body if isinstance(n, ast.ClassDef)
             and n.name == CLASS]
    if len(found) != 1:
        raise Unsupported(tree, "definitions of %s" % CLASS)
    cls = found[0]
    if cls.bases or cls.keywords or cls.decorator_list:
        raise Unsupported(cls, "bases / metaclass / decorators")
    for node in ast.walk(tree):
        if isinstance(node, ast.Name) and node.id in ("property", CLASS) \
                and not isinstance(node.ctx, ast.Load):
            raise Unsupported(node, "rebinding")
        if isinstance(node, (ast.FunctionDef, ast.AsyncFunctionDef,
                             ast.ClassDef)) and node is not cls and \
                node.name in ("property", CLASS):
            raise Unsupported(node, "rebinding")
        if isinstance(node, ast.alias) and \
                (node.asname or node.name) in ("property", CLASS):
            raise Unsupported(tree, "rebinding by import")
    return cls


def class_members(cls):
    """{slot: [getter def, setter def]}; fail on any other class-level
    binding of a slot name or an attribute-protocol override"""
    defs = {name: [] for name in SLOTS}
    for st in cls.body:
        if isinstance(st, ast.FunctionDef):
            if st.name in PROTOCOL:
                raise Unsupported(st, "attribute protocol override")
            if st.name in defs:
                defs[st.name].append(st)
            continue
        for node in ast.walk(st):
            if isinstance(node, ast.Name) and \
                    node.id in SLOTS + PROTOCOL and \
                    not isinstance(node.ctx, ast.Load):
                raise Unsupported(node, "class-level binding")
            if isinstance(node, (ast.FunctionDef, ast.AsyncFunctionDef,
                                 ast.ClassDef)) and \
                    node.name in SLOTS + PROTOCOL:
                raise Unsupported(node, "class-level binding")
            if isinstance(node, ast.alias) and \
                    (node.asname or node.name).split(".")[0] in \
                    SLOTS + PROTOCOL:
                raise Unsupported(st, "class-level binding by import")
    for name, pair in defs.items():
        if len(pair) != 2:
            raise Unsupported(cls, "definitions of %s" % name)
        getter, setter = pair
        deco = getter.decorator_list
        if not (len(deco) == 1 and isinstance(deco[0], ast.Name)
                and deco[0].id == "property"):
            raise Unsupported(getter, "getter decorator")
        deco = setter.decorator_list
        if not (len(deco) == 1 and isinstance(deco[0], ast.Attribute)
                and isinstance(deco[0].value, ast.Name)
                and deco[0].value.id == name and deco[0].attr == "setter"):
            raise Unsupported(setter, "setter decorator")
    return defs


def translate_members(cls):
    out, touched = [], set()
    defs = class_members(cls)
    for name in SLOTS:
        getter, setter = defs[name]
        unit = SlotUnit(positional(getter, 1))
        body = [st for st in getter.body
                if not (is_string_stmt(st) or is_log_call(st))]
        if not (len(body) == 1 and isinstance(body[0], ast.Return)
                and body[0].value is not None):
            raise Unsupported(getter, "getter body")
        out.append("Definition gen_%s_get (self_0 : obj A) : pval A :=\n"
                   "  %s." % (name, unit.expr(body[0].value, "self_0")))
        touched |= unit.touched
        unit = SlotUnit(positional(setter, 2))
        out.append("Definition gen_%s_set (self_0 : obj A) (value : pval A)"
                   " : obj A :=\n  %s." % (
                       name, unit.block(setter.body, "self_0")))
        touched |= unit.touched
    return out, touched


def translate_init(cls, touched):
    found = [st for st in cls.body if isinstance(st, ast.FunctionDef)
             and st.name == "__init__"]
    if len(found) != 1 or found[0].decorator_list:
        raise Unsupported(cls, "__init__")
    init = found[0]
    if init.args.posonlyargs or not init.args.args:
        raise Unsupported(init, "signature")
    selfname = init.args.args[0].arg
    for node in ast.walk(init):
        if isinstance(node, ast.Name) and node.id == selfname and \
                not isinstance(node.ctx, ast.Load):
            raise Unsupported(node, "self rebound")
    unit = SlotUnit([selfname])

    def slot_store(node):
        return isinstance(node, ast.Attribute) and \
            not isinstance(node.ctx, ast.Load) and \
            mangled(node.attr) in touched

    mine = [st for st in init.body if isinstance(st, ast.Assign)
            and any(slot_store(t) for t in st.targets)]
    stores = [n for n in ast.walk(init) if slot_store(n)]
    text = unit.block(mine, "self_0")
    if len(stores) != unit.count or unit.count != len(mine):
        raise Unsupported(init, "stores to the slots outside the top level")
    return ["Definition gen_init_slots (self_0 : obj A) : obj A :=\n  %s."
            % text]


# -------------------------------------------------------------------- census
def matches(attr):
    return any(attr.endswith(name) for name in SLOTS)


class Renamer(ast.NodeTransformer):
    def __init__(self, table):
        self.table = table

    def visit_Name(self, node):
        return ast.copy_location(
            ast.Name(id=self.table.get(node.id, node.id), ctx=node.ctx),
            node)


def name_table(fun):
    """parameters -> argN by position, locals -> locN by first store"""
    if fun is None:
        return {}
    args = fun.args
    params = [a.arg for a in args.posonlyargs + args.args]
    if args.vararg:
        params.append(args.vararg.arg)
    params += [a.arg for a in args.kwonlyargs]
    if args.kwarg:
        params.append(args.kwarg.arg)
    table = {name: "arg%d" % i for i, name in enumerate(params)}
    stores = sorted((n.lineno, n.col_offset, n.id) for n in ast.walk(fun)
                    if isinstance(n, ast.Name)
                    and not isinstance(n.ctx, ast.Load))
    for _, _, name in stores:
        if name not in table:
            table[name] = "loc%d" % (len(table) - len(params))
    return table


def text(node, table):
    return ast.unparse(Renamer(table).visit(copy.deepcopy(node)))


def flat_targets(target):
    if isinstance(target, (ast.Tuple, ast.List)):
        for elt in target.elts:
            yield from flat_targets(elt)
    elif isinstance(target, ast.Starred):
        yield from flat_targets(target.value)
    else:
        yield target


def scan_file(path, mod, out):
    tree = ast.parse(open(path).read())

    def statement(st, qual, table):
        """entries of one statement (its own targets only)"""
        seen = set()

        def add(target, value):
            seen.add(id(target))
            if isinstance(target, ast.Attribute) and matches(target.attr):
                out.append((qual, text(target, table), value))

        if isinstance(st, ast.Assign):
            for tgt in st.targets:
                for leaf in flat_targets(tgt):
                    add(leaf, text(st.value, table))
        elif isinstance(st, ast.AugAssign):
            add(st.target, "%s= %s" % (
                type(st.op).__name__, text(st.value, table)))
        elif isinstance(st, ast.AnnAssign):
            add(st.target, text(st.value, table) if st.value else "<none>")
        elif isinstance(st, ast.Delete):
            for tgt in st.targets:
                for leaf in flat_targets(tgt):
                    add(leaf, "<del>")
        return seen

    def visit(node, stack, fun, table, seen):
        qual = "%s.%s" % (mod, ".".join(stack)) if stack else mod
        for child in ast.iter_child_nodes(node):
            if isinstance(child, (ast.FunctionDef, ast.AsyncFunctionDef)):
                for deco in child.decorator_list:
                    visit(deco, stack, fun, table, seen)
                visit(child, stack + [child.name], child,
                      name_table(child), set())
                continue
            if isinstance(child, ast.ClassDef):
                cqual = "%s.%s" % (mod, ".".join(stack + [child.name]))
                for st in child.body:
                    if isinstance(st, (ast.FunctionDef,
                                       ast.AsyncFunctionDef)) and \
                            st.name in SLOTS + PROTOCOL:
                        out.append((cqual, "def %s" % st.name, ", ".join(
                            ast.unparse(d) for d in st.decorator_list)))
                    if isinstance(st, (ast.Assign, ast.AnnAssign)):
                        tgts = st.targets if isinstance(st, ast.Assign) \
                            else [st.target]
                        for tgt in tgts:
                            for leaf in flat_targets(tgt):
                                if isinstance(leaf, ast.Name) and \
                                        leaf.id in SLOTS + PROTOCOL:
                                    out.append((
                                        cqual, "%s =" % leaf.id,
                                        ast.unparse(st.value)
                                        if st.value else "<none>"))
                visit(child, stack + [child.name], None, {}, set())
                continue
            if isinstance(child, ast.stmt):
                seen |= statement(child, qual, table)
            if isinstance(child, ast.Attribute):
                if matches(child.attr) and \
                        not isinstance(child.ctx, ast.Load) and \
                        id(child) not in seen:
                    # for / with / comprehension / walrus-free targets
                    out.append((qual, text(child, table),
                                "<%s>" % type(node).__name__))
                if child.attr == "__dict__":
                    out.append((qual, text(child, table), "<__dict__>"))
            if isinstance(child, ast.Call):
                fn = child.func
                fname = fn.id if isinstance(fn, ast.Name) else \
                    fn.attr if isinstance(fn, ast.Attribute) else ""
                if fname in ("setattr", "delattr", "__setattr__",
                             "__delattr__"):
                    out.append((qual, text(child, table), "<setattr>"))
            visit(child, stack, fun, table, seen)

    visit(tree, [], None, {}, set())


def scan(repo):
    out = []
    for path in sorted(glob.glob(os.path.join(repo, "poorwsgi", "*.py"))):
        scan_file(path, os.path.basename(path)[:-3], out)
    return sorted(set(out))


# -------------------------------------------------------------------- output
def drop_compiled():
    """py2v.regenerate removes gen/SlotsGen.v when the translation is
    refused; the compiled files must go too, or an old SlotsGen.vo would
    keep the dependent theorems compiling"""
    coq = os.path.dirname(py2v.GEN)
    for stem in (os.path.join(py2v.GEN, "SlotsGen"),
                 os.path.join(coq, "proofs", "SlotsGenEq")):
        for ext in (".vo", ".vos", ".vok", ".glob"):
            if os.path.exists(stem + ext):
                os.unlink(stem + ext)


def translate():
    tree = py2v.parse(SOURCE)
    cls = find_class(tree)
    members, touched = translate_members(cls)
    defs = translate_init(cls, touched) + members
    writers = scan(py2v.REPO)
    names = ["gen_init_slots"] + [
        "gen_%s_%s" % (n, k) for n in SLOTS for k in ("get", "set")]
    out = ["(* GENERATED by harness/py2v_slots.py from poorwsgi/request.py "
           "(SimpleRequest: __init__, uri_rule, uri_handler, error_handler)"
           " and the census of poorwsgi/*.py -- do not edit *)",
           "From Coq Require Import List String Bool.",
           "Require Import PW.lib.PySlots.",
           "Import ListNotations.", "Open Scope string_scope.", "",
           "Section Gen.", "Variable A : Type.", ""]
    out += defs
    out += ["", "End Gen.", ""]
    out += ["Arguments %s {A}." % n for n in names]
    out += ["", "Definition slot_writers : list (string * string * string) "
            ":=\n  [%s]." % ";\n   ".join(
                "(%s, %s, %s)" % tuple(slit(x) for x in w)
                for w in writers)]
    path = os.path.join(py2v.GEN, "SlotsGen.v")
    new = "\n".join(out) + "\n"
    old = open(path).read() if os.path.exists(path) else None
    if old != new:
        with open(path, "w") as fil:
            fil.write(new)
    return path


def gen_slots():
    try:
        return translate()
    except Exception:
        drop_compiled()
        raise


def register(TARGETS, OUTPUT):
    TARGETS["slots"] = gen_slots
    OUTPUT["slots"] = "SlotsGen.v"


if __name__ == "__main__":
    import sys
    for w in scan(sys.argv[1] if len(sys.argv) > 1 else py2v.REPO):
        print(w)
