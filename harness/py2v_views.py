"""Translator tie for the read-only views and the decorator forms of the
registry (C19):

    poorwsgi/wsgi.py  Application.filters, before, after, defaults, routes,
                      regular_routes, states, errors            (properties)
                      Application.before_request, before_response,
                      after_request, after_response, default, route,
                      regular_route, http_state, error_handler  (decorators)
        ->  coq/gen/ViewsGen.v   (gen_views, gen_view_<name>,
                                  gen_decorators, gen_deco_<name>,
                                  gen_deco_<name>_default_<i>)

Domain-specific and fail closed.  GENERATED FROM THE SYNTAX:
  * for every view property: which private table of self it reads and how
    the result is detached from it (`tuple(T)` / `T.copy()`); the only shape
    accepted is  @property def X(self): [docstring] return <snapshot of T>.
    A property that returns the table itself (`return self.__X`), anything
    computed from it, or from another object, is refused.  The depth of the
    snapshot ("flat": the copy shares nothing mutable with the table;
    "shallow": the per-method inner dicts are shared) is derived from the
    table's type in TABLES.
  * for every decorator: the only shape accepted is
        def D(self, p1, ..., pn = defaults): [docstring]
            def wrapper(fun): [docstring] self.<callee>(args); return fun
            return wrapper
    which callee is called, which decorator parameter / the wrapped function
    stands at which position of the call, the defaults of the decorator's
    signature (constant expressions over poorwsgi.state ints), and that the
    wrapper returns its own argument.  The generated function calls the
    GENERATED callee gen_<callee> of gen/RegistryGen.v (py2v_registry.py).

TRUSTED (the tables below, those imported from py2v_registry.py, nothing
else; no Coq library of its own):
  VIEW_TABLES  attribute of self -> projection of Registry.app, Coq type,
               depth of a one-level copy;
  SNAPSHOTS    `tuple(T)` of a list and `T.copy()` of a dict are new objects
               with the same items (a value of the model);
  VIEWS        the property names, in output order;
  DECOS        parameter types of the decorators, by position (the callee's
               parameter types come from py2v_registry.METHODS and must
               agree); an exception of the callee propagates out of the
               wrapper (Python semantics), the wrapper then returns nothing;
  `@deprecated(...)` only warns; `@property` makes a read-only attribute.
  DROPPED      docstrings, `pass`, calls of log.*.
Parameters are named by position: renaming parameters (also `fun`,
`wrapper`), comments, docstrings, type hints and log calls leave the
generated text unchanged.
"""
import ast
import os

import py2v
from py2v import Unsupported
from py2v_registry import (METHODS, DECORATORS, RESERVED, T_FUN, T_INT,
                           T_URI, T_RSRC, T_CODE, T_EXC, T_OPAQUE, dotted,
                           coq_type)

# ===================================================================== TRUSTED
SOURCE = "poorwsgi/wsgi.py"
CLASS = "Application"

# attribute of self -> (projection, Coq type, what a one-level copy shares)
VIEW_TABLES = {
    "self.__filters": ("a_filters", "list (list Z * (Z * Z))", "flat"),
    "self.__before": ("a_before", "list Z", "flat"),
    "self.__after": ("a_after", "list Z", "flat"),
    "self.__dhandlers": ("a_defaults", "list (Z * Z)", "flat"),
    "self.__handlers": ("a_routes", "list (Z * list (Z * Z))", "shallow"),
    "self.__rhandlers": ("a_regular", "list (Z * list (Z * Z))", "shallow"),
    "self.__shandlers": ("a_states", "list (Z * list (Z * Z))", "shallow"),
    "self.__ehandlers": ("a_errors", "list (Z * list (Z * Z))", "shallow"),
}
# accepted snapshot expressions (with {T} one of the tables above)
SNAPSHOTS = (("tuple", "tuple({T})"), ("copy", "{T}.copy()"))
VIEWS = ["filters", "before", "after", "defaults", "routes",
         "regular_routes", "states", "errors"]
# decorator -> parameter types after self, by position
DECOS = [
    ("before_request", []),          # deprecated
    ("before_response", []),
    ("after_request", []),           # deprecated
    ("after_response", []),
    ("default", [T_INT]),
    ("route", [T_URI, T_INT]),
    ("regular_route", [T_RSRC, T_INT]),
    ("http_state", [T_CODE, T_INT]),
    ("error_handler", [T_EXC, T_INT]),
]
# ================================================================ end TRUSTED


def body_of(fundef):
    """statements without docstring, `pass` and log.* calls"""
    out = []
    for i, s in enumerate(fundef.body):
        if isinstance(s, ast.Pass):
            continue
        if isinstance(s, ast.Expr) and isinstance(s.value, ast.Constant) \
                and isinstance(s.value.value, str) and i == 0:
            continue
        if isinstance(s, ast.Expr) and isinstance(s.value, ast.Call) and \
                (dotted(s.value.func) or "").startswith("log."):
            continue
        out.append(s)
    return out


def plain_params(fundef, first=None):
    args = fundef.args
    names = [x.arg for x in args.args]
    if args.posonlyargs or args.vararg or args.kwarg or args.kwonlyargs:
        raise Unsupported(fundef, "signature")
    if first is not None and names[:1] != [first]:
        raise Unsupported(fundef, "first parameter")
    if len(set(names)) != len(names):
        raise Unsupported(fundef, "signature")
    return names


class Translation:
    def __init__(self):
        self.consts = py2v.state_consts()
        self.tree = py2v.parse(SOURCE)
        classes = [n for n in self.tree.body
                   if isinstance(n, ast.ClassDef) and n.name == CLASS]
        if len(classes) != 1:
            raise Unsupported(self.tree, "class %s" % CLASS)
        self.cls = classes[0]
        self.check_module()
        self.defs = []
        self.views()
        self.decorators()

    def check_module(self):
        imported = set()
        for node in self.tree.body:
            if isinstance(node, ast.ImportFrom) and \
                    node.module == "poorwsgi.state" and node.level == 0:
                imported |= {a.name for a in node.names if a.asname is None}
        self.imported = imported
        for node in ast.walk(self.tree):
            if isinstance(node, ast.Name) and \
                    isinstance(node.ctx, (ast.Store, ast.Del)) and \
                    (node.id in ("tuple", "property", "deprecated") or
                     node.id in self.consts):
                raise Unsupported(node, "rebinding of %s" % node.id)
            if isinstance(node, (ast.FunctionDef, ast.ClassDef)) and \
                    (node.name in ("tuple", "property") or
                     node.name in self.consts):
                raise Unsupported(node, "definition of %s" % node.name)
            if isinstance(node, (ast.Global, ast.Nonlocal)):
                if set(node.names) & ({"tuple", "property"} |
                                      set(self.consts)):
                    raise Unsupported(node, "global declaration")

    def member(self, name):
        hits = [n for n in ast.walk(self.cls)
                if isinstance(n, (ast.FunctionDef, ast.AsyncFunctionDef,
                                  ast.ClassDef)) and n.name == name]
        hits += [n for n in ast.walk(self.cls)
                 if isinstance(n, ast.Name) and n.id == name and
                 isinstance(n.ctx, ast.Store) and n in
                 [t for s in self.cls.body if isinstance(s, ast.Assign)
                  for t in s.targets]]
        if len(hits) != 1 or hits[0] not in self.cls.body or \
                not isinstance(hits[0], ast.FunctionDef):
            raise Unsupported(self.cls, "definition of %s" % name)
        return hits[0]

    # ---------------------------------------------------------------- views
    def views(self):
        rows = []
        for name in VIEWS:
            fun = self.member(name)
            if len(fun.decorator_list) != 1 or \
                    dotted(fun.decorator_list[0]) != "property":
                raise Unsupported(fun, "not a plain property")
            if plain_params(fun) != ["self"] or fun.args.defaults:
                raise Unsupported(fun, "signature")
            body = body_of(fun)
            if len(body) != 1 or not isinstance(body[0], ast.Return) or \
                    body[0].value is None:
                raise Unsupported(fun, "body of a view")
            got = ast.dump(body[0].value)
            hit = None
            for tab in VIEW_TABLES:
                for kind, text in SNAPSHOTS:
                    want = ast.parse(text.format(T=tab), mode="eval").body
                    if ast.dump(want) == got:
                        hit = (tab, kind)
            if hit is None:
                raise Unsupported(body[0], "not a snapshot of a table")
            tab, kind = hit
            proj, typ, depth = VIEW_TABLES[tab]
            rows.append('("%s", "%s", "%s", "%s")' % (name, proj, kind,
                                                      depth))
            self.defs.append("Definition gen_view_%s (a : app) : %s := "
                             "(%s a)." % (name, typ, proj))
        self.defs.insert(0, "(* (property, table read, how the result is "
                         "detached, depth) *)\nDefinition gen_views : list "
                         "(string * string * string * string) :=\n  [%s]."
                         % ";\n   ".join(rows))

    # ----------------------------------------------------------- decorators
    def const(self, node):
        if isinstance(node, ast.Name) and node.id in self.consts and \
                node.id in self.imported:
            return py2v.zl(self.consts[node.id])
        if isinstance(node, ast.Constant) and type(node.value) is int:
            return py2v.zl(node.value)
        if isinstance(node, ast.BinOp) and isinstance(node.op, ast.BitOr):
            return "(Z.lor %s %s)" % (self.const(node.left),
                                      self.const(node.right))
        raise Unsupported(node, "default value")

    def decorators(self):
        methods = dict(METHODS)
        rows = []
        for name, types in DECOS:
            fun = self.member(name)
            for dec in fun.decorator_list:
                if not (isinstance(dec, ast.Call) and
                        dotted(dec.func) in DECORATORS and not dec.keywords
                        and all(isinstance(x, ast.Constant)
                                for x in dec.args)):
                    raise Unsupported(dec, "decorator")
            names = plain_params(fun, "self")
            if len(names) - 1 != len(types) or \
                    set(names[1:]) & (RESERVED | set(self.consts)):
                raise Unsupported(fun, "signature")
            env, params, dterms = {}, [], []
            ndef = len(fun.args.defaults)
            for i, (pname, typ) in enumerate(zip(names[1:], types), 1):
                var = "x%d" % i
                env[pname] = (var, typ)
                params.append("(%s : %s)" % (var, coq_type(typ)))
                k = i - 1 - (len(types) - ndef)
                if k >= 0:
                    if typ != T_INT:
                        raise Unsupported(fun, "default of a non-int")
                    dterm = "gen_deco_%s_default_%d" % (name, i)
                    self.defs.append("Definition %s : Z := %s." % (
                        dterm, self.const(fun.args.defaults[k])))
                    dterms.append(dterm)
            body = body_of(fun)
            if len(body) != 2 or not isinstance(body[0], ast.FunctionDef) \
                    or not isinstance(body[1], ast.Return) or \
                    not isinstance(body[1].value, ast.Name) or \
                    body[1].value.id != body[0].name:
                raise Unsupported(fun, "body of a decorator")
            wrap = body[0]
            wnames = plain_params(wrap)
            if len(wnames) != 1 or wrap.args.defaults or \
                    wrap.decorator_list or \
                    wrap.name in names or wnames[0] in (RESERVED |
                                                       set(self.consts)):
                raise Unsupported(wrap, "wrapper")
            wenv = dict(env)
            wenv[wnames[0]] = ("f", T_FUN)
            wbody = body_of(wrap)
            if len(wbody) != 2 or not isinstance(wbody[0], ast.Expr) or \
                    not isinstance(wbody[0].value, ast.Call) or \
                    not isinstance(wbody[1], ast.Return) or \
                    not isinstance(wbody[1].value, ast.Name) or \
                    wbody[1].value.id != wnames[0]:
                raise Unsupported(wrap, "body of the wrapper")
            call = wbody[0].value
            target = dotted(call.func) or ""
            callee = target[len("self."):]
            if not target.startswith("self.") or callee not in methods or \
                    call.keywords:
                raise Unsupported(call, "call of the wrapper")
            ctypes = methods[callee]
            if len(call.args) > len(ctypes) or \
                    any(t != T_OPAQUE for t in ctypes[len(call.args):]):
                raise Unsupported(call, "arguments")
            args = []
            for arg, ctyp in zip(call.args, ctypes):
                if not isinstance(arg, ast.Name) or arg.id not in wenv:
                    raise Unsupported(arg, "argument")
                var, typ = wenv[arg.id]
                if typ != ctyp:
                    raise Unsupported(arg, "argument type")
                args.append(var)
            rows.append('("%s", "%s")' % (name, callee))
            self.defs.append(
                "Definition gen_deco_%s (a : app) %s(f : Z) : app * outcome "
                "* option Z :=\n"
                "  (match (gen_%s a%s) with\n"
                "    | (a1, Raised v1) => (a1, Raised v1, None)\n"
                "    | (a1, _) => (a1, Done, Some f)\n"
                "    end)." % (name, "".join(p + " " for p in params),
                               callee, "".join(" " + x for x in args)))
        self.defs.append("(* (decorator, method its wrapper calls) *)\n"
                         "Definition gen_decorators : list (string * string)"
                         " :=\n  [%s]." % ";\n   ".join(rows))

    def text(self):
        out = ["(* GENERATED by harness/py2v_views.py from poorwsgi/wsgi.py "
               "Application.%s (properties) and Application.%s (decorators) "
               "-- do not edit *)" % (", ".join(VIEWS),
                                      ", ".join(n for n, _ in DECOS)),
               "From Coq Require Import ZArith List Bool String.",
               "Require Import PW.lib.Val PW.model.Registry "
               "PW.lib.PyRegistry PW.gen.RegistryGen.",
               "Import ListNotations.", "Open Scope string_scope.",
               "Open Scope list_scope.", "Open Scope Z_scope.", ""]
        return "\n".join(out) + "\n" + "\n\n".join(self.defs) + "\n"


def drop_compiled():
    """py2v.regenerate removes gen/ViewsGen.v when the translation is
    refused; the compiled files must go too, or an old ViewsGen.vo would
    keep the dependent theorems compiling"""
    coq = os.path.dirname(py2v.GEN)
    for stem in (os.path.join(py2v.GEN, "ViewsGen"),
                 os.path.join(coq, "proofs", "ViewsGenEq")):
        for ext in (".vo", ".vos", ".vok", ".glob"):
            if os.path.exists(stem + ext):
                os.unlink(stem + ext)


def gen_views():
    try:
        text = Translation().text()
    except Exception:
        drop_compiled()
        raise
    os.makedirs(py2v.GEN, exist_ok=True)
    path = os.path.join(py2v.GEN, "ViewsGen.v")
    old = open(path).read() if os.path.exists(path) else None
    if old != text:
        with open(path, "w") as f:
            f.write(text)
    return path


def register(TARGETS, OUTPUT):
    TARGETS["views"] = gen_views
    OUTPUT["views"] = "ViewsGen.v"
