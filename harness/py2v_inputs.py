"""Plugin: census of the request inputs the framework consults ->
coq/gen/InputsGen.v (properties C02, C12, C20).

  keyed_reads        : (function, receiver, how, key) for every place in
                       wsgi.py and request.py that looks a string literal up
                       in something: `x['K']`, `x.get('K')` (also pop,
                       setdefault, getfirst, getlist, getvalue, get_all) and
                       `'K' in x` — receiver as source text.  The
                       application's own configuration dictionary
                       (self.__config) is left out.
  dispatch_footprint : the functions that run between the arrival of a
                       request and the choice of its endpoint: the methods
                       of Application reachable from __call__/__request__
                       through self, the constructors of Request /
                       SimpleRequest, and every property or method of the
                       request object those methods use (closure over
                       self.<name> inside the request classes).

coq/props/C02.v proves that every keyed read inside the footprint is one of
the inputs the model's dispatch depends on (model/Inputs.v:
allowed_dispatch_reads) — method, path, the settings and their overrides,
the body headers — so no other request header or environment variable can
influence which endpoint runs; coq/props/C20.v proves that the poor_* /
uwsgi.* / poor.Version keys are consulted exactly where the model of the
debug override says (allowed_override_reads)."""
import ast
import os

import py2v

FILES = ("wsgi.py", "request.py")
LOOKUPS = {"get", "pop", "setdefault", "getfirst", "getlist", "getvalue",
           "get_all"}
REQUEST_ENTRIES = ("__call__", "__request__", "__profile_request__")
REQ_NAMES = {"req", "request"}
SKIP_RECEIVERS = {"self.__config"}


def keyed_reads(repo):
    out = []
    for fname in FILES:
        mod = fname[:-3]
        tree = ast.parse(open(os.path.join(repo, "poorwsgi", fname)).read())

        def visit(node, stack):
            for child in ast.iter_child_nodes(node):
                if isinstance(child, (ast.ClassDef, ast.FunctionDef,
                                      ast.AsyncFunctionDef)):
                    visit(child, stack + [child.name])
                    continue
                qual = "%s.%s" % (mod, ".".join(stack)) if stack else mod
                key = None
                if isinstance(child, ast.Subscript) and \
                        isinstance(child.slice, ast.Constant) and \
                        isinstance(child.slice.value, str):
                    key = (ast.unparse(child.value), "[]", child.slice.value)
                if isinstance(child, ast.Call) and \
                        isinstance(child.func, ast.Attribute) and \
                        child.func.attr in LOOKUPS and child.args and \
                        isinstance(child.args[0], ast.Constant) and \
                        isinstance(child.args[0].value, str):
                    key = (ast.unparse(child.func.value), child.func.attr,
                           child.args[0].value)
                if isinstance(child, ast.Compare) and len(child.ops) == 1 \
                        and isinstance(child.ops[0], (ast.In, ast.NotIn)) \
                        and isinstance(child.left, ast.Constant) and \
                        isinstance(child.left.value, str):
                    key = (ast.unparse(child.comparators[0]), "in",
                           child.left.value)
                if key and key[0] not in SKIP_RECEIVERS:
                    out.append((qual,) + key)
                visit(child, stack)
        visit(tree, [])
    return sorted(set(out))


def footprint(repo):
    wsgi = ast.parse(open(os.path.join(repo, "poorwsgi", "wsgi.py")).read())
    reqm = ast.parse(open(os.path.join(repo, "poorwsgi",
                                       "request.py")).read())
    app = next(n for n in wsgi.body
               if isinstance(n, ast.ClassDef) and n.name == "Application")
    methods = {}
    for meth in app.body:
        if isinstance(meth, (ast.FunctionDef, ast.AsyncFunctionDef)):
            methods.setdefault(meth.name, []).append(meth)
    todo = [e for e in REQUEST_ENTRIES if e in methods]
    seen = []
    used = set()
    while todo:
        name = todo.pop()
        if name in seen:
            continue
        seen.append(name)
        for fun in methods[name]:
            for sub in ast.walk(fun):
                if isinstance(sub, ast.Attribute) and \
                        isinstance(sub.value, ast.Name):
                    if sub.value.id == "self" and sub.attr in methods and \
                            sub.attr not in seen:
                        todo.append(sub.attr)
                    if sub.value.id in REQ_NAMES:
                        used.add(sub.attr)
    out = ["wsgi.Application.%s" % n for n in seen]
    # the request classes: SimpleRequest and its subclass Request
    classes = {n.name: n for n in reqm.body if isinstance(n, ast.ClassDef)
               and n.name in ("SimpleRequest", "Request")}
    table = {}
    for cname, cls in classes.items():
        for meth in cls.body:
            if isinstance(meth, (ast.FunctionDef, ast.AsyncFunctionDef)):
                table.setdefault(meth.name, []).append((cname, meth))
    todo = ["__init__"] + sorted(used)
    rseen = []
    while todo:
        name = todo.pop()
        if name in rseen or name not in table:
            continue
        rseen.append(name)
        for _, fun in table[name]:
            for sub in ast.walk(fun):
                if isinstance(sub, ast.Attribute) and \
                        isinstance(sub.value, ast.Name) and \
                        sub.value.id == "self" and sub.attr in table and \
                        sub.attr not in rseen:
                    todo.append(sub.attr)
    for name in rseen:
        for cname, _ in table[name]:
            out.append("request.%s.%s" % (cname, name))
    return sorted(set(out))


def slit(text):
    return '"%s"' % text.replace('"', '""')


def gen_inputs():
    reads = keyed_reads(py2v.REPO)
    foot = footprint(py2v.REPO)
    out = ["(* GENERATED by harness/py2v_inputs.py from poorwsgi/wsgi.py, "
           "request.py -- do not edit *)",
           "From Coq Require Import List String.",
           "Import ListNotations.", "Open Scope string_scope.", "",
           "Definition keyed_reads : list (string * string * string * "
           "string) :=\n  [%s]." % ";\n   ".join(
               "(%s, %s, %s, %s)" % tuple(slit(x) for x in r)
               for r in reads),
           "Definition dispatch_footprint : list string :=\n  [%s]." %
           ";\n   ".join(slit(f) for f in foot)]
    path = os.path.join(py2v.GEN, "InputsGen.v")
    text = "\n".join(out) + "\n"
    old = open(path).read() if os.path.exists(path) else None
    if old != text:
        with open(path, "w") as fil:
            fil.write(text)
    return path


def register(TARGETS, OUTPUT):
    TARGETS["inputs"] = gen_inputs
    OUTPUT["inputs"] = "InputsGen.v"


if __name__ == "__main__":
    import sys
    repo = sys.argv[1] if len(sys.argv) > 1 else py2v.REPO
    foot = footprint(repo)
    for f in foot:
        print("FOOT", f)
    for r in keyed_reads(repo):
        print("READ*" if r[0] in foot else "READ ", r)
