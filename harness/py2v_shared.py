"""Plugin: a syntactic census of process-wide mutable objects in poorwsgi/*.py
and of the places that write them or let them escape into per-application /
per-request state -> coq/gen/SharedGen.v (property C17).

It complements the dynamic census of harness/checks/c17.py, which only sees
the paths a run executes.  The generated file lists

  shared_objects : module-level and class-level names bound to a mutable
                   display / constructor call, plus the tables imported from
                   other modules (ours, and http.client.responses);
  shared_writes  : (function, object, how) for every statement inside a
                   function that stores into such an object, calls a mutating
                   method on it, rebinds it through `global`, or does so
                   through a local alias or through `self.X` where X is a
                   class-level mutable never rebound in `__init__`;
  shared_escapes : (function, object, how) where such an object (or a shallow
                   copy of one whose values are mutable themselves) is stored
                   into an attribute or an item, i.e. becomes reachable from
                   an instance.

  request_time_methods / instance_writes : the methods of Application
                   reachable from __call__ / __request__ through self, and
                   every store or mutating call in them whose target is part
                   of the application object (self.X..., also through local
                   aliases, loop variables and dictionary views).

Objects also include mutable default arguments, module- or class-level
instances of the package's own classes and memoising decorators (each call
of a memoised function counts as a write).

coq/props/C17.v proves that every entry is one of the few allowed ones of
model/SharedState.v (import-time filling of default_states, registration of
the application name).  The scan is an under-approximation of all possible
writes (aliases through calls are not followed) — the dynamic census stays
the other half."""
import ast
import os

import py2v

MUT_CALLS = {"dict", "list", "set", "OrderedDict", "defaultdict",
             "bytearray", "deque", "Counter", "sorted"}
PKG_CLASSES = set()     # classes defined in poorwsgi/*.py (filled by scan)
MEMO_DECORATORS = {"lru_cache", "cache"}
VIEWS = {"get", "items", "values", "keys"}
REQUEST_ENTRIES = ("__call__", "__request__", "__profile_request__")
MUT_METHODS = {"append", "add", "update", "setdefault", "pop", "popitem",
               "clear", "extend", "insert", "remove", "discard", "sort",
               "reverse", "move_to_end", "appendleft"}
COPIES = {"dict", "list", "set", "tuple", "OrderedDict", "copy"}
STDLIB_TABLES = {("http.client", "responses")}


def is_mutable_expr(node):
    if isinstance(node, (ast.Dict, ast.List, ast.Set, ast.ListComp,
                         ast.DictComp, ast.SetComp)):
        return True
    if isinstance(node, ast.Call):
        fun = node.func
        name = fun.id if isinstance(fun, ast.Name) else \
            fun.attr if isinstance(fun, ast.Attribute) else None
        # an instance of one of the package's own classes is mutable too
        return name in MUT_CALLS or name in PKG_CLASSES
    return False


def has_nested_mutable(node):
    if isinstance(node, ast.Dict):
        return any(is_mutable_expr(v) for v in node.values)
    if isinstance(node, (ast.List, ast.Set)):
        return any(is_mutable_expr(v) for v in node.elts)
    return False


def root_name(node):
    while isinstance(node, (ast.Subscript, ast.Attribute)):
        node = node.value
    return node.id if isinstance(node, ast.Name) else None


def self_attr(node):
    """'X' for an expression rooted at self.X (self.X, self.X[k], ...)"""
    prev = None
    while isinstance(node, (ast.Subscript, ast.Attribute)):
        prev, node = node, node.value
    if isinstance(node, ast.Name) and node.id == "self" and \
            isinstance(prev, ast.Attribute):
        return prev.attr
    return None


def mangle(cls, attr):
    if attr.startswith("__") and not attr.endswith("__"):
        return "_%s%s" % (cls.lstrip("_"), attr)
    return attr


def scan(repo):
    mods = {}
    pkg = os.path.join(repo, "poorwsgi")
    for name in sorted(os.listdir(pkg)):
        if name.endswith(".py"):
            mods[name[:-3]] = ast.parse(open(os.path.join(pkg, name)).read())
    PKG_CLASSES.clear()
    for tree in mods.values():
        PKG_CLASSES.update(n.name for n in ast.walk(tree)
                           if isinstance(n, ast.ClassDef))
    shared, nested = {}, set()
    defaults = []
    for mod, tree in mods.items():
        def note(key, value):
            shared[key] = "module" if "." not in key[1] else "class"
            if has_nested_mutable(value):
                nested.add(key)
        for st in tree.body:
            targets, value = [], None
            if isinstance(st, ast.Assign):
                targets, value = st.targets, st.value
            elif isinstance(st, ast.AnnAssign) and st.value is not None:
                targets, value = [st.target], st.value
            for tgt in targets:
                if isinstance(tgt, ast.Name) and is_mutable_expr(value):
                    note((mod, tgt.id), value)
            if isinstance(st, ast.ClassDef):
                for cst in st.body:
                    targets, value = [], None
                    if isinstance(cst, ast.Assign):
                        targets, value = cst.targets, cst.value
                    elif isinstance(cst, ast.AnnAssign) and \
                            cst.value is not None:
                        targets, value = [cst.target], cst.value
                    for tgt in targets:
                        if isinstance(tgt, ast.Name) and \
                                is_mutable_expr(value):
                            note((mod, "%s.%s" % (st.name, tgt.id)), value)
    imports = {}
    for mod, tree in mods.items():
        for st in ast.walk(tree):
            if isinstance(st, ast.ImportFrom) and st.module:
                src = st.module.split(".")[-1] \
                    if st.module.startswith("poorwsgi") else st.module
                for alias in st.names:
                    if (src, alias.name) in shared or \
                            (st.module, alias.name) in STDLIB_TABLES:
                        imports[(mod, alias.asname or alias.name)] = \
                            "%s.%s" % (src, alias.name)
    writes, escapes = [], []
    for mod, tree in mods.items():
        glob = {n: "%s.%s" % (mod, n) for (m, n) in shared
                if m == mod and "." not in n}
        glob.update({n: full for (m, n), full in imports.items()
                     if m == mod})
        classes = {}
        for (m, n) in shared:
            if m == mod and "." in n:
                cls, attr = n.split(".", 1)
                classes.setdefault(cls, {})[attr] = "%s.%s" % (mod, n)

        def visit(node, stack):
            for child in ast.iter_child_nodes(node):
                if isinstance(child, ast.ClassDef):
                    visit(child, stack + [child.name])
                elif isinstance(child, (ast.FunctionDef,
                                        ast.AsyncFunctionDef)):
                    function(child, stack + [child.name])
                    visit(child, stack + [child.name])
                else:
                    visit(child, stack)

        def function(fun, stack):
            qual = "%s.%s" % (mod, ".".join(stack))
            cls = stack[-2] if len(stack) >= 2 else None
            bound = {a.arg for a in fun.args.args + fun.args.kwonlyargs}
            globs, alias = set(), {}
            own = list(ast.walk(fun))
            for sub in own:
                if isinstance(sub, ast.Global):
                    globs |= set(sub.names)
            for sub in own:
                if isinstance(sub, ast.Assign):
                    for tgt in sub.targets:
                        if isinstance(tgt, ast.Name) and \
                                tgt.id not in globs:
                            if isinstance(sub.value, ast.Name) and \
                                    sub.value.id in glob and \
                                    sub.value.id not in bound:
                                alias[tgt.id] = glob[sub.value.id]
                            bound.add(tgt.id)
            visible = {n: full for n, full in glob.items()
                       if n not in bound or n in globs}
            visible.update(alias)
            # a mutable default value is one object for all calls
            pos = fun.args.posonlyargs + fun.args.args
            pairs = list(zip(pos[len(pos) - len(fun.args.defaults):],
                             fun.args.defaults)) + \
                [(a, d) for a, d in zip(fun.args.kwonlyargs,
                                        fun.args.kw_defaults) if d]
            for arg, dflt in pairs:
                if is_mutable_expr(dflt):
                    full = "%s(%s)" % (qual, arg.arg)
                    visible[arg.arg] = full
                    defaults.append(full)
            # a memoising decorator keeps arguments and results of every
            # call: a write whenever the function runs
            for deco in fun.decorator_list:
                dnode = deco.func if isinstance(deco, ast.Call) else deco
                dname = dnode.id if isinstance(dnode, ast.Name) else \
                    dnode.attr if isinstance(dnode, ast.Attribute) else None
                if dname in MEMO_DECORATORS:
                    defaults.append("%s(memo)" % qual)
                    writes.append((qual, "%s(memo)" % qual, "memo",
                                   fun.lineno))
            # class-level mutables reachable as ClassName.attr or self.attr
            shadowed = set()
            if cls in classes:
                for tree_cls in ast.walk(tree):
                    if isinstance(tree_cls, ast.ClassDef) and \
                            tree_cls.name == cls:
                        for meth in tree_cls.body:
                            if isinstance(meth, ast.FunctionDef) and \
                                    meth.name == "__init__":
                                for sub in ast.walk(meth):
                                    if isinstance(sub, ast.Assign):
                                        for tgt in sub.targets:
                                            if isinstance(
                                                    tgt, ast.Attribute) and \
                                                    root_name(tgt) == "self":
                                                shadowed.add(tgt.attr)

            def target_object(expr):
                """full name of the shared object a store through expr
                reaches, or None"""
                root = root_name(expr)
                if root in visible and not isinstance(expr, ast.Name):
                    return visible[root]
                if root in classes and isinstance(expr, (ast.Attribute,
                                                         ast.Subscript)):
                    node = expr
                    while isinstance(node, (ast.Subscript, ast.Attribute)):
                        if isinstance(node, ast.Attribute) and \
                                isinstance(node.value, ast.Name) and \
                                node.attr in classes[root]:
                            return classes[root][node.attr]
                        node = node.value
                attr = self_attr(expr)
                if attr and cls in classes and attr in classes[cls] and \
                        attr not in shadowed and \
                        not (isinstance(expr, ast.Attribute)
                             and expr.attr == attr
                             and isinstance(expr.value, ast.Name)):
                    return classes[cls][attr]
                return None

            def method_object(expr):
                root = root_name(expr)
                if isinstance(expr, ast.Name) and root in visible:
                    return visible[root]
                return target_object(expr) or (
                    classes[cls][self_attr(expr)]
                    if cls in classes and self_attr(expr) in classes[cls]
                    and self_attr(expr) not in shadowed
                    and isinstance(expr, ast.Attribute) else None)
            for sub in own:
                if isinstance(sub, (ast.Assign, ast.AugAssign, ast.Delete)):
                    tgts = [sub.target] if isinstance(sub, ast.AugAssign) \
                        else sub.targets
                    for tgt in tgts:
                        obj = target_object(tgt)
                        if obj:
                            writes.append((qual, obj, "store", sub.lineno))
                        if isinstance(tgt, ast.Name) and tgt.id in globs \
                                and tgt.id in glob:
                            writes.append((qual, glob[tgt.id],
                                           "global-rebind", sub.lineno))
                    if isinstance(sub, ast.Assign) and any(
                            isinstance(t, (ast.Attribute, ast.Subscript))
                            for t in sub.targets):
                        val = sub.value
                        if isinstance(val, ast.Name) and val.id in visible:
                            escapes.append((qual, visible[val.id], "alias",
                                            sub.lineno))
                        if isinstance(val, ast.Attribute) and \
                                isinstance(val.value, ast.Name):
                            owner = cls if val.value.id == "self" \
                                else val.value.id
                            if owner in classes and \
                                    val.attr in classes[owner] and not (
                                        val.value.id == "self"
                                        and val.attr in shadowed):
                                escapes.append((qual,
                                                classes[owner][val.attr],
                                                "alias", sub.lineno))
                        if isinstance(val, ast.Call):
                            fname = val.func.id if isinstance(
                                val.func, ast.Name) else val.func.attr \
                                if isinstance(val.func, ast.Attribute) \
                                else None
                            inner = val.args[0] if val.args else (
                                val.func.value if isinstance(
                                    val.func, ast.Attribute) else None)
                            if fname in COPIES and \
                                    isinstance(inner, ast.Name) and \
                                    inner.id in visible:
                                full = visible[inner.id]
                                key = tuple(full.split(".", 1))
                                if key in nested:
                                    escapes.append((qual, full,
                                                    "shallow-copy",
                                                    sub.lineno))
                # raising a shared exception object hands it to every
                # handler up the stack (and accumulates its traceback)
                if isinstance(sub, ast.Raise) and \
                        isinstance(sub.exc, ast.Name) and \
                        sub.exc.id in visible:
                    escapes.append((qual, visible[sub.exc.id], "raise",
                                    sub.lineno))
                # returning or yielding one hands it to the caller
                if isinstance(sub, (ast.Return, ast.Yield)) and \
                        isinstance(sub.value, ast.Name) and \
                        sub.value.id in visible and sub.value.id not in \
                        bound:
                    escapes.append((qual, visible[sub.value.id], "return",
                                    sub.lineno))
                if isinstance(sub, ast.Call) and \
                        isinstance(sub.func, ast.Attribute) and \
                        sub.func.attr in MUT_METHODS:
                    obj = method_object(sub.func.value)
                    if obj:
                        writes.append((qual, obj, sub.func.attr,
                                       sub.lineno))
        visit(tree, [])
    objects = sorted("%s.%s" % k for k in shared) + \
        sorted(set(imports.values()) - {"%s.%s" % k for k in shared}) + \
        sorted(set(defaults))
    return objects, sorted(set(writes)), sorted(set(escapes))


def rooted(expr, names):
    """'self.X' (or what a local alias stands for) when expr is a part of
    the application object: an attribute / item / dictionary view chain
    that starts at self or at an alias of such a chain"""
    steps, first_attr, node = 0, None, expr
    while True:
        if isinstance(node, ast.Attribute):
            first_attr, node, steps = node.attr, node.value, steps + 1
        elif isinstance(node, ast.Subscript):
            node, steps = node.value, steps + 1
        elif isinstance(node, ast.Call) and \
                isinstance(node.func, ast.Attribute) and \
                node.func.attr in VIEWS:
            node, steps = node.func.value, steps + 1
        else:
            break
    if isinstance(node, ast.Name):
        if node.id == "self":
            return "self." + first_attr if steps and first_attr else None
        return names.get(node.id)
    return None


def flat(target):
    if isinstance(target, (ast.Tuple, ast.List)):
        for elt in target.elts:
            yield from flat(elt)
    else:
        yield target


def scan_instance(repo, clsname="Application"):
    """(methods that run for a request, writes through self inside them):
    the closure of __call__/__request__ over self.<method> references, and
    every store / mutating call whose target is part of the application
    object, directly or through a local alias or loop variable"""
    tree = ast.parse(open(os.path.join(repo, "poorwsgi", "wsgi.py")).read())
    cls = next(n for n in tree.body
               if isinstance(n, ast.ClassDef) and n.name == clsname)
    methods = {m.name: m for m in cls.body
               if isinstance(m, (ast.FunctionDef, ast.AsyncFunctionDef))}
    todo = [e for e in REQUEST_ENTRIES if e in methods]
    seen = []
    while todo:
        name = todo.pop()
        if name in seen:
            continue
        seen.append(name)
        for sub in ast.walk(methods[name]):
            if isinstance(sub, ast.Attribute) and \
                    isinstance(sub.value, ast.Name) and \
                    sub.value.id == "self" and sub.attr in methods and \
                    sub.attr not in seen:
                todo.append(sub.attr)
    out = []
    for name in sorted(seen):
        fun = methods[name]
        qual = "wsgi.%s.%s" % (clsname, name)
        names = {}
        for _ in range(3):          # aliases of aliases
            for sub in ast.walk(fun):
                if isinstance(sub, ast.Assign):
                    root = rooted(sub.value, names)
                    if root:
                        for tgt in sub.targets:
                            for elt in flat(tgt):
                                if isinstance(elt, ast.Name):
                                    names[elt.id] = root
                elif isinstance(sub, (ast.For, ast.comprehension)):
                    root = rooted(sub.iter, names)
                    if root:
                        for elt in flat(sub.target):
                            if isinstance(elt, ast.Name):
                                names[elt.id] = root
                elif isinstance(sub, ast.NamedExpr):
                    root = rooted(sub.value, names)
                    if root and isinstance(sub.target, ast.Name):
                        names[sub.target.id] = root
        for sub in ast.walk(fun):
            tgts = []
            if isinstance(sub, (ast.Assign, ast.Delete)):
                tgts = [e for t in sub.targets for e in flat(t)]
            elif isinstance(sub, (ast.AugAssign, ast.AnnAssign)):
                tgts = [sub.target]
            for tgt in tgts:
                if isinstance(tgt, (ast.Attribute, ast.Subscript)):
                    root = rooted(tgt, names)
                    if root:
                        out.append((qual, root, "store", sub.lineno))
            if isinstance(sub, ast.Call):
                fn = sub.func
                if isinstance(fn, ast.Attribute) and fn.attr in MUT_METHODS:
                    root = rooted(fn.value, names)
                    if root:
                        out.append((qual, root, fn.attr, sub.lineno))
                if isinstance(fn, ast.Name) and \
                        fn.id in ("setattr", "delattr") and sub.args and (
                            rooted(sub.args[0], names) or (
                                isinstance(sub.args[0], ast.Name)
                                and sub.args[0].id == "self")):
                    out.append((qual, "self", fn.id, sub.lineno))
    return ["wsgi.%s.%s" % (clsname, n) for n in sorted(seen)], \
        sorted(set(out))


def slit(text):
    return '"%s"' % text.replace('"', '""')


def gen_shared():
    objects, writes, escapes = scan(py2v.REPO)
    rmethods, iwrites = scan_instance(py2v.REPO)
    out = ["(* GENERATED by harness/py2v_shared.py from poorwsgi/*.py -- do "
           "not edit *)",
           "From Coq Require Import List String.",
           "Import ListNotations.", "Open Scope string_scope.", "",
           "Definition shared_objects : list string :=\n  [%s]." %
           ";\n   ".join(slit(o) for o in objects),
           "Definition shared_writes : list (string * string * string) :="
           "\n  [%s]." % ";\n   ".join(
               "(%s, %s, %s)" % (slit(f), slit(o), slit(h))
               for f, o, h in sorted({w[:3] for w in writes})),
           "Definition shared_escapes : list (string * string * string) :="
           "\n  [%s]." % ";\n   ".join(
               "(%s, %s, %s)" % (slit(f), slit(o), slit(h))
               for f, o, h in sorted({e[:3] for e in escapes})),
           "(* methods of Application that run while a request is answered, "
           "and\n   what they store into the application object *)",
           "Definition request_time_methods : list string :=\n  [%s]." %
           ";\n   ".join(slit(m) for m in rmethods),
           "Definition instance_writes : list (string * string * string) :="
           "\n  [%s]." % ";\n   ".join(
               "(%s, %s, %s)" % (slit(f), slit(o), slit(h))
               for f, o, h in sorted({w[:3] for w in iwrites}))]
    path = os.path.join(py2v.GEN, "SharedGen.v")
    text = "\n".join(out) + "\n"
    old = open(path).read() if os.path.exists(path) else None
    if old != text:
        with open(path, "w") as fil:
            fil.write(text)
    return path


def register(TARGETS, OUTPUT):
    TARGETS["shared"] = gen_shared
    OUTPUT["shared"] = "SharedGen.v"


if __name__ == "__main__":
    import sys
    objs, wr, es = scan(sys.argv[1] if len(sys.argv) > 1 else py2v.REPO)
    for o in objs:
        print("OBJECT", o)
    for w in wr:
        print("WRITE ", *w)
    for e in es:
        print("ESCAPE", *e)
    meths, iw = scan_instance(sys.argv[1] if len(sys.argv) > 1
                              else py2v.REPO)
    print("REQUEST-TIME", *meths)
    for w in iw:
        print("IWRITE", *w)
