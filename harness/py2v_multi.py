"""Translator plugin: poorwsgi/fieldstorage.py
FieldStorageParser._skip_to_boundary, skip_lines, read_multi
-> coq/gen/MultiGen.v (proved equal to model/Multipart.v's skip_to_boundary,
read_hdr, part_loop in proofs/MultiGenEq.v; theorems C08_generated_*).

Reuses harness/py2v_multipart.py (MultipartUnit over lib/Py.v and
lib/PyMultipart.v: abstract input object `St` read through the Section
variable `rl`, explicit fuel, OutOfFuel) and adds, with the semantics of
lib/PyMulti.v:

  * `x = self.input.readline()` without argument = `readline(-1)`;
  * `x.strip()` (no argument) on bytes;
  * `valid_boundary(e)`: a call of gen_valid_boundary of gen/MultipartGen.v
    (the translation of the module-level function, tied by the multipart
    plugin);
  * exception messages are not modelled: the two-statement shape
        NAME = <f-string or str constant> ; raise Cls(NAME)
    and `raise Cls(<f-string or str constant>)` become `Err (Raised "Cls"
    PNone)`; the message expression is not evaluated (an f-string only calls
    repr/str/format of its operands);
  * a method that falls off its end or executes a bare `return` returns the
    tuple of the self fields it may assign, and the input object;
  * nested loops: a loop inside a loop body runs on the fuel `fuel0` the
    method was started with (model: part_loop fuel fuel0), the outer loop is
    structural on `fuel`;
  * method calls as statements `self._skip_to_boundary()`, `self.skip_lines()`
    = calls of the generated functions, the assigned fields are read back
    from the returned tuple by position;
  * the objects of read_multi (see OBJECTS below): FeedParser() / .feed(e) /
    .close() through the Section variable FP (text -> headers object),
    `K in headers` / `del headers[K]` with email.message.Message semantics
    (case-insensitive names, lib/PyMulti.v), the sub-parser
    `self.__class__(...)` + `.parse()` through the Section variable PARSE
    (constructor arguments bound to the parameter NAMES of __init__ as the
    source declares them, then listed in the order CTOR_PARAMS), its
    attributes `.done` / `.bytes_read` and `part.list`, `_list.append(part)`.

Dropped by name: docstrings and `log.*(...)` statements.  Everything else
raises py2v.Unsupported.
"""
import ast
import os

import py2v
from py2v import Unsupported, mangle
import py2v_multipart as mp

SOURCE = mp.SOURCE
CLASS = mp.CLASS
OUT = "MultiGen.v"
GENEQ = "proofs/MultiGenEq"

SKIP_FIELDS = ["self.innerboundary", "self.input", "self.bytes_read"]
SKIP_OUT = ["self.bytes_read"]
LINES_FIELDS = ["self.outerboundary", "self.done", "self.input",
                "self.bytes_read"]
LINES_OUT = ["self.done", "self.bytes_read"]
MULTI_FIELDS = ["self.innerboundary", "self.input", "self.bytes_read",
                "self.max_num_fields", "self.encoding", "self.errors",
                "self.limit", "self.keep_blank_values", "self.strict_parsing",
                "self.separator", "self.file_callback", "self.length",
                "self.outerboundary", "self.done"]
MULTI_OUT = ["self.done", "self.bytes_read"]
# OBJECTS: the sub-parser's constructor; its first parameter must receive
# self.input (the sub-parser reads from the same object), the others are
# listed in this order in the PTuple handed to PARSE
CTOR_INPUT = "input_"
CTOR_PARAMS = ["headers", "outerboundary", "keep_blank_values",
               "strict_parsing", "limit", "encoding", "errors",
               "max_num_fields", "separator", "file_callback"]
SECTION_VARS = [("St", "Type"), ("rl", "Z -> St -> list Z * St"),
                ("D", "list Z -> list Z"), ("FP", "list Z -> res pv"),
                ("PARSE", "nat -> pv -> St -> res (pv * pv * pv * St)")]


def is_message(node):
    """a str constant or an f-string"""
    return isinstance(node, ast.JoinedStr) or (
        isinstance(node, ast.Constant) and isinstance(node.value, str))


def raise_class(st, name=None):
    """`raise Cls(NAME)` (name given) or `raise Cls(<message>)`"""
    if not isinstance(st, ast.Raise) or st.cause is not None or \
            not isinstance(st.exc, ast.Call):
        return None
    call = st.exc
    if not isinstance(call.func, ast.Name) or call.keywords or \
            len(call.args) != 1:
        return None
    arg = call.args[0]
    if name is not None:
        ok = isinstance(arg, ast.Name) and arg.id == name
    else:
        ok = is_message(arg)
    return call.func.id if ok else None


def method_call(node, attr=None):
    """NAME.attr(...) -> NAME (None otherwise)"""
    if isinstance(node, ast.Call) and isinstance(node.func, ast.Attribute) \
            and isinstance(node.func.value, ast.Name) and \
            (attr is None or node.func.attr == attr):
        return node.func.value.id
    return None


class MultiUnit(mp.MultipartUnit):
    def __init__(self):
        super().__init__()
        self.methods = {}   # dotted callee -> (gen name, in fields, out)
        self.ctor = None    # the class's __init__ FunctionDef

    # ------------------------------------------------------------ expressions
    def expr(self, cx, env, node, k):
        if isinstance(node, ast.IfExp):
            join, arg = cx.fresh("j"), cx.fresh("b")
            return "let %s := fun (%s : pv) => (%s) in\n%s" % (
                join, arg, k(arg), self.expr(
                    cx, env, node.test, lambda c:
                    "if truthy %s then (%s) else (%s)" % (
                        c, self.expr(cx, env, node.body,
                                     lambda a: "%s %s" % (join, a)),
                        self.expr(cx, env, node.orelse,
                                  lambda a: "%s %s" % (join, a)))))
        if isinstance(node, ast.Compare) and len(node.ops) == 1 and \
                isinstance(node.ops[0], (ast.In, ast.NotIn)):
            right = node.comparators[0]
            if isinstance(node.ops[0], ast.In) and \
                    isinstance(right, ast.Name) and right.id in cx.messages:
                return self.expr(cx, env, node.left, lambda a: self.expr(
                    cx, env, right, lambda h: self.bindk(
                        cx, "pmsg_contains %s %s" % (h, a), k)))
            raise Unsupported(node, "`in` on something else than a Message")
        if isinstance(node, ast.Attribute) and node.attr == "list" and \
                isinstance(node.value, ast.Name) and node.value.id in cx.parts:
            return self.expr(cx, env, node.value, lambda a: self.bindk(
                cx, "ppart_list %s" % a, k))
        return super().expr(cx, env, node, k)

    def call(self, cx, env, node, k):
        fn = node.func
        fname = self.dotted(fn)
        plain = not node.keywords and not any(
            isinstance(a, ast.Starred) for a in node.args)
        if fname == "valid_boundary" and plain and len(node.args) == 1:
            return self.expr(cx, env, node.args[0], lambda a: self.bindk(
                cx, "gen_valid_boundary %s" % a, k))
        if fname == "FeedParser" and plain and not node.args:
            return k("pnew_feedparser")
        if fname == "self.__class__" or fname in self.methods or \
                method_call(node, "parse") or method_call(node, "close"):
            raise Unsupported(node, "object call outside its statement shape")
        if isinstance(fn, ast.Attribute) and plain and fn.attr == "strip" \
                and not node.args and not mp.is_readline(fn.value):
            return self.expr(cx, env, fn.value, lambda a: self.bindk(
                cx, "pstrip %s" % a, k))
        return super().call(cx, env, node, k)

    # ------------------------------------------------------------ statements
    def fuel(self, cx, node):
        if cx.fuelname is None:
            raise Unsupported(node, "fuel consumer behind a plain loop")
        return cx.fuelname

    def assigned(self, stmts):
        out = super().assigned(stmts)
        for st in stmts:
            for node in ast.walk(st):
                if not isinstance(node, ast.Call):
                    continue
                name = self.dotted(node.func)
                if name in self.methods:
                    fields = self.methods[name][2] + ["self.input"]
                    out.extend(ast.parse(f, mode="eval").body for f in fields)
                elif method_call(node, "parse"):
                    out.append(ast.parse("self.input", mode="eval").body)
                elif method_call(node, "feed"):
                    out.append(node.func.value)
        return out

    def ctor_args(self, call):
        """the arguments of self.__class__(...) by parameter name"""
        args = self.ctor.args
        if args.vararg or args.kwarg or args.kwonlyargs or args.posonlyargs:
            raise Unsupported(self.ctor, "constructor signature")
        params = [a.arg for a in args.args[1:]]
        if any(isinstance(a, ast.Starred) for a in call.args) or \
                any(w.arg is None for w in call.keywords) or \
                len(call.args) > len(params):
            raise Unsupported(call, "constructor call")
        defaults = dict(zip(params[len(params) - len(args.defaults):],
                            args.defaults))
        actual = dict(zip(params, call.args))
        for w in call.keywords:
            if w.arg in actual or w.arg not in params:
                raise Unsupported(call, "constructor keyword %s" % w.arg)
            actual[w.arg] = w.value
        if sorted(params) != sorted([CTOR_INPUT] + CTOR_PARAMS):
            raise Unsupported(self.ctor, "constructor parameters")
        out = {}
        for p in params:
            node = actual.get(p, defaults.get(p))
            if node is None or (p not in actual and
                                not isinstance(node, ast.Constant)):
                raise Unsupported(call, "constructor argument %s" % p)
            out[p] = node
        if self.dotted(out[CTOR_INPUT]) != "self.input":
            raise Unsupported(call, "the sub-parser must read self.input")
        return out

    def block(self, cx, env, stmts, kend, loopk=None):
        if not stmts:
            return kend(env)
        st, rest = stmts[0], stmts[1:]

        def after(env2):
            return self.block(cx, env2, rest, kend, loopk)
        single = isinstance(st, ast.Assign) and len(st.targets) == 1 and \
            isinstance(st.targets[0], ast.Name)
        # x = self.input.readline()  ==  readline(-1)
        if isinstance(st, ast.Assign) and mp.is_readline(st.value) and \
                not st.value.args and not st.value.keywords:
            call = ast.Call(func=st.value.func,
                            args=[ast.Constant(value=-1)], keywords=[])
            new = ast.Assign(targets=st.targets, value=call,
                             lineno=st.lineno)
            ast.copy_location(call, st.value)
            ast.copy_location(new, st)
            return super().block(cx, env, [new] + rest, kend, loopk)
        # NAME = <message> ; raise Cls(NAME)
        if single and is_message(st.value) and len(stmts) == 2:
            cls = raise_class(stmts[1], st.targets[0].id)
            if cls is not None:
                return 'Err (Raised "%s" PNone)' % cls
        if isinstance(st, ast.Raise):
            cls = raise_class(st)
            if cls is not None and len(stmts) == 1:
                return 'Err (Raised "%s" PNone)' % cls
        # headers = parser.close()
        if single and method_call(st.value, "close") in env and \
                not st.value.args and not st.value.keywords:
            cx.messages.add(st.targets[0].id)
            var = cx.fresh(st.targets[0].id)
            return "%s <- pclose FP %s ;;\n%s" % (
                var, env[method_call(st.value, "close")],
                after(self.assign(cx, env, st.targets[0], var)))
        # field_parser = self.__class__(self.input, ...)
        if single and isinstance(st.value, ast.Call) and \
                self.dotted(st.value.func) == "self.__class__":
            by_name = self.ctor_args(st.value)
            nodes = [by_name[p] for p in CTOR_PARAMS]
            name = st.targets[0].id
            cx.subparsers.add(name)
            var = cx.fresh(name)
            return self.seq(cx, env, nodes, lambda items: (
                "let %s := (PTuple [%s]) in\n%s" % (
                    var, "; ".join(items),
                    after(self.assign(cx, env, st.targets[0], var)))))
        # part = field_parser.parse()
        if single and method_call(st.value, "parse") in cx.subparsers and \
                not st.value.args and not st.value.keywords:
            sub = method_call(st.value, "parse")
            name = st.targets[0].id
            cx.parts.add(name)
            part, done, nread, inp = cx.fresh(name), cx.fresh("done"), \
                cx.fresh("bytes_read"), cx.fresh("self.input")
            env2 = self.assign(cx, env, st.targets[0], part)
            env2[sub + ".done"] = done
            env2[sub + ".bytes_read"] = nread
            env2["self.input"] = inp
            return ("pr <- PARSE %s %s %s ;; let '(%s, %s, %s, %s) := pr in\n"
                    "%s" % (self.fuel(cx, st), env[sub], env["self.input"],
                            part, done, nread, inp, after(env2)))
        if isinstance(st, ast.Delete):
            if len(st.targets) == 1 and \
                    isinstance(st.targets[0], ast.Subscript) and \
                    isinstance(st.targets[0].value, ast.Name) and \
                    st.targets[0].value.id in cx.messages:
                obj = st.targets[0].value.id
                new = cx.fresh(obj)
                return self.expr(cx, env, st.targets[0].slice, lambda a: (
                    "%s <- pmsg_del %s %s ;;\n%s" % (
                        new, env[obj], a, after(dict(env, **{obj: new})))))
            raise Unsupported(st, "del")
        return super().block(cx, env, stmts, kend, loopk)

    def effect_call(self, cx, env, call, after):
        fname = self.dotted(call.func)
        if fname in self.methods and not call.args and not call.keywords:
            gen, fields, outs = self.methods[fname]
            tup, inp = cx.fresh("t"), cx.fresh("self.input")
            code = "pr <- %s %s %s ;; let '(%s, %s) := pr in\n" % (
                gen, " ".join(env[f] for f in fields), self.fuel(cx, call),
                tup, inp)
            env2 = dict(env)
            env2["self.input"] = inp
            for i, f in enumerate(outs):
                var = cx.fresh(f)
                code += "%s <- pindex %s %d ;;\n" % (var, tup, i)
                env2[f] = var
            return code + after(env2)
        obj = method_call(call, "feed")
        if obj is not None and obj in env and len(call.args) == 1 and \
                not call.keywords:
            new = cx.fresh(obj)
            return self.expr(cx, env, call.args[0], lambda a: (
                "%s <- pfeed %s %s ;;\n%s" % (
                    new, env[obj], a, after(dict(env, **{obj: new})))))
        if method_call(call, "append") is not None:
            return py2v.Unit.effect_call(self, cx, env, call, after)
        return super().effect_call(cx, env, call, after)

    def consumes_fuel(self, stmts):
        for st in stmts:
            for node in ast.walk(st):
                if isinstance(node, ast.While):
                    return True
                if isinstance(node, ast.Call) and (
                        self.dotted(node.func) in self.methods or
                        method_call(node, "parse")):
                    return True
        return False

    def while_loop(self, cx, env, st, after):
        if cx.depth == 0 and not self.consumes_fuel(st.body):
            saved = cx.fuelname
            cx.fuelname = None          # `fuel` is rebound inside the loop
            cx.depth += 1
            try:
                return super().while_loop(cx, env, st, after)
            finally:
                cx.depth -= 1
                cx.fuelname = saved
        if st.orelse:
            raise Unsupported(st, "while-else")
        if cx.depth == 0:
            return self.outer_loop(cx, env, st, after)
        if cx.depth == 1 and not self.consumes_fuel(st.body):
            return self.nested_loop(cx, env, st, after)
        raise Unsupported(st, "loop nesting")

    def nested_loop(self, cx, env, st, after):
        """a loop inside a loop body: its own Fixpoint that returns the
        carried variables; parameters = the names the loop mentions"""
        carried = self.names_assigned(st.body)
        used = set()
        for node in ast.walk(st):
            name = self.dotted(node) if isinstance(
                node, (ast.Name, ast.Attribute)) else None
            if name is not None:
                used.add(name)
        free = [n for n in env if n not in carried and n in used]
        if "self.input" not in carried:
            raise Unsupported(st, "nested loop that does not read")
        pvs = [n for n in carried if n not in mp.TYPES]
        order = free + carried
        cx.nested += 1
        cx.nested_here += 1
        lname = "%s_%d" % (cx.outer_name, cx.nested_here)
        params = {n: cx.fresh(n) for n in order}
        inner = dict(params)

        def default(e, n):
            if n in e:
                return e[n]
            if n in mp.TYPES:
                raise Unsupported(st, "input object not bound")
            return "PNone"

        def again(e):
            return "%s fuel_ %s" % (lname, " ".join(
                default(e, n) for n in order))

        def leave(e):
            return "Ok (PTuple [%s], %s)" % (
                "; ".join(default(e, n) for n in pvs), e["self.input"])
        saved, fsaved = cx.breakk, cx.fuelname
        cx.breakk, cx.fuelname = leave, None
        cx.depth += 1
        body = self.block(cx, inner, st.body, again, again)
        cx.depth -= 1
        cx.breakk, cx.fuelname = saved, fsaved
        sig = " ".join("(%s : %s)" % (params[n], mp.ty(n)) for n in order)
        test = self.expr(
            cx, inner, st.test, lambda c:
            "if truthy %s then\n match fuel with\n | O => Err (Raised "
            "\"OutOfFuel\" PNone)\n | S fuel_ => (%s)\n end\nelse %s" % (
                c, body, leave(inner)))
        cx.loops.append(
            "Fixpoint %s (fuel : nat) %s {struct fuel} : %s :=\n%s." % (
                lname, sig, cx.restype, test))
        tup, inp = cx.fresh("t"), cx.fresh("self.input")
        code = "pr <- %s %s %s ;; let '(%s, %s) := pr in\n" % (
            lname, self.fuel(cx, st),
            " ".join(default(env, n) for n in order), tup, inp)
        env2 = dict(env)
        env2["self.input"] = inp
        for i, n in enumerate(pvs):
            var = cx.fresh(n)
            code += "%s <- pindex %s %d ;;\n" % (var, tup, i)
            env2[n] = var
        return code + after(env2)

    def outer_loop(self, cx, env, st, after):
        """mp.MultipartUnit.while_loop with the additional parameter fuel0:
        what the body and the code behind the loop hand to nested loops,
        methods and the sub-parser"""
        carried = self.names_assigned(st.body)
        free = [n for n in env if n not in carried]
        lname = "%s_loop_%d" % (cx.name, len(cx.loops) - cx.nested + 1)
        cx.outer_name, cx.nested_here = lname, 0
        order = free + carried
        params = {n: cx.fresh(n) for n in order}
        inner = dict(params)

        def default(e, n):
            if n in e:
                return e[n]
            if n in mp.TYPES:
                raise Unsupported(st, "input object not bound")
            return "PNone"

        def again(e):
            return "%s fuel0 fuel_ %s" % (lname, " ".join(
                default(e, n) for n in order))
        exitn = cx.fresh("exit")

        def leave(e):
            return "%s %s" % (exitn, " ".join(default(e, n) for n in order))
        saved, fsaved = cx.breakk, cx.fuelname
        cx.breakk, cx.fuelname = leave, "fuel0"
        cx.depth += 1
        body = self.block(cx, inner, st.body, again, again)
        cx.depth -= 1
        cx.breakk = saved
        exit_params = {n: cx.fresh(n) for n in order}
        done = after(dict(exit_params))
        cx.fuelname = fsaved
        sig = " ".join("(%s : %s)" % (params[n], mp.ty(n)) for n in order)
        esig = " ".join("(%s : %s)" % (exit_params[n], mp.ty(n))
                        for n in order)
        test = self.expr(
            cx, inner, st.test, lambda c:
            "if truthy %s then\n match fuel with\n | O => Err (Raised "
            "\"OutOfFuel\" PNone)\n | S fuel_ => (%s)\n end\nelse %s" % (
                c, body, leave(inner)))
        cx.loops.append(
            "Fixpoint %s (fuel0 : nat) (fuel : nat) %s {struct fuel} : %s :="
            "\nlet %s := fun %s => (%s) in\n%s." % (
                lname, sig, cx.restype, exitn, esig, done, test))
        return "%s %s %s %s" % (lname, self.fuel(cx, st), self.fuel(cx, st),
                                " ".join(default(env, n) for n in order))

    def method2(self, fundef, gen_name, fields, out_fields, value=False):
        """one method: parameters = the listed self fields, result
        res (pv * St) = (PTuple [value?; out fields...], input object)"""
        args = fundef.args
        if args.defaults or args.vararg or args.kwarg or args.kwonlyargs \
                or args.posonlyargs or fundef.decorator_list:
            raise Unsupported(fundef, "signature")
        if [a.arg for a in args.args] != ["self"]:
            raise Unsupported(fundef, "signature")
        cx = py2v.Ctx(self, gen_name)
        cx.fundef = fundef
        cx.breakk = None
        cx.restype = "res (pv * St)"
        cx.depth = 0
        cx.fuelname = "fuel"
        cx.nested, cx.nested_here, cx.outer_name = 0, 0, None
        cx.messages, cx.subparsers, cx.parts = set(), set(), set()
        if any(isinstance(n, (ast.Yield, ast.YieldFrom, ast.Await))
               for n in ast.walk(fundef)):
            raise Unsupported(fundef, "generator")
        for name in self.names_assigned(fundef.body):
            if name.startswith("self.") and name not in out_fields \
                    and name != "self.input":
                raise Unsupported(fundef, "assigns %s" % name)

        def outs(e, first):
            return "Ok (PTuple [%s], %s)" % (
                "; ".join(first + [e[f] for f in out_fields]),
                e["self.input"])

        def fall(e):
            return outs(e, ["PNone"] if value else [])
        cx.result = fall
        cx.retwrap = (lambda e, v: outs(e, [v])) if value else None
        if not value and any(isinstance(n, ast.Return) and n.value is not None
                             for n in ast.walk(fundef)):
            raise Unsupported(fundef, "returns a value")
        env = {p: mangle(p) for p in fields}
        code = self.block(cx, env, fundef.body, fall)
        sig = " ".join("(%s : %s)" % (mangle(p), mp.ty(p)) for p in fields)
        sig += " (fuel : nat)"
        text = "\n\n".join(cx.loops + [
            "Definition %s %s : %s :=\n%s." % (gen_name, sig, cx.restype,
                                               code)])
        self.defs.append(text)

    def write(self, filename, header, section_vars=()):
        out = ["(* GENERATED by harness/py2v_multi.py from %s -- do not "
               "edit *)" % header,
               "From Coq Require Import ZArith List Bool String.",
               "Require Import PW.lib.Val PW.lib.Dec PW.lib.Py "
               "PW.lib.PyMultipart PW.lib.PyMulti PW.gen.MultipartGen.",
               "Import ListNotations.", "Open Scope string_scope.",
               "Open Scope list_scope.", "Open Scope Z_scope.", "",
               "Section Gen."]
        for var, typ in section_vars:
            out.append("Variable %s : %s." % (var, typ))
        out += self.defs
        out.append("End Gen.")
        path = os.path.join(py2v.GEN, filename)
        text = "\n\n".join(out) + "\n"
        old = open(path).read() if os.path.exists(path) else None
        if old != text:
            with open(path, "w") as f:
                f.write(text)
        return path


def drop_compiled():
    """a refused translation must not leave compiled files behind"""
    coq = os.path.dirname(py2v.GEN)
    for stem in (os.path.join(py2v.GEN, OUT[:-2]),
                 os.path.join(coq, GENEQ)):
        for ext in (".vo", ".vos", ".vok", ".glob"):
            try:
                os.unlink(stem + ext)
            except FileNotFoundError:
                pass


def translate():
    tree = py2v.parse(SOURCE)
    cls = [n for n in tree.body if isinstance(n, ast.ClassDef)
           and n.name == CLASS]
    if len(cls) != 1:
        raise Unsupported(tree, "class %s" % CLASS)
    cls = cls[0]

    def meth(name):
        found = [n for n in cls.body if isinstance(n, ast.FunctionDef)
                 and n.name == name]
        if len(found) != 1:
            raise Unsupported(cls, "method %s" % name)
        return found[0]
    unit = MultiUnit()
    unit.ctor = meth("__init__")
    unit.method2(meth("_skip_to_boundary"), "gen_skip_to_boundary",
                 SKIP_FIELDS, SKIP_OUT)
    unit.methods["self._skip_to_boundary"] = (
        "gen_skip_to_boundary", SKIP_FIELDS, SKIP_OUT)
    unit.method2(meth("skip_lines"), "gen_skip_lines", LINES_FIELDS,
                 LINES_OUT)
    unit.methods["self.skip_lines"] = (
        "gen_skip_lines", LINES_FIELDS, LINES_OUT)
    unit.method2(meth("read_multi"), "gen_read_multi", MULTI_FIELDS,
                 MULTI_OUT, value=True)
    return unit.write(OUT, SOURCE + " FieldStorageParser._skip_to_boundary, "
                      "skip_lines, read_multi", SECTION_VARS)


def gen_multi():
    try:
        return translate()
    except Exception:
        drop_compiled()
        raise


def register(TARGETS, OUTPUT):
    TARGETS["multi"] = gen_multi
    OUTPUT["multi"] = OUT
