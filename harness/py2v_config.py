"""Plugin: the configuration accessors of poorwsgi/wsgi.py Application ->
coq/gen/ConfigGen.v (property C17: "a response depends only on its own
request and the configuration"; C10/C12/C20 read the same values).

Part 1 -- translation (domain specific, fail closed) over coq/lib/PyConfig.v.

The set of configuration keys is read from the source: the top-level
statement `self.__config = {<str>: <const>, ...}` of Application.__init__
(exactly one; keys constant strings; values None / bool / int / str / a list
of str) -> gen_init_config (in source order).  For every key the class body
of Application must bind the name by

    @property
    def <key>(self): [docstring] return <expr>

optionally followed by

    @<key>.setter
    def <key>(self, value): [docstring] <stmts>

and by nothing else (the class has no bases / decorators / metaclass and
defines none of __setattr__, __getattr__, __getattribute__, __delattr__,
__slots__; the module binds none of property, bool, int, isinstance, type).

    stmt ::= self.<attr>['<key>'] = expr
           | if expr: raise ValueError('<text>')        (no else)
    expr ::= None | True | False | <int> | '<str>' | <second parameter>
           | self.<attr>['<key>'] | bool(expr) | int(expr) | not expr
           | expr == expr | expr != expr | expr is None | expr is not None
           | expr in (<consts>) | expr not in (<consts>)
           | expr if expr else expr
           | isinstance(expr, (<types>))    types: type(None) int str bool list

`self.__x` is written with its mangled name `_Application__x`.  Parameters
are identified by position, not by spelling; annotations, docstrings, bare
string statements and `log.*(...)` calls are dropped (by name, nothing else
is); the text of the ValueError message is dropped.

Trusted table UNTIED: setters that exist but are not translated (they must
exist with the right decorator; emitted as gen_untied_setters and compared
with the model's list): auth_type, auth_algorithm.

Part 2 -- census `config_writers` over poorwsgi/wsgi.py as (function, what),
source text through ast.unparse after renaming parameters to arg0, arg1, ...
and local variables to loc0, loc1, ... (by position).  A function decorated
`@x.setter` is named `<class>.x.setter`.  Seen: every attribute node whose
name is one of WATCH (`__config`, `__auth_hash`, also in the mangled
spelling), on any receiver:

  * store / del of the attribute itself: "<target> = <value>" (a dict
    display is written <dict>), "<target> <op>= ...", "del <target>",
    "<target> <Store>" for other binding forms;
  * `<attr>[<slice>]` in store / del position: the target text /
    "del <text>";
  * `<attr>['<const>']` in load position: a plain read, not recorded;
  * any other load of `__config` (a method call such as .update /
    .setdefault / .pop / .clear, an alias `cfg = self.__config`, passing or
    returning the dictionary, a computed key): "<escape> <enclosing
    statement or expression>";
  * loads of `__auth_hash` (a function object) are not recorded;
  * every call of setattr / delattr / __setattr__ / __delattr__ / vars and
    every mention of .__dict__: "<setattr> <text>".

Not seen: other files (the getters json_mime_types / form_mime_types return
the live list, which a caller can mutate in place), attribute names computed
by other means -- those stay with the dynamic monitor.  coq/props/C17.v
proves that every entry is in the policy of model/Config.v and that every
writer is __init__ or a setter."""
import ast
import copy
import os

import py2v
from py2v import Unsupported

SOURCE = "poorwsgi/wsgi.py"
MODULE = "wsgi"
CLASS = "Application"
CONFIG_ATTR = "__config"
UNTIED = ("auth_type", "auth_algorithm")
WATCH = ("__config", "__auth_hash")
PROTOCOL = ("__setattr__", "__getattr__", "__getattribute__", "__delattr__",
            "__slots__")
BUILTINS = ("property", "bool", "int", "isinstance", "type")
TYPES = ("int", "str", "bool", "list")


def mangled(attr):
    if attr.startswith("__") and not attr.endswith("__"):
        return "_" + CLASS.lstrip("_") + attr
    return attr


def slit(text):
    if not isinstance(text, str) or any(ord(c) > 126 or ord(c) < 32
                                        for c in text):
        raise Unsupported(ast.Constant(text), "string outside printable ascii")
    return '"%s"' % text.replace('"', '""')


def dropped(stmt):
    """docstrings / bare strings and log.*(...) calls"""
    if isinstance(stmt, ast.Expr):
        val = stmt.value
        if isinstance(val, ast.Constant) and isinstance(val.value, str):
            return True
        if isinstance(val, ast.Call) and \
                isinstance(val.func, ast.Attribute) and \
                isinstance(val.func.value, ast.Name) and \
                val.func.value.id == "log":
            return True
    return False


def const(node):
    """a constant -> cval term"""
    if isinstance(node, ast.Constant):
        val = node.value
        if val is None:
            return "VNone"
        if val is True:
            return "(VBool true)"
        if val is False:
            return "(VBool false)"
        if isinstance(val, int):
            return "(VInt (%d)%%Z)" % val
        if isinstance(val, str):
            return "(VStr %s)" % slit(val)
    if isinstance(node, ast.List) and all(
            isinstance(e, ast.Constant) and isinstance(e.value, str)
            for e in node.elts):
        return "(VStrs [%s])" % "; ".join(slit(e.value) for e in node.elts)
    raise Unsupported(node, "constant")


class Fun:
    """one getter / setter: parameters by position"""

    def __init__(self, fun, nparams):
        args = fun.args
        if args.vararg or args.kwarg or args.kwonlyargs or args.defaults or \
                args.kw_defaults or args.posonlyargs or \
                len(args.args) != nparams:
            raise Unsupported(fun, "parameters")
        if fun.returns is not None and not isinstance(
                fun.returns, (ast.Name, ast.Constant, ast.Subscript,
                              ast.Attribute)):
            raise Unsupported(fun, "return annotation")
        self.self_name = args.args[0].arg
        self.value_name = args.args[1].arg if nparams == 2 else None
        if self.self_name == self.value_name:
            raise Unsupported(fun, "parameters")
        self.attrs = set()

    def entry(self, node):
        """self.<attr>['<key>'] -> (attr, key)"""
        if isinstance(node, ast.Subscript) and \
                isinstance(node.value, ast.Attribute) and \
                isinstance(node.value.value, ast.Name) and \
                node.value.value.id == self.self_name and \
                isinstance(node.slice, ast.Constant) and \
                isinstance(node.slice.value, str):
            self.attrs.add(node.value.attr)
            return slit(mangled(node.value.attr)), slit(node.slice.value)
        raise Unsupported(node, "not self.<attr>['<key>']")

    def expr(self, node):
        if isinstance(node, ast.Constant):
            return "(e_const %s)" % const(node)
        if isinstance(node, ast.Name):
            if node.id == self.value_name and isinstance(node.ctx, ast.Load):
                return "(e_const v)"
            raise Unsupported(node, "name")
        if isinstance(node, ast.Subscript):
            if not isinstance(node.ctx, ast.Load):
                raise Unsupported(node, "context")
            return "(e_load o %s %s)" % self.entry(node)
        if isinstance(node, ast.UnaryOp) and isinstance(node.op, ast.Not):
            return "(e_not %s)" % self.expr(node.operand)
        if isinstance(node, ast.IfExp):
            return "(e_ifexp %s %s %s)" % (self.expr(node.test),
                                           self.expr(node.body),
                                           self.expr(node.orelse))
        if isinstance(node, ast.Compare):
            if len(node.ops) != 1:
                raise Unsupported(node, "chained comparison")
            oper, left, right = node.ops[0], node.left, node.comparators[0]
            if isinstance(oper, (ast.Eq, ast.NotEq)):
                return "(%s %s %s)" % (
                    "e_eq" if isinstance(oper, ast.Eq) else "e_noteq",
                    self.expr(left), self.expr(right))
            if isinstance(oper, (ast.Is, ast.IsNot)):
                if not (isinstance(right, ast.Constant) and
                        right.value is None):
                    raise Unsupported(node, "is <not None>")
                return "(%s %s)" % (
                    "e_is_none" if isinstance(oper, ast.Is)
                    else "e_is_not_none", self.expr(left))
            if isinstance(oper, (ast.In, ast.NotIn)):
                if not isinstance(right, ast.Tuple):
                    raise Unsupported(node, "membership in a non-tuple")
                lits = []
                for elt in right.elts:
                    if not isinstance(elt, ast.Constant):
                        raise Unsupported(elt, "tuple element")
                    lits.append(const(elt))
                return "(%s %s [%s])" % (
                    "e_in" if isinstance(oper, ast.In) else "e_not_in",
                    self.expr(left), "; ".join(lits))
            raise Unsupported(node, "comparison")
        if isinstance(node, ast.Call):
            if node.keywords or not isinstance(node.func, ast.Name):
                raise Unsupported(node, "call")
            name = node.func.id
            if name == "bool" and len(node.args) == 1:
                return "(e_bool %s)" % self.expr(node.args[0])
            if name == "int" and len(node.args) == 1:
                return "(e_int ios %s)" % self.expr(node.args[0])
            if name == "isinstance" and len(node.args) == 2:
                return "(e_isinstance %s [%s])" % (
                    self.expr(node.args[0]),
                    "; ".join(self.types(node.args[1])))
            raise Unsupported(node, "call")
        raise Unsupported(node, "expression")

    def types(self, node):
        elts = node.elts if isinstance(node, ast.Tuple) else [node]
        out = []
        for elt in elts:
            if isinstance(elt, ast.Name) and elt.id in TYPES:
                out.append(slit(elt.id))
            elif isinstance(elt, ast.Call) and \
                    isinstance(elt.func, ast.Name) and \
                    elt.func.id == "type" and not elt.keywords and \
                    len(elt.args) == 1 and \
                    isinstance(elt.args[0], ast.Constant) and \
                    elt.args[0].value is None:
                out.append(slit("NoneType"))
            else:
                raise Unsupported(elt, "type")
        return out

    def stmts(self, body):
        body = [st for st in body if not dropped(st)]
        if not body:
            return "(s_done o)"
        stmt, rest = body[0], body[1:]
        if isinstance(stmt, ast.Assign):
            if len(stmt.targets) != 1 or stmt.type_comment:
                raise Unsupported(stmt, "assignment")
            attr, key = self.entry(stmt.targets[0])
            return "(s_store o %s %s %s (fun o => %s))" % (
                attr, key, self.expr(stmt.value), self.stmts(rest))
        if isinstance(stmt, ast.If):
            inner = [st for st in stmt.body if not dropped(st)]
            if stmt.orelse or len(inner) != 1 or \
                    not isinstance(inner[0], ast.Raise):
                raise Unsupported(stmt, "if")
            exc = inner[0]
            if exc.cause is not None or not (
                    isinstance(exc.exc, ast.Call) and
                    isinstance(exc.exc.func, ast.Name) and
                    exc.exc.func.id == "ValueError" and
                    not exc.exc.keywords and len(exc.exc.args) == 1 and
                    isinstance(exc.exc.args[0], ast.Constant) and
                    isinstance(exc.exc.args[0].value, str)):
                raise Unsupported(exc, "raise")
            return "(s_raise_if %s %s)" % (self.expr(stmt.test),
                                           self.stmts(rest))
        raise Unsupported(stmt, "statement")

    def getter(self, body):
        body = [st for st in body if not dropped(st)]
        if len(body) != 1 or not isinstance(body[0], ast.Return) or \
                body[0].value is None:
            raise Unsupported(body[0] if body else ast.Pass(), "getter body")
        return self.expr(body[0].value)


def find_class(tree):
    found = [n for n in tree.body
             if isinstance(n, ast.ClassDef) and n.name == CLASS]
    if len(found) != 1:
        raise Unsupported(tree, "class %s" % CLASS)
    cls = found[0]
    if cls.bases or cls.keywords or cls.decorator_list:
        raise Unsupported(cls, "bases / metaclass / decorators")
    for node in ast.walk(tree):
        # nothing in the module rebinds the builtins used
        if isinstance(node, ast.Name) and node.id in BUILTINS and \
                not isinstance(node.ctx, ast.Load):
            raise Unsupported(node, "rebinds a builtin")
        if isinstance(node, (ast.FunctionDef, ast.AsyncFunctionDef,
                             ast.ClassDef)) and node.name in BUILTINS:
            raise Unsupported(node, "rebinds a builtin")
        if isinstance(node, ast.arg) and node.arg in BUILTINS:
            raise Unsupported(node, "rebinds a builtin")
        if isinstance(node, ast.alias) and \
                (node.asname or node.name) in BUILTINS + ("*",):
            raise Unsupported(node, "rebinds a builtin")
        if isinstance(node, (ast.Global, ast.Nonlocal)) and \
                set(node.names) & set(BUILTINS):
            raise Unsupported(node, "rebinds a builtin")
    return cls


def class_bindings(cls):
    """name -> list of class-level statements binding it"""
    table = {}
    for stmt in cls.body:
        if isinstance(stmt, (ast.FunctionDef, ast.AsyncFunctionDef,
                             ast.ClassDef)):
            table.setdefault(stmt.name, []).append(stmt)
        elif isinstance(stmt, (ast.Assign, ast.AnnAssign, ast.AugAssign)):
            tgts = stmt.targets if isinstance(stmt, ast.Assign) \
                else [stmt.target]
            for tgt in tgts:
                for leaf in ast.walk(tgt):
                    if isinstance(leaf, ast.Name):
                        table.setdefault(leaf.id, []).append(stmt)
        elif dropped(stmt) or isinstance(stmt, ast.Pass):
            pass
        else:
            raise Unsupported(stmt, "class-level statement")
    for name in PROTOCOL:
        if name in table:
            raise Unsupported(table[name][0], "attribute protocol")
    return table


def translate_init(cls, table):
    inits = table.get("__init__", [])
    if len(inits) != 1 or not isinstance(inits[0], ast.FunctionDef) or \
            inits[0].decorator_list:
        raise Unsupported(cls, "__init__")
    init = inits[0]
    if not init.args.args:
        raise Unsupported(init, "parameters")
    self_name = init.args.args[0].arg
    found = []
    for stmt in init.body:
        if isinstance(stmt, ast.Assign) and len(stmt.targets) == 1:
            tgt = stmt.targets[0]
            if isinstance(tgt, ast.Attribute) and tgt.attr == CONFIG_ATTR \
                    and isinstance(tgt.value, ast.Name) and \
                    tgt.value.id == self_name:
                found.append(stmt)
    if len(found) != 1 or not isinstance(found[0].value, ast.Dict):
        raise Unsupported(init, "self.%s = {...}" % CONFIG_ATTR)
    pairs = []
    for key, val in zip(found[0].value.keys, found[0].value.values):
        if not (isinstance(key, ast.Constant) and isinstance(key.value, str)):
            raise Unsupported(key or val, "key")
        pairs.append((key.value, const(val)))
    return pairs


def is_name(node, name):
    return isinstance(node, ast.Name) and node.id == name


def translate_members(table, keys):
    defs, names, nosetter, untied = [], [], [], []
    for key in keys:
        bound = table.get(key, [])
        if not bound or len(bound) > 2 or not all(
                isinstance(b, ast.FunctionDef) for b in bound):
            raise Unsupported(bound[0] if bound else ast.Pass(),
                              "bindings of %s" % key)
        get = bound[0]
        if len(get.decorator_list) != 1 or \
                not is_name(get.decorator_list[0], "property"):
            raise Unsupported(get, "getter decorator")
        fun = Fun(get, 1)
        defs.append("Definition gen_%s_get (ios : int_parser) (o : cobj) : "
                    "option cval :=\n  %s." % (key, fun.getter(get.body)))
        names.append("gen_%s_get" % key)
        if fun.attrs - {CONFIG_ATTR}:
            raise Unsupported(get, "reads an attribute outside the census")
        if len(bound) == 1:
            nosetter.append(key)
            continue
        put = bound[1]
        deco = put.decorator_list
        if len(deco) != 1 or not (isinstance(deco[0], ast.Attribute) and
                                  deco[0].attr == "setter" and
                                  is_name(deco[0].value, key)):
            raise Unsupported(put, "setter decorator")
        if key in UNTIED:
            untied.append(key)
            continue
        fun = Fun(put, 2)
        defs.append("Definition gen_%s_set (ios : int_parser) (o : cobj) "
                    "(v : cval) : option cobj :=\n  %s."
                    % (key, fun.stmts(put.body)))
        names.append("gen_%s_set" % key)
        if fun.attrs - {CONFIG_ATTR}:
            raise Unsupported(put, "touches an attribute outside the census")
    return defs, nosetter, untied


# -------------------------------------------------------------------- census
def watched(attr):
    return any(attr == w or attr.endswith("_" + w) or
               attr == "_%s%s" % (CLASS, w) for w in WATCH)


def is_config(attr):
    return attr == CONFIG_ATTR or attr == "_%s%s" % (CLASS, CONFIG_ATTR)


def name_table(fun):
    table = {}
    args = fun.args
    params = args.posonlyargs + args.args + \
        ([args.vararg] if args.vararg else []) + args.kwonlyargs + \
        ([args.kwarg] if args.kwarg else [])
    for i, arg in enumerate(params):
        table[arg.arg] = "arg%d" % i
    count = 0
    for node in ast.walk(fun):
        if isinstance(node, ast.Name) and \
                isinstance(node.ctx, (ast.Store, ast.Del)) and \
                node.id not in table:
            table[node.id] = "loc%d" % count
            count += 1
    return table


def text(node, table):
    node = copy.deepcopy(node)
    for sub in ast.walk(node):
        if isinstance(sub, ast.Name) and sub.id in table:
            sub.id = table[sub.id]
        if isinstance(sub, ast.arg) and sub.arg in table:
            sub.arg = table[sub.arg]
    return ast.unparse(node)


def scan(tree):
    out = []
    parent = {}
    for node in ast.walk(tree):
        for child in ast.iter_child_nodes(node):
            parent[id(child)] = node

    def enclosing(node):
        """the innermost statement around node"""
        while not isinstance(node, ast.stmt):
            node = parent[id(node)]
        return node

    def record(qual, table, node):
        if isinstance(node, ast.Attribute) and node.attr == "__dict__":
            out.append((qual, "<setattr> " + text(node, table)))
        if isinstance(node, ast.Call):
            fn = node.func
            fname = fn.id if isinstance(fn, ast.Name) else \
                fn.attr if isinstance(fn, ast.Attribute) else ""
            if fname in ("setattr", "delattr", "__setattr__", "__delattr__",
                         "vars"):
                out.append((qual, "<setattr> " + text(node, table)))
        if not (isinstance(node, ast.Attribute) and watched(node.attr)):
            return
        up = parent[id(node)]
        if isinstance(node.ctx, ast.Store):
            if isinstance(up, ast.Assign) and node in up.targets:
                val = "<dict>" if isinstance(up.value, ast.Dict) \
                    else text(up.value, table)
                out.append((qual, "%s = %s" % (text(node, table), val)))
            elif isinstance(up, ast.AugAssign):
                out.append((qual, "%s <op>= ..." % text(node, table)))
            else:
                out.append((qual, "%s <Store>" % text(node, table)))
            return
        if isinstance(node.ctx, ast.Del):
            out.append((qual, "del %s" % text(node, table)))
            return
        if isinstance(up, ast.Subscript) and up.value is node:
            if isinstance(up.ctx, ast.Store):
                out.append((qual, text(up, table)))
                return
            if isinstance(up.ctx, ast.Del):
                out.append((qual, "del %s" % text(up, table)))
                return
            if isinstance(up.slice, ast.Constant):
                return                      # plain read of one entry
        if is_config(node.attr):
            out.append((qual, "<escape> " + text(enclosing(node), table)))

    def visit(node, stack, qual, table):
        for child in ast.iter_child_nodes(node):
            if isinstance(child, (ast.FunctionDef, ast.AsyncFunctionDef)):
                for deco in child.decorator_list:
                    visit_one(deco, stack, qual, table)
                name = child.name
                for deco in child.decorator_list:
                    if isinstance(deco, ast.Attribute) and \
                            deco.attr in ("setter", "deleter", "getter"):
                        name = "%s.%s" % (child.name, deco.attr)
                cqual = ".".join([MODULE] + stack + [name])
                visit(child, stack + [child.name], cqual, name_table(child))
                continue
            if isinstance(child, ast.ClassDef):
                visit(child, stack + [child.name],
                      ".".join([MODULE] + stack + [child.name]), {})
                continue
            visit_one(child, stack, qual, table)

    def visit_one(child, stack, qual, table):
        record(qual, table, child)
        visit(child, stack, qual, table)

    visit(tree, [], MODULE, {})
    return sorted(set(out))


# -------------------------------------------------------------------- output
def drop_compiled():
    """py2v.regenerate removes gen/ConfigGen.v when the translation is
    refused; the compiled files must go too, or an old ConfigGen.vo would
    keep the dependent theorems compiling"""
    coq = os.path.dirname(py2v.GEN)
    for stem in (os.path.join(py2v.GEN, "ConfigGen"),
                 os.path.join(coq, "proofs", "ConfigGenEq")):
        for ext in (".vo", ".vos", ".vok", ".glob"):
            if os.path.exists(stem + ext):
                os.unlink(stem + ext)


def translate():
    tree = py2v.parse(SOURCE)
    cls = find_class(tree)
    table = class_bindings(cls)
    pairs = translate_init(cls, table)
    keys = [k for k, _ in pairs]
    if len(set(keys)) != len(keys):
        raise Unsupported(cls, "duplicate configuration key")
    defs, nosetter, untied = translate_members(table, keys)
    writers = scan(tree)
    out = ["(* GENERATED by harness/py2v_config.py from poorwsgi/wsgi.py "
           "(Application: the configuration literal of __init__, the "
           "property getters and setters of its keys, the census of "
           "writers) -- do not edit *)",
           "From Coq Require Import List String Bool ZArith.",
           "Require Import PW.lib.PyConfig.",
           "Import ListNotations.", "Open Scope string_scope.", "",
           "Definition gen_config_attr : string := %s."
           % slit(mangled(CONFIG_ATTR)), "",
           "Definition gen_init_config : list (string * cval) :=\n  [%s]."
           % ";\n   ".join("(%s, %s)" % (slit(k), v) for k, v in pairs), ""]
    out += defs
    out += ["", "Definition gen_no_setter : list string := [%s]."
            % "; ".join(slit(k) for k in nosetter),
            "Definition gen_untied_setters : list string := [%s]."
            % "; ".join(slit(k) for k in untied), "",
            "Definition config_writers : list (string * string) :=\n  [%s]."
            % ";\n   ".join("(%s, %s)" % (slit(f), slit(w))
                            for f, w in writers)]
    path = os.path.join(py2v.GEN, "ConfigGen.v")
    new = "\n".join(out) + "\n"
    old = open(path).read() if os.path.exists(path) else None
    if old != new:
        with open(path, "w") as fil:
            fil.write(new)
    return path


def gen_config():
    try:
        return translate()
    except Exception:
        drop_compiled()
        raise


def register(TARGETS, OUTPUT):
    TARGETS["config"] = gen_config
    OUTPUT["config"] = "ConfigGen.v"


if __name__ == "__main__":
    for w in scan(py2v.parse(SOURCE)):
        print(w)
