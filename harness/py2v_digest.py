"""Translator plugin: poorwsgi/digest.py check_response, check_credentials
-> coq/gen/DigestGen.v (proved equal to model/Digest.v in
proofs/DigestGenEq.v, theorems C11_generated_*_is_model).

Reuses the general translator (py2v.Unit over lib/Py.v) and adds, with the
semantics of lib/PyDigest.v:

  * objects: the first parameter (`req`) is an object whose attributes are
    the fixed list REQ_FIELDS, each a parameter of the generated function;
    `app = req.app` makes a local alias of the sub-object; any other
    attribute is an unknown name (Unsupported);
  * dicts: `d.copy()`, `d[k] = v`, `d[k]`, `d.get(k[, default])`, `k in d`,
    `{}`; `'...{name}...'.format(**d)` (pieces from string.Formatter.parse);
  * str: `.endswith(s)`, `.partition(s)`, `.split(s, 1)`, `a in s`;
  * `a, b, c = e`;
  * external functions as Section variables: `sha256(x.encode()).hexdigest()`
    (Ho; checked to be hashlib's), `req.app.auth_hash(x.encode()).hexdigest()`
    (Hh), `unquote(x)` (Unq; checked to be urllib.parse's);
  * `try: ... except KeyError [as e]: ...` (no else/finally, no assignment
    inside, not nested);
  * a call of the other translated function, passing the object;
  * for the innermost function of check_digest (the request gate): its
    closure variables (`realm`, `username` of check_digest; the endpoint
    `fun` of wrapper) as parameters, `raise HTTPException(state.CONST,
    kw=...)` (constant from state.py, keywords kept in source order),
    `check_token(...)` (session.py's signature) through the Section variable
    CT, the store `req.user = e`, and `return fun(req)` as the outcome
    [pcall_endpoint req.user].

Dropped by name: docstrings and `log.*(...)` statements (py2v.Unit.block).
for/while/len and every call, method, subscript or statement not listed
raise py2v.Unsupported.
"""
import ast
import os
import string

import py2v
from py2v import Unsupported, strlit

SOURCE = "poorwsgi/digest.py"

# attributes of the request object read by the translated code, in the
# order of the generated functions' leading parameters
REQ_FIELDS = ["authorization", "method", "path", "query", "server_hostname",
              "app.auth_algorithm", "app.auth_qop", "app.auth_map"]
GATE_FIELDS = REQ_FIELDS + ["headers", "secret_key", "user_agent",
                            "app.auth_timeout"]
STORES = {"req.user"}                   # attributes the gate may assign
OBJECTS = {"req", "req.app"}            # canonical object paths
HASHES = {"req.app.auth_hash": "Hh", "sha256": "Ho"}
STRFUNS = {"unquote": "Unq"}
IMPORTS = {"sha256": "hashlib", "unquote": "urllib.parse",
           "state": "poorwsgi", "HTTPException": "poorwsgi.response",
           "check_token": "poorwsgi.session", "wraps": "functools"}
CATCHABLE = {"KeyError"}
SECTION_VARS = [("Hh", "list Z -> list Z"), ("Ho", "list Z -> list Z"),
                ("Unq", "list Z -> list Z"),
                ("CT", "pv -> pv -> pv -> pv -> res pv")]


class DigestUnit(py2v.Unit):
    def __init__(self, **kw):
        super().__init__(**kw)
        self.objparams = {}     # callee name -> index of the object parameter
        self.token_sig = None   # (params, defaults) of session.check_token

    # ---------------------------------------------------------------- names
    def resolve(self, env, name):
        """canonical dotted name: local object aliases replaced"""
        if name is None:
            return None
        parts = name.split(".")
        for i in range(len(parts), 0, -1):
            head = ".".join(parts[:i])
            val = env.get(head)
            if isinstance(val, str) and val.startswith("@"):
                return ".".join([val[1:]] + parts[i:])
        return name

    def expr(self, cx, env, node, k):
        if isinstance(node, (ast.Name, ast.Attribute)):
            name = self.resolve(env, self.dotted(node))
            if name is not None:
                if name in OBJECTS:
                    raise Unsupported(node, "object used as a value")
                if name in env:
                    return k(env[name])
                if name.startswith("state.") and name[6:] in self.consts:
                    return k("(PInt %s)" % py2v.zl(self.consts[name[6:]]))
                raise Unsupported(node, "unknown name %s" % name)
        if isinstance(node, ast.Compare) and len(node.ops) == 1 and \
                isinstance(node.ops[0], (ast.In, ast.NotIn)):
            fn = "pcontains" if isinstance(node.ops[0], ast.In) \
                else "pnot_contains"
            return self.expr(cx, env, node.left, lambda a: self.expr(
                cx, env, node.comparators[0], lambda b: self.bindk(
                    cx, "%s %s %s" % (fn, a, b), k)))
        if isinstance(node, ast.Dict):
            if node.keys:
                raise Unsupported(node, "non-empty dict literal")
            return k("(PDict [])")
        if isinstance(node, (ast.JoinedStr, ast.List)):
            raise Unsupported(node, "expression")
        if isinstance(node, ast.BinOp) and not isinstance(node.op, ast.Add):
            raise Unsupported(node, "operator")
        return super().expr(cx, env, node, k)

    def subscript(self, cx, env, node, k):
        sl = node.slice
        if isinstance(sl, ast.Constant) and (
                isinstance(sl.value, str) or
                (type(sl.value) is int and sl.value >= 0)):
            return self.expr(cx, env, node.value, lambda v: self.expr(
                cx, env, sl, lambda i: self.bindk(
                    cx, "pgetitem %s %s" % (v, i), k)))
        raise Unsupported(node, "subscript")

    # ---------------------------------------------------------------- calls
    def format_pieces(self, node, text):
        pieces = []
        try:
            parsed = list(string.Formatter().parse(text))
        except ValueError:
            raise Unsupported(node, "format string")
        for lit, field, spec, conv in parsed:
            if lit:
                pieces.append("FLit %s" % strlit(lit))
            if field is None:
                continue
            if not field.isidentifier() or spec or conv:
                raise Unsupported(node, "format field {%s}" % field)
            pieces.append("FField %s" % strlit(field))
        return "[%s]" % "; ".join(pieces)

    def call(self, cx, env, node, k):
        fn = node.func
        plain = not node.keywords and not any(
            isinstance(a, ast.Starred) for a in node.args)
        if isinstance(fn, ast.Attribute):
            attr, nargs = fn.attr, len(node.args)
            # '...'.format(**d)
            if attr == "format" and isinstance(fn.value, ast.Constant) and \
                    isinstance(fn.value.value, str) and not node.args and \
                    len(node.keywords) == 1 and node.keywords[0].arg is None:
                pieces = self.format_pieces(node, fn.value.value)
                return self.expr(
                    cx, env, node.keywords[0].value, lambda d: self.bindk(
                        cx, "pformat_kw %s %s" % (pieces, d), k))
            # H(text.encode()).hexdigest()
            if attr == "hexdigest" and plain and nargs == 0 and \
                    isinstance(fn.value, ast.Call):
                inner = fn.value
                hname = self.resolve(env, self.dotted(inner.func))
                if hname in HASHES and hname not in env and \
                        not inner.keywords and len(inner.args) == 1:
                    arg = inner.args[0]
                    if isinstance(arg, ast.Call) and not arg.args and \
                            not arg.keywords and \
                            isinstance(arg.func, ast.Attribute) and \
                            arg.func.attr == "encode":
                        return self.expr(
                            cx, env, arg.func.value, lambda a: self.bindk(
                                cx, "phash %s %s" % (HASHES[hname], a), k))
                raise Unsupported(node, "hash call shape")
            methods = {("copy", 0): "pdict_copy", ("endswith", 1): "pendswith",
                       ("partition", 1): "ppartition", ("get", 2): "pdict_get"}
            if plain and (attr, nargs) in methods:
                return self.expr(cx, env, fn.value, lambda v: self.seq(
                    cx, env, node.args, lambda it: self.bindk(
                        cx, " ".join([methods[(attr, nargs)], v] + it), k)))
            if plain and attr == "get" and nargs == 1:
                return self.expr(cx, env, fn.value, lambda v: self.expr(
                    cx, env, node.args[0], lambda a: self.bindk(
                        cx, "pdict_get %s %s PNone" % (v, a), k)))
            if plain and attr == "split" and nargs == 2 and \
                    isinstance(node.args[1], ast.Constant) and \
                    type(node.args[1].value) is int and \
                    node.args[1].value == 1:
                return self.expr(cx, env, fn.value, lambda v: self.expr(
                    cx, env, node.args[0], lambda a: self.bindk(
                        cx, "psplit1 %s %s" % (v, a), k)))
            raise Unsupported(node, "method call")
        fname = self.dotted(fn)
        if fname in STRFUNS and fname not in env and plain and \
                len(node.args) == 1:
            return self.expr(cx, env, node.args[0], lambda a: self.bindk(
                cx, "pstrfun %s %s" % (STRFUNS[fname], a), k))
        if fname == "check_token" and fname not in env and \
                self.token_sig is not None and not any(
                    isinstance(a, ast.Starred) for a in node.args):
            params, defaults = self.token_sig
            kw = {}
            for w in node.keywords:
                if w.arg is None or w.arg in kw or w.arg not in params or \
                        params.index(w.arg) < len(node.args):
                    raise Unsupported(node, "keyword")
                kw[w.arg] = w.value
            if len(node.args) > len(params):
                raise Unsupported(node, "too many arguments")
            nodes = []
            for i, p in enumerate(params):
                if i < len(node.args):
                    nodes.append(node.args[i])
                elif p in kw:
                    nodes.append(kw[p])
                elif p in defaults:
                    nodes.append(defaults[p])
                else:
                    raise Unsupported(node, "missing argument %s" % p)
            return self.seq(cx, env, nodes, lambda items: self.bindk(
                cx, " ".join(["CT"] + items), k))
        if fname is not None and env.get(fname) == "@endpoint" and plain \
                and len(node.args) == 1 and self.resolve(
                    env, self.dotted(node.args[0])) == "req":
            if "req.user" not in env:
                raise Unsupported(node, "endpoint called before req.user")
            return self.bindk(cx, "pcall_endpoint %s" % env["req.user"], k)
        if fname in self.callees and fname not in env and plain:
            gen, params, defaults = self.callees[fname]
            if len(node.args) > len(params):
                raise Unsupported(node, "too many arguments")
            oi = self.objparams[fname]
            if len(node.args) <= oi or self.resolve(
                    env, self.dotted(node.args[oi])) != "req":
                raise Unsupported(node, "object argument")
            nodes = []
            for i, p in enumerate(params):
                if i == oi:
                    continue
                if i < len(node.args):
                    nodes.append(node.args[i])
                elif p in defaults:
                    nodes.append(defaults[p])
                else:
                    raise Unsupported(node, "missing argument %s" % p)
            fields = [env["req." + f] for f in REQ_FIELDS]  # callee's fields
            return self.seq(cx, env, nodes, lambda items: self.bindk(
                cx, " ".join([gen] + fields + items), k))
        raise Unsupported(node, "call")

    # ----------------------------------------------------------- statements
    def block(self, cx, env, stmts, kend, loopk=None):
        if not stmts:
            return kend(env)
        st, rest = stmts[0], stmts[1:]

        def after(env2):
            return self.block(cx, env2, rest, kend, loopk)
        if isinstance(st, (ast.For, ast.While, ast.AugAssign, ast.Delete)):
            raise Unsupported(st, "statement")
        if isinstance(st, ast.Raise):
            exc = st.exc
            if st.cause is not None or not isinstance(exc, ast.Call) or \
                    self.dotted(exc.func) != "HTTPException" or \
                    "HTTPException" in env or \
                    any(isinstance(a, ast.Starred) for a in exc.args) or \
                    any(w.arg is None for w in exc.keywords):
                raise Unsupported(st, "raise")
            npos = len(exc.args)
            nodes = list(exc.args) + [w.value for w in exc.keywords]
            return self.seq(cx, env, nodes, lambda items: (
                'Err (Raised "HTTPException" (PTuple [%s]))' % "; ".join(
                    items[:npos] + ["PTuple [PStr %s; %s]" % (
                        strlit(w.arg), it) for w, it in zip(
                            exc.keywords, items[npos:])])))
        if isinstance(st, ast.Assign):
            if len(st.targets) != 1:
                raise Unsupported(st, "chained assignment")
            tgt = st.targets[0]
            # app = req.app
            if isinstance(tgt, ast.Name):
                obj = self.resolve(env, self.dotted(st.value))
                if obj in OBJECTS:
                    # (an alias made in a branch reaches a join point as a
                    # term and is refused by the "@" test below)
                    return after(dict(env, **{tgt.id: "@" + obj}))
            # d[k] = v
            if isinstance(tgt, ast.Subscript):
                name = self.dotted(tgt.value)
                if not isinstance(tgt.value, ast.Name) or name not in env \
                        or env[name].startswith("@"):
                    raise Unsupported(tgt, "subscript store")
                new = cx.fresh(name)
                return self.expr(cx, env, st.value, lambda v: self.expr(
                    cx, env, tgt.slice, lambda key: (
                        "%s <- pdict_set %s %s %s ;;\n%s" % (
                            new, env[name], key, v,
                            after(dict(env, **{name: new}))))))
            # a, b, c = e
            if isinstance(tgt, ast.Tuple) and len(tgt.elts) == 3:
                if not all(isinstance(e, ast.Name) for e in tgt.elts):
                    raise Unsupported(st, "unpack target")
                vs = [cx.fresh("u") for _ in tgt.elts]
                env2 = dict(env)
                for e, v in zip(tgt.elts, vs):
                    env2[e.id] = v
                return self.expr(cx, env, st.value, lambda v: (
                    "pr <- punpack3 %s ;; let '(%s, %s, %s) := pr in\n%s" % (
                        v, vs[0], vs[1], vs[2], after(env2))))
            # req.user = e
            if isinstance(tgt, ast.Attribute):
                name = self.resolve(env, self.dotted(tgt))
                if name not in STORES or name not in self.fields_writable:
                    raise Unsupported(st, "attribute store")
                var = cx.fresh(name)
                return self.expr(cx, env, st.value, lambda v: (
                    "let %s := %s in\n%s" % (
                        var, v, after(dict(env, **{name: var})))))
            if not isinstance(tgt, ast.Name):
                raise Unsupported(st, "assignment target")
        if isinstance(st, ast.Try):
            return self.try_stmt(cx, env, st, after, loopk)
        return super().block(cx, env, stmts, kend, loopk)

    def effect_call(self, cx, env, call, after):
        raise Unsupported(call, "statement call")

    def try_stmt(self, cx, env, st, after, loopk):
        if st.orelse or st.finalbody or not st.handlers:
            raise Unsupported(st, "try shape")
        if cx.retwrap is not None or cx.result is not None:
            raise Unsupported(st, "nested try")
        inner = st.body + [s for h in st.handlers for s in h.body]
        if self.names_assigned(inner):
            raise Unsupported(st, "assignment inside try")
        join, exn = cx.fresh("k"), cx.fresh("exn")
        jcode = after(env)
        cx.retwrap = lambda e, a: "Ok (Returned %s)" % a
        cx.result = lambda e: "Ok (Returned PNone)"
        try:
            body = self.block(cx, env, st.body, lambda e: "Ok Fell", loopk)
        finally:
            cx.retwrap = cx.result = None
        chain = "Err %s" % exn
        for h in reversed(st.handlers):
            if not isinstance(h.type, ast.Name) or \
                    h.type.id not in CATCHABLE:
                raise Unsupported(h, "except clause")
            henv = dict(env)
            if h.name:
                henv[h.name] = "(exn_value %s)" % exn
            hcode = self.block(cx, henv, h.body,
                               lambda e: "%s tt" % join, loopk)
            chain = 'if exn_is "%s" %s then (%s)\nelse (%s)' % (
                h.type.id, exn, hcode, chain)
        return ("let %s := fun (_ : unit) => (%s) in\n"
                "ptry (%s)\n(fun %s => %s)\n%s" % (
                    join, jcode, body, exn, chain, join))

    # ------------------------------------------------------------ functions
    def digest_function(self, fundef, gen_name, req_fields=REQ_FIELDS,
                        closure=(), endpoint=None, stores=()):
        a = fundef.args
        if a.vararg or a.kwarg or a.kwonlyargs or a.posonlyargs:
            raise Unsupported(fundef, "signature")
        if endpoint is None:
            if fundef.decorator_list:
                raise Unsupported(fundef, "decorator")
        elif [ast.dump(d) for d in fundef.decorator_list] != [ast.dump(
                ast.parse("wraps(%s)" % endpoint, mode="eval").body)]:
            raise Unsupported(fundef, "decorator")
        for node in ast.walk(fundef):
            if isinstance(node, (ast.Global, ast.Nonlocal, ast.FunctionDef,
                                 ast.Lambda, ast.Yield, ast.YieldFrom,
                                 ast.Await, ast.NamedExpr)) \
                    and node is not fundef:
                raise Unsupported(node, "construct")
        params = [p.arg for p in a.args]
        if not params:
            raise Unsupported(fundef, "no object parameter")
        obj, own = params[0], params[1:]
        if len(set(params + list(closure) + [endpoint])) != \
                len(params) + len(closure) + 1:
            raise Unsupported(fundef, "shadowed name")
        fields = ["req." + f for f in req_fields]
        init = {obj: "@req"}
        if endpoint is not None:
            init[endpoint] = "@endpoint"
        self.fields_writable = set(stores)
        text = self.function(fundef, gen_name, fields + list(closure) + own,
                             init_env=init)
        if "@" in text:
            raise Unsupported(fundef, "object escaped into a term")
        return params

    def write_digest(self, filename, header):
        os.makedirs(py2v.GEN, exist_ok=True)
        out = ["(* GENERATED by harness/py2v_digest.py from %s -- do not "
               "edit *)" % header,
               "From Coq Require Import ZArith List Bool String.",
               "Require Import PW.lib.Val PW.lib.Dec PW.lib.Py "
               "PW.lib.PyDigest.",
               "Import ListNotations.", "Open Scope string_scope.",
               "Open Scope list_scope.", "Open Scope Z_scope.", "",
               "Section Gen."]
        for v, ty in SECTION_VARS:
            out.append("Variable %s : %s." % (v, ty))
        out += self.defs
        out.append("End Gen.")
        path = os.path.join(py2v.GEN, filename)
        text = "\n\n".join(out) + "\n"
        old = open(path).read() if os.path.exists(path) else None
        if old != text:
            with open(path, "w") as f:
                f.write(text)
        return path


def check_imports(tree):
    """sha256 / unquote must be the library functions the Section variables
    stand for, bound once at module level"""
    found = {}
    for node in ast.walk(tree):
        if isinstance(node, ast.ImportFrom):
            for alias in node.names:
                bound = alias.asname or alias.name
                if bound in IMPORTS:
                    if node not in tree.body or alias.asname or \
                            node.level or bound in found:
                        raise Unsupported(node, "import of %s" % bound)
                    found[bound] = node.module
        elif isinstance(node, ast.Import):
            for alias in node.names:
                if (alias.asname or alias.name) in IMPORTS:
                    raise Unsupported(node, "import")
        elif isinstance(node, (ast.FunctionDef, ast.ClassDef)) and \
                node.name in IMPORTS:
            raise Unsupported(node, "redefinition")
        elif isinstance(node, ast.Name) and node.id in IMPORTS and \
                isinstance(node.ctx, (ast.Store, ast.Del)):
            raise Unsupported(node, "rebinding")
    if found != IMPORTS:
        raise Unsupported(tree, "imports %s" % found)


def drop_compiled():
    """py2v.regenerate removes gen/DigestGen.v when the translation is
    refused; the compiled files must go too, or the old DigestGen.vo would
    keep the dependent theorems compiling"""
    coq = os.path.dirname(py2v.GEN)
    for stem in (os.path.join(py2v.GEN, "DigestGen"),
                 os.path.join(coq, "proofs", "DigestGenEq")):
        for ext in (".vo", ".vos", ".vok", ".glob"):
            if os.path.exists(stem + ext):
                os.unlink(stem + ext)


def gen_digest():
    """digest.check_response / check_credentials -> gen/DigestGen.v"""
    try:
        return translate()
    except Exception:
        drop_compiled()
        raise


def translate():
    tree = py2v.parse(SOURCE)
    check_imports(tree)
    funs = {}
    for name in ("check_response", "check_credentials"):
        found = [n for n in tree.body if isinstance(n, ast.FunctionDef)
                 and n.name == name]
        if len(found) != 1:
            raise Unsupported(tree, "definitions of %s" % name)
        funs[name] = found[0]
    for node in ast.walk(tree):
        if isinstance(node, ast.Name) and node.id in funs and \
                isinstance(node.ctx, (ast.Store, ast.Del)):
            raise Unsupported(node, "rebinding")
    unit = DigestUnit()
    resp = funs["check_response"]
    rparams = [p.arg for p in resp.args.args]
    if resp.args.defaults:
        raise Unsupported(resp, "defaults")
    unit.callees["check_response"] = ("gen_check_response", rparams, {})
    unit.objparams["check_response"] = 0
    unit.digest_function(resp, "gen_check_response")
    cred = funs["check_credentials"]
    cparams = unit.digest_function(cred, "gen_check_credentials")
    # the request gate: check_digest(realm, username=None) -> wrapper(fun)
    # -> handler(req)
    outer = [n for n in tree.body if isinstance(n, ast.FunctionDef)
             and n.name == "check_digest"]
    if len(outer) != 1:
        raise Unsupported(tree, "definitions of check_digest")
    outer = outer[0]

    def closure_shape(fun):
        """[docstring,] def inner(...): ...; return inner"""
        body = [st for st in fun.body if not (
            isinstance(st, ast.Expr) and isinstance(st.value, ast.Constant)
            and isinstance(st.value.value, str))]
        a = fun.args
        if len(body) != 2 or not isinstance(body[0], ast.FunctionDef) or \
                not isinstance(body[1], ast.Return) or \
                not isinstance(body[1].value, ast.Name) or \
                body[1].value.id != body[0].name or \
                a.vararg or a.kwarg or a.kwonlyargs or a.posonlyargs:
            raise Unsupported(fun, "closure shape")
        return body[0], [p.arg for p in a.args]
    if outer.decorator_list:
        raise Unsupported(outer, "decorator")
    wrapper, oparams = closure_shape(outer)
    if wrapper.decorator_list:
        raise Unsupported(wrapper, "decorator")
    handler, wparams = closure_shape(wrapper)
    if len(wparams) != 1 or wrapper.args.defaults:
        raise Unsupported(wrapper, "signature")
    cdefaults = dict(zip(cparams[len(cparams) - len(cred.args.defaults):],
                         cred.args.defaults))
    unit.callees["check_credentials"] = ("gen_check_credentials", cparams,
                                         cdefaults)
    unit.objparams["check_credentials"] = 0
    chk = py2v.find_function(py2v.parse("poorwsgi/session.py"),
                             "check_token")
    ca = chk.args
    tparams = [p.arg for p in ca.args]
    if len(tparams) != 4 or ca.vararg or ca.kwarg or ca.kwonlyargs or \
            ca.posonlyargs:
        raise Unsupported(chk, "check_token signature")
    unit.token_sig = (tparams, dict(zip(
        tparams[len(tparams) - len(ca.defaults):], ca.defaults)))
    unit.consts = py2v.state_consts()
    unit.digest_function(handler, "gen_digest_handler",
                         req_fields=GATE_FIELDS, closure=oparams,
                         endpoint=wparams[0], stores=STORES)
    return unit.write_digest(
        "DigestGen.v", SOURCE + " check_response, check_credentials, "
        "check_digest (handler)")


def register(TARGETS, OUTPUT):
    TARGETS["digest"] = gen_digest
    OUTPUT["digest"] = "DigestGen.v"
