"""Shared by the dispatch checks (C01, C03, C04, C05, C17, C20): scenario
descriptions, construction of a real Application from a scenario, the Coq term
of the same scenario for model/Dispatch.v, canonical observation."""
import json

import implrun  # noqa: F401
from implrun import new_app, environ, call
from core import slit, zlit, clist, Exn

IMPORTS = "Require Import PW.model.Dispatch PW.model.DispatchRun."

BUILTIN = (304, 400, 401, 403, 404, 405, 500, 501)
METHODS = {"HEAD": 1, "GET": 2, "POST": 4, "PUT": 8, "DELETE": 16,
           "TRACE": 32, "OPTIONS": 64, "CONNECT": 128, "PATCH": 256}


# ------------------------------------------------------------------ classes
class Base(Exception):
    pass


class Derived(Base):
    pass


class Unrelated(Exception):
    pass


CLASSES = {1: Base, 2: Derived, 3: Unrelated, 4: ValueError,
           5: FileNotFoundError, 6: TimeoutError, 7: TypeError,
           8: AttributeError, 10: Exception, 11: KeyError, 12: IndexError}


# ------------------------------------------------------------------ values
# respdesc: ("base", status, headers|None, ctype, data) |
#           ("nocontent", status, headers|None) | ("declined",)
def build_resp(desc):
    from poorwsgi.response import Response, NoContentResponse, Declined
    if desc[0] == "base":
        _, status, hdrs, ctype, data = desc
        return Response(data, ctype, None if hdrs is None else list(hdrs),
                        status)
    if desc[0] == "nocontent":
        _, status, hdrs = desc
        return NoContentResponse(None if hdrs is None else list(hdrs), status)
    return Declined()


def hdrs_term(hdrs):
    return clist("(%s,%s)" % (slit(k), slit(v)) for k, v in hdrs)


XPB = [("X-Powered-By", "Poor WSGI for Python")]


def resp_term(desc):
    if desc[0] == "base":
        _, status, hdrs, ctype, data = desc
        body = data.encode("utf-8") if isinstance(data, str) else data
        return "(mkResp CBase %s %s %s %s [%s])" % (
            zlit(status), hdrs_term(XPB if hdrs is None else hdrs),
            slit(ctype), zlit(len(body)), slit(body))
    if desc[0] == "nocontent":
        _, status, hdrs = desc
        return "(mkResp CNoContent %s %s [] 0 [])" % (
            zlit(status), hdrs_term(XPB if hdrs is None else hdrs))
    return "(mkResp CDeclined 200 [] [] 0 [])"


class Obj:
    pass


def build_val(v):
    """python value of a pyval description"""
    kind = v[0]
    if kind in ("str", "bytes", "dict", "list", "int"):
        return v[1]
    if kind == "dict_bad":
        return {"k": Obj()}
    if kind == "list_bad":
        return [Obj()]
    if kind == "listbytes":
        return list(v[1])
    if kind == "iter":
        return (c for c in v[1])
    if kind == "none":
        return None
    if kind == "obj":
        return Obj()
    if kind == "hdrs":
        return dict(v[1])
    if kind == "hdrs_list":
        return list(v[1])
    if kind == "hdrs_obj":
        from poorwsgi.headers import Headers
        return Headers(list(v[1]))
    if kind == "hdrs_bad":
        return 42.5
    if kind == "tuple":
        return tuple(build_val(x) for x in v[1])
    if kind == "resp":
        return build_resp(v[1])
    raise ValueError(v)


def val_term(v):
    kind = v[0]
    if kind == "str":
        return "(PStr %s)" % slit(v[1])
    if kind == "bytes":
        return "(PBytes %s)" % slit(v[1])
    if kind == "dict":
        return "(PDict (Some %s))" % slit(json.dumps(v[1]))
    if kind == "list":
        return "(PListJson (Some %s))" % slit(json.dumps(v[1]))
    if kind == "dict_bad":
        return "(PDict None)"
    if kind == "list_bad":
        return "(PListJson None)"
    if kind == "listbytes":
        return "(PListBytes %s)" % clist(slit(c) for c in v[1])
    if kind == "iter":
        return "(PIter %s)" % clist(slit(c) for c in v[1])
    if kind == "none":
        return "PNone"
    if kind == "int":
        return "(PInt %s)" % zlit(v[1])
    if kind == "obj":
        return "PObj"
    if kind == "hdrs":          # a dict: later duplicates replace earlier
        return "(PHdrs (Some %s))" % hdrs_term(list(dict(v[1]).items()))
    if kind in ("hdrs_list", "hdrs_obj"):
        return "(PHdrs (Some %s))" % hdrs_term(v[1])
    if kind == "hdrs_bad":
        return "(PHdrs None)"
    if kind == "tuple":
        return "(PTuple %s)" % clist(val_term(x) for x in v[1])
    if kind == "resp":
        return "(PResp %s)" % resp_term(v[1])
    raise ValueError(v)


# ------------------------------------------------------------------ behaviour
# ("ret", val) | ("pass",) | ("abort", code) | ("abortresp", respdesc) |
# ("throw", cls) | ("conn",) | ("exit",)
def beh_term(b):
    kind = b[0]
    if kind == "ret":
        return "(Ret %s)" % val_term(b[1])
    if kind == "pass":
        return "Pass"
    if kind == "meddle":     # assigns req.uri_handler / uri_rule: a no-op
        return "(Ret %s)" % val_term(("none",))
    if kind == "abort":
        return "(Abort %s)" % zlit(b[1])
    if kind == "abortresp":
        return "(AbortResp %s)" % resp_term(b[1])
    if kind == "throw":
        return "(Throw %s)" % zlit(b[1])
    if kind == "conn":
        return "ThrowConn"
    return "ThrowExit"


def act(b, given=None):
    """perform behaviour b inside a user callable"""
    from poorwsgi.response import abort
    kind = b[0]
    if kind == "ret":
        return build_val(b[1])
    if kind == "pass":
        return given
    if kind == "abort":
        abort(b[1])
    if kind == "abortresp":
        abort(build_resp(b[1]))
    if kind == "throw":
        raise CLASSES[b[1]]("SECRET-%d" % b[1])
    if kind == "conn":
        raise ConnectionError("conn")
    raise SystemExit(3)


def _decoy(req):
    return "decoy"


class _CallableObject:
    """a handler that is an instance with __call__ (no __name__/__code__)"""
    def __init__(self, fun):
        self.fun = fun

    def __call__(self, *args, **kwargs):
        return self.fun(*args, **kwargs)


# ------------------------------------------------------------------ scenario
class Scenario:
    """before/after: list of beh; shandlers: {(code, methodbit): beh};
    ehandlers: [(cls, {methodbit: beh})]; digest: bool;
    construct: None | "badlen" | "nopath" | "badjson";
    method: name; leaf: ("endpoint", beh) | ("404",) | ("405",) |
    ("debug",) | ("pre", cls)"""
    docroot = None      # class-wide sandbox: set by ensure_docroot()

    def __init__(self, before=(), after=(), shandlers=None, ehandlers=(),
                 digest=False, construct=None, method="GET",
                 leaf=("endpoint", ("ret", ("str", "ok"))), debug=False):
        self.before, self.after = list(before), list(after)
        self.shandlers = dict(shandlers or {})
        self.ehandlers = list(ehandlers)
        self.digest, self.construct = digest, construct
        self.method, self.leaf, self.debug = method, leaf, debug

    def describe(self):
        return {"before": self.before, "after": self.after,
                "shandlers": {"%d/%d" % k: v
                              for k, v in self.shandlers.items()},
                "ehandlers": self.ehandlers, "digest": self.digest,
                "construct": self.construct, "method": self.method,
                "leaf": self.leaf, "debug": self.debug,
                "callable_shape": getattr(self, "shape", None),
                "host": getattr(self, "host", None)}

    def merged_ehandlers(self):
        """the exception table after all registrations: a class keeps the
        position of its FIRST registration, later ones add method bits"""
        order, table = [], {}
        for cls, hd in self.ehandlers:
            if cls not in table:
                order.append(cls)
                table[cls] = {}
            table[cls].update(hd)
        return [(cls, table[cls]) for cls in order]

    # ---- Coq side
    def app_term(self):
        sh = clist("((%s,%s),%s)" % (zlit(c), zlit(m), beh_term(b))
                   for (c, m), b in self.shandlers.items())
        eh = clist("(%s,%s)" % (zlit(cls), clist(
            "(%s,%s)" % (zlit(m), beh_term(b)) for m, b in hd.items()))
            for cls, hd in self.merged_ehandlers())
        return "(mkApp %s %s %s %s %s)" % (
            clist(beh_term(b) for b in self.before),
            clist(beh_term(b) for b in self.after), sh, eh,
            "true" if self.digest else "false")

    def facts_term(self):
        cons = {None: "None", "badlen": "(Some (EUser 4))",
                "nopath": "(Some EConn)",
                "badjson": "(Some (EHttp 400))"}[self.construct]
        kind = self.leaf[0]
        if kind in ("endpoint", "pattern", "default"):
            leaf = "(LEndpoint %s)" % beh_term(self.leaf[1])
        elif kind in ("404", "405", "403"):
            leaf = "(LRaise (EHttp %s))" % kind
        elif kind in ("debug", "debugroot"):
            leaf = "(LValue (PStr %s))" % slit("<debug>")
        elif kind == "file":
            leaf = "(LValue (PResp (mkResp CBase 200 %s %s 12 [%s])))" % (
                hdrs_term(XPB + [("Accept-Ranges", "bytes"),
                                 ("Last-Modified", "<date>")]),
                slit("text/plain"), slit(b"file-content"))
        elif kind == "dir":
            leaf = "(LValue (PTuple [PStr %s; PStr %s; PHdrs (Some %s)]))" % (
                slit("<listing>"), slit("text/html; character=utf-8"),
                hdrs_term([("Last-Modified", "<date>")]))
        else:
            leaf = "(LPre (EUser %s))" % zlit(self.leaf[1])
        mbit = METHODS.get(self.method, 2)
        return "(mkFacts %s %s %s)" % (cons, zlit(mbit), leaf)

    def term(self):
        return "run_cycle %s %s" % (self.app_term(), self.facts_term())

    # ---- implementation side
    built = 0
    SHAPES = ("function", "wrapped", "partial", "object", "function")
    HOSTS = (None, "example.org", "example.org:", "[::1", "h\xe9te:80",
             "example.org:8080")

    def build(self):
        trace = []
        app = new_app(debug=self.debug)
        if getattr(self, "shape", None) is None:
            # a function of the scenario itself (replays reproduce it)
            import zlib
            key = zlib.crc32(repr((self.before, self.after, self.leaf,
                                   self.method, self.construct,
                                   sorted(self.shandlers.items()),
                                   self.ehandlers)).encode())
            self.shape = Scenario.SHAPES[key % 5]
            self.host = Scenario.HOSTS[(key // 5) % 6]
        shape = self.shape
        endpoint_box = []

        def wrap(fun):
            """any callable is a handler"""
            if shape == "partial":
                import functools
                return functools.partial(fun)
            if shape == "object":
                return _CallableObject(fun)
            if shape == "wrapped":
                # a decorated callable: what was registered is the wrapper
                import functools

                @functools.wraps(fun)
                def decorated(*args, **kwargs):
                    return fun(*args, **kwargs)
                decorated.__name__ = "decorated_" + fun.__name__
                return decorated
            return fun
        if self.digest:
            app.secret_key = "k" * 16
            app.auth_type = "Digest"

        self.seen = seen = []

        def mk_before(i, b):
            def hook(req):
                trace.append(["B", i])
                seen.append((req.uri_rule, "endpoint" if endpoint_box and
                             req.uri_handler is endpoint_box[0] else
                             "other:%s" % getattr(req.uri_handler, "__name__",
                                                  None)))
                if b == ("meddle",):
                    # the chosen endpoint and rule are write-once on the
                    # request: a hook that assigns them changes nothing
                    try:
                        req.uri_handler = _decoy
                        req.uri_rule = "/decoy"
                    except Exception:  # noqa
                        pass
                    return None
                return act(b)
            hook.__name__ = "before%d" % i
            return hook

        self.seen_after = seen_after = []

        def mk_after(i, b):
            def hook(req, res):
                trace.append(["A", i, res.status_code])
                seen_after.append("endpoint" if endpoint_box and
                                  req.uri_handler is endpoint_box[0] else
                                  "other:%s" % getattr(req.uri_handler,
                                                       "__name__", None))
                return act(b, res)
            hook.__name__ = "after%d" % i
            return hook
        for i, b in enumerate(self.before):
            app.add_before_response(wrap(mk_before(i, b)))
        for i, b in enumerate(self.after):
            app.add_after_response(wrap(mk_after(i, b)))
        for (code, mbit), b in self.shandlers.items():
            def sh(req, *args, _c=code, _b=b, **kw):
                trace.append(["S", _c])
                return act(_b)
            app.set_http_state(code, wrap(sh), mbit)
        for cls, hd in self.ehandlers:
            for mbit, b in hd.items():
                def eh(req, err, _c=cls, _b=b):
                    trace.append(["X", _c])
                    return act(_b)
                app.set_error_handler(CLASSES[cls], wrap(eh), mbit)
        path = "/x"
        kind = self.leaf[0]
        allm = 511
        if kind in ("file", "dir", "403", "debugroot"):
            app.document_root = ensure_docroot()
            app.document_index = kind == "dir"
        if kind in ("endpoint", "pattern", "default"):
            def endpoint(req, *args, _b=self.leaf[1]):
                trace.append(["E"])
                return act(_b)
            endpoint = wrap(endpoint)
            endpoint_box.append(endpoint)
            if kind == "endpoint":
                app.set_route("/x", endpoint, allm)
            elif kind == "pattern":
                app.set_route("/p/<name:word>/<n:int>", endpoint, allm)
                path = "/p/bob/7"
            else:
                app.set_default(endpoint, allm)
                path = "/whatever/else"
        elif kind == "file":
            path = "/f.txt"
        elif kind in ("dir", "403"):
            path = "/sub"
        elif kind == "debugroot":
            path = "/debug-info"
        elif kind == "404":
            path = "/nowhere"
        elif kind == "405":
            mbit = METHODS.get(self.method, 2)
            other = 4 if mbit != 4 else 2
            app.set_route("/x", lambda req: "never", other)
        elif kind == "debug":
            path = "/debug-info"
        else:
            def conv(text, _c=self.leaf[1]):
                raise CLASSES[_c]("SECRET-conv")
            app.set_filter("bad", r"\d+", conv)
            app.set_route("/c/<v:bad>", lambda req, v: "never", allm)
            path = "/c/1"
        env = environ(method=self.method, path=path)
        if self.host is not None:
            env["HTTP_HOST"] = self.host
        if self.construct == "badlen":
            env["CONTENT_LENGTH"] = "abc"
        elif self.construct == "nopath":
            del env["PATH_INFO"]
        elif self.construct == "badjson":
            import io
            env = environ(method="POST", path=path, body=b"{bad",
                          content_type="application/json")
            env["REQUEST_METHOD"] = self.method if self.method in (
                "POST", "PUT", "PATCH") else "POST"
        if self.host is not None:
            env["HTTP_HOST"] = self.host
        return app, env, trace

    def run(self):
        app, env, trace = self.build()
        ans = call(app, env)
        return ans, trace


_DOCROOT = []


def ensure_docroot():
    """sandbox document root shared by the scenarios of one check run"""
    import atexit
    import os
    import shutil
    import tempfile
    if not _DOCROOT:
        top = tempfile.mkdtemp(prefix="disp_", dir="/root/scratch")
        os.makedirs(os.path.join(top, "sub"))
        with open(os.path.join(top, "f.txt"), "wb") as fil:
            fil.write(b"file-content")
        with open(os.path.join(top, "sub", "g.txt"), "wb") as fil:
            fil.write(b"g")
        _DOCROOT.append(top)
        atexit.register(shutil.rmtree, top, True)
    return _DOCROOT[0]


def canon_body(body):
    if body is None:
        return None
    if body.startswith(b"<!DOCTYPE html>"):
        if b"<title>Index of" in body:
            return b"<listing>"
        import re
        m = re.search(rb"<title>(\d{3}) - ", body)
        if m:
            return b"<page %s>" % m.group(1)
        if b"<title>Poor Wsgi Debug info</title>" in body:
            return b"<debug>"
    return body


def canon_headers(headers):
    out = []
    for key, val in headers:
        if key == "Content-Length":
            continue
        if key in ("Date", "Last-Modified"):
            val = "<date>"
        out.append([key, val])
    return out


def observe(ans, trace):
    """canonical observation comparable with DispatchRun.enc_outcome"""
    if ans.raised is not None:
        name = type(ans.raised).__name__
        return [Exn(name), trace]
    calls = [[st[:3], canon_headers(hs)] for st, hs in ans.calls]
    chunks = [c for c in (ans.chunks or [])]
    body = canon_body(b"".join(c for c in chunks if isinstance(c, bytes)))
    return [[calls, body], trace]


# ------------------------------------------------------------------ generators
RESP_POOL = [
    ("base", 200, None, "text/plain", "hello"),
    ("base", 201, [("X-A", "1"), ("Set-Cookie", "a=1"), ("Set-Cookie", "b=2")],
     "text/html; charset=utf-8", "čau"),
    ("base", 418, None, "", b"\x00\xff"),
    ("base", 304, [("ETag", '"e"')], "text/plain", ""),
    ("base", 200, [("Content-Type", "x/y")], "text/plain", "typed"),
    ("base", 500, None, "text/plain", "custom-500"),
    ("base", 200, [("content-type", "x/lower")], "text/plain", "lc"),
    ("base", 200, [("CONTENT-LENGTH", "2"), ("X-U", "1")], "text/plain", "ab"),
    ("nocontent", 204, None),
    ("nocontent", 304, [("ETag", '"n"'), ("Vary", "Accept")]),
    ("nocontent", 202, [("X-N", "1")]),
    ("declined",),
]
VAL_POOL = [
    ("str", "text"), ("str", ""), ("str", "žluť \U0001f600"),
    ("bytes", b"raw\x00"), ("bytes", b""),
    ("dict", {}), ("dict", {"a": [1, "ž", None]}), ("list", []),
    ("list", [1, {"b": 2}]), ("dict_bad",), ("list_bad",),
    ("listbytes", [b"a", b"", b"bc"]), ("iter", [b"x", b"yz"]), ("iter", []),
    ("none",), ("int", 5), ("obj",),
    ("tuple", [("str", "t1")]),
    ("tuple", [("str", "t2"), ("str", "text/plain")]),
    ("tuple", [("str", "t3"), ("str", "text/plain"),
               ("hdrs", [("X-T", "3")])]),
    ("tuple", [("str", "t5"), ("str", "text/plain"),
               ("hdrs_list", [("CONTENT-TYPE", "x/upper")])]),
    ("tuple", [("bytes", b"t4"), ("str", "a/b"),
               ("hdrs_list", [("X-T", "4"), ("Set-Cookie", "c=1")]),
               ("int", 202)]),
    ("tuple", [("none",), ("str", "text/plain"), ("none",), ("int", 200)]),
    ("tuple", [("none",), ("str", "text/plain"), ("none",), ("int", 404)]),
    ("tuple", [("dict", {"k": 1}), ("int", 7), ("hdrs_obj", [("X-O", "o")]),
               ("int", 201)]),
    ("tuple", [("str", "bad-ctype"), ("int", 7)]),
    ("tuple", [("str", "bad-status"), ("str", "a/b"), ("none",),
               ("int", 999)]),
    ("tuple", [("str", "bad-status2"), ("str", "a/b"), ("none",),
               ("str", "200")]),
    ("tuple", [("str", "bad-hdrs"), ("str", "a/b"), ("hdrs_bad",)]),
    ("tuple", [("str", "five"), ("str", "a/b"), ("none",), ("int", 200),
               ("int", 1)]),
    ("tuple", []),
    ("tuple", [("obj",)]),
    ("tuple", [("iter", [b"it"]), ("str", "a/b"), ("none",), ("int", 206)]),
] + [("resp", r) for r in RESP_POOL]
ABORT_CODES = [0, 200, 204, 304, 400, 401, 403, 404, 405, 416, 418, 500, 501,
               503,
               # codes the reason-phrase table does not know
               420, 599]


def _state_codes():
    """every HTTP_* constant of poorwsgi.state (registered or not): an abort
    may carry any of them"""
    from poorwsgi import state
    return sorted({v for k, v in vars(state).items()
                   if k.startswith("HTTP_") and type(v) is int} -
                  set(ABORT_CODES))


# the special codes keep their weight
ABORT_CODES = ABORT_CODES + ABORT_CODES[:8] + _state_codes()


def rand_beh(rng, hook=None):
    """hook: None endpoint/handler, 'before', 'after'"""
    roll = rng.random()
    if hook == "before":
        if roll < 0.55:
            return ("ret", ("none",))
    elif hook == "after":
        if roll < 0.45:
            return ("pass",)
    if roll < 0.6:
        return ("ret", rng.choice(VAL_POOL))
    if roll < 0.75:
        return ("abort", rng.choice(ABORT_CODES))
    if roll < 0.82:
        return ("abortresp", rng.choice(RESP_POOL))
    if roll < 0.94:
        return ("throw", rng.choice([1, 2, 3, 3, 5, 6, 7, 8, 11, 12]))
    return rng.choice([("conn",), ("exit",)])


def rand_scenario(rng):
    method = rng.choice(list(METHODS) + ["BREW"])
    mbit = METHODS.get(method, 2)
    sh = {}
    for _ in range(rng.choice([0, 0, 1, 2, 3])):
        code = rng.choice(ABORT_CODES[1:] + [500, 404])
        sh[(code, rng.choice([mbit, mbit, 4, 2]))] = rand_beh(rng)
    eh = []
    for cls in rng.sample([1, 2, 3, 10], rng.choice([0, 0, 1, 2, 3])):
        eh.append((cls, {rng.choice([mbit, mbit, 4]): rand_beh(rng)}))
    leaf_kind = rng.choice(["endpoint"] * 5 + ["pattern", "default", "404",
                                               "405", "debug", "pre", "file",
                                               "dir", "403", "debugroot"])
    debug = leaf_kind in ("debug", "debugroot")
    if leaf_kind in ("endpoint", "pattern", "default"):
        leaf = (leaf_kind, rand_beh(rng))
    elif leaf_kind == "pre":
        leaf = ("pre", rng.choice([1, 2, 3, 4, 5]))
    else:
        leaf = (leaf_kind,)
    if leaf_kind in ("file", "dir", "403", "debugroot") and \
            METHODS.get(method, 2) not in (1, 2):
        method = "GET"
    construct = rng.choice([None] * 8 + ["badlen", "nopath", "badjson"])
    if construct == "badjson" and method not in ("POST", "PUT", "PATCH"):
        construct = None
    return Scenario(
        before=[rand_beh(rng, "before")
                for _ in range(rng.choice([0, 0, 1, 2, 3]))],
        after=[rand_beh(rng, "after")
               for _ in range(rng.choice([0, 0, 1, 2, 3]))],
        shandlers=sh, ehandlers=eh, digest=rng.random() < 0.15,
        construct=construct, method=method, leaf=leaf, debug=debug)


def status_table_ok():
    """the model's table of known status codes equals the interpreter's"""
    from http.client import responses
    import poorwsgi.response  # noqa: F401  (adds 418)
    import re
    import os
    src = open(os.path.join(os.path.dirname(os.path.dirname(
        os.path.abspath(__file__))), "coq", "model", "DispatchRun.v")).read()
    block = re.search(r"known_codes : list Z :=\s*\[(.*?)\]", src, re.S)
    mine = sorted(int(x) for x in re.findall(r"\d+", block.group(1)))
    return mine == sorted(responses), mine, sorted(responses)


def run_scenarios(ctx, name, scenarios):
    """run every scenario on the implementation, queue the correspondence
    with the model, return [(scenario, answer, trace)]"""
    ok, mine, theirs = status_table_ok()
    if not ok:
        ctx.unproved("status-code table of model/DispatchRun.v",
                     {"model": mine, "interpreter": theirs})
    out, cases = [], []
    for sc in scenarios:
        ans, trace = sc.run()
        out.append((sc, ans, trace))
        cases.append((sc.term(), observe(ans, trace), sc.describe()))
    ctx.correspondence(name, IMPORTS, cases, lambda p: p)
    return out


FAILING = ("abort", "abortresp", "throw", "conn", "exit")
