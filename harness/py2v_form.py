"""Translator plugin: the request-data containers of property C10

  poorwsgi/fieldstorage.py
    FieldStorageInterface.getvalue / getfirst / getlist
    FieldStorage.__contains__ / __getitem__ / value / keys / getvalue /
                 getfirst / getlist
  poorwsgi/request.py
    SimpleRequest.query, Args.__init__, EmptyForm.getvalue/getfirst/getlist,
    JsonList.getvalue/getfirst/getlist, parse_json_request,
    the accessors Args / JsonDict inherit (resolved through the classes' base
    lists), Request.is_body_request and the decision skeleton of
    Request.__init__
        ->  coq/gen/FormGen.v

proved equal to coq/model/QueryForm.v in coq/proofs/FormGenEq.v (theorems
C10_generated_*_is_model at the bottom of coq/props/C10.v).

A small translator of its own (Python `ast` -> Gallina over
coq/lib/PyForm.v), syntax directed and fail closed.  Every function becomes a
computation [res fv]; Python exceptions are explicit ([Err]).

Translated from the syntax:
  * statements: assignment to a local, `if/elif/else` (join points over the
    locals bound in every branch), `for` over a list with carried locals and
    early `return`, `return`, `raise KeyError(<local>)`,
    `raise HTTPException(<state constant>, error=<caught>) from <caught>`,
    `try/except BaseException|Exception as e` (one clause), `x.append(e)` on
    a local made by `[]`, `dict.__init__(self, <iterable>)` in the
    constructor of a dict subclass, `self.file.seek(..)`;
  * expressions: constants, locals, `and/or/not` with short circuit,
    `a if c else b`, `== != < <= > >= is None / is not None / in`, tuples
    and lists, `e[i]`, `isinstance(e, classes)`, `len`, `any(<genexp>)`,
    list comprehensions / generator expressions (one `for`, any `if`s, a
    name or a pair as target), `f(x)` for a callable parameter, `.items()
    .keys() .strip() .get(k, d) .decode(cs)`, `dict.fromkeys(<genexp>)`,
    `parse_qs(q, keep, strict)`, `json_loads(e)`, `JsonDict(e)` /
    `JsonList(e)` (subclasses of dict / list without constructor),
    `self[k]`, `k in self`, `self.method(...)` bound by the callee's own
    signature (defaults, keywords), the data attributes and the `value`
    property of FieldStorage objects, `req.query`;
  * method resolution: `key in self` / `self[key]` / truth / iteration of
    `self` and the accessor a class answers with are found through the base
    list written in the class statement (own body, then the bases left to
    right; dict and list provide the container protocol, not the accessors);
  * Request.__init__: the constructor's top-level `if` statements are
    classified by the private attributes their branches assign; the tests
    of the three decisions the model describes are translated into boolean
    functions over the model's [cfg] record (table CFG_* below); every other
    top-level statement must be of a kind / assign a name listed in INIT_SKIP_*.
Primitives (lib/PyForm.v, NOT translated): urllib.parse.parse_qs, str.strip,
bytes.decode and json.loads (Section variables decode / loads), applying a
callable (Section variable apply), dict / list operations.

Dropped by name: docstrings, `log.*(...)` statements, `warnings.warn(<str
constant>, category=DeprecationWarning, stacklevel=<int>)` statements, type
annotations, the argument of `raise KeyError(...)`.

Locals are named by binding position (v1, v2, ...; parameters p1, p2, ...),
so renaming a local, adding comments, docstrings, type hints or log calls
leaves the generated text unchanged.  Anything not listed raises
py2v.Unsupported: gen/FormGen.v and the compiled forms of it and of
proofs/FormGenEq.v are removed and the C10_generated_* theorems stop
compiling.
"""
import ast
import os
import sys

import py2v
from py2v import Unsupported

SRC_REQ = "poorwsgi/request.py"
SRC_FS = "poorwsgi/fieldstorage.py"
OUTFILE = "FormGen.v"

# ===================================================================== TRUSTED
IFACE = "FieldStorageInterface"
ACCESSORS = ["getvalue", "getfirst", "getlist"]
# class -> (module, expected base list, kind)
#   kind dict / list: `self` is the dict / list value itself
#   kind object: `self` is a FieldStorage object (lib/PyForm.v FFs)
CLASSES = {
    IFACE: (SRC_FS, [], "iface"),
    "FieldStorage": (SRC_FS, [IFACE], "object"),
    "EmptyForm": (SRC_REQ, ["dict", IFACE], "dict"),
    "Args": (SRC_REQ, ["dict", IFACE], "dict"),
    "JsonDict": (SRC_REQ, ["dict", IFACE], "dict"),
    "JsonList": (SRC_REQ, ["list"], "list"),
}
# what the builtin bases define (anything else is looked up further on)
BUILTIN_PROTOCOL = {"__contains__", "__getitem__", "__iter__", "__len__",
                    "__init__", "__new__", "__bool__"}
# constructor tag of lib/PyForm.v for an instance of the subclass
DICT_TAGS = {"Args": "DArgs", "EmptyForm": "DEmptyForm",
             "JsonDict": "DJsonDict"}
LIST_TAGS = {"JsonList": "LJsonList"}
# classes in isinstance -> PyForm.pyclass
ISINSTANCE = {"dict": "Cdict", "list": "Clist", "str": "Cstr",
              "bytes": "Cbytes", "StringIO": "CStringIO",
              "BytesIO": "CBytesIO"}
# FieldStorage objects: data attributes (p_getattr) and properties
FS_DATA_ATTRS = ("name", "_value", "file", "list")
FS_PROPERTIES = ("value",)
FILE_ATTR = "file"
FILE_METHODS = ("seek", "read", "getvalue")
# method of a value, number of arguments -> primitive
VALUE_METHODS = {("items", 0): "p_items", ("keys", 0): "p_keys",
                 ("strip", 0): "p_strip", ("get", 2): "p_dict_get"}
# module-level functions that stay primitives: local name -> (module,
# original name, arity, primitive)
PRIM_FUNCS = {"parse_qs": ("urllib.parse", "parse_qs", 3, "p_parse_qs"),
              "json_loads": ("json", "loads", 1, "p_json_loads loads")}
RAISABLE = {"KeyError": 'Raised "KeyError"'}
CATCH_ALL = ("BaseException", "Exception")
HTTP_EXC = ("HTTPException", "poorwsgi.response")
STATE_MODULE = "poorwsgi.state"
BUILTINS = ["isinstance", "len", "any", "dict", "list", "str", "bytes"]
FORBIDDEN_HOOKS = {"__getattribute__", "__getattr__", "__setattr__",
                   "__delattr__", "__new__", "__init_subclass__",
                   "__class_getitem__", "__set_name__", "__instancecheck__"}
RESERVED = set(CLASSES) | set(ISINSTANCE) | set(PRIM_FUNCS) | set(RAISABLE) \
    | set(CATCH_ALL) | set(BUILTINS) | {HTTP_EXC[0], "log", "warnings",
                                        "self", "fieldstorage",
                                        "DeprecationWarning"}

# ---- Request.__init__ (domain specific: boolean functions over cfg) ----
# truthiness of `app.<name>` -> field of the model's cfg
CFG_APP_FLAGS = {"auto_data": "auto_data", "auto_json": "auto_json",
                 "auto_form": "auto_form"}
# integer operands of comparisons
CFG_INTS = {"self.__content_length": "clen c", "app.data_size": "data_size c"}
# whole sub-expressions that are atoms of the model (ast.dump of the parsed
# text is compared)
CFG_ATOMS = {
    "self.server_protocol == 'HTTP/0.9'": "http09 c",
    "self.__mime_type in app.json_mime_types": "in_json c",
    "self.__mime_type in app.form_mime_types": "in_form c",
}
# properties of Request whose body is translated (name -> generated name)
CFG_PROPS = {"is_body_request": "gen_is_body_request"}
# classification of the constructor's top-level `if`s by the attributes
# their branches assign
INIT_DECISIONS = {frozenset(["__file"]): "SBuffer",
                  frozenset(["__args"]): "SArgs",
                  frozenset(["__json", "__form"]): "SBody",
                  frozenset(["__cookies"]): "SCookies"}
# other top-level statements of the constructor: skipped, by kind and name
INIT_SKIP_ASSIGN = {
    "tmp", "ctype", "pdict",
    "self.__headers", "self.__mime_type", "self.__charset",
    "self.__content_length", "self.__accept", "self.__accept_charset",
    "self.__accept_encoding", "self.__accept_language",
    "self.__authorization", "self.__file", "self._errors",
    "self.__cached_size", "self.__cached_input", "self.__read_timeout",
    "self.__path_args", "self.__user", "self.__api", "self.__db",
    "self._SimpleRequest__end_time"}
INIT_SKIP_CALLS = {"super().__init__"}
INIT_SKIP_FOR_ITER = {"environ.items()"}
INIT_SKIP_RAISE_IF = {"ConnectionError"}     # `if ...: raise ConnectionError`
# =============================================================================


def zlist(text):
    return "[" + "; ".join(str(ord(c)) for c in text) + "]"


def is_docstring(st):
    return isinstance(st, ast.Expr) and isinstance(st.value, ast.Constant) \
        and isinstance(st.value.value, str)


def dotted(node):
    if isinstance(node, ast.Name):
        return node.id
    if isinstance(node, ast.Attribute):
        base = dotted(node.value)
        return None if base is None else "%s.%s" % (base, node.attr)
    if isinstance(node, ast.Call) and not node.args and not node.keywords:
        base = dotted(node.func)
        return None if base is None else "%s()" % base
    return None


def is_self(node):
    return isinstance(node, ast.Name) and node.id == "self"


def same_ast(node, text):
    return ast.dump(node) == ast.dump(ast.parse(text, mode="eval").body)


class Sig:
    """signature of a translated method (without self) / function"""
    def __init__(self, tr, fundef, method=True):
        a = fundef.args
        if a.posonlyargs or a.vararg or a.kwonlyargs or a.kw_defaults \
                or a.kwarg:
            raise Unsupported(fundef, "signature")
        args = list(a.args)
        if method:
            if not args or args[0].arg != "self":
                raise Unsupported(fundef, "first parameter is not self")
            args = args[1:]
        self.params = [p.arg for p in args]
        if len(set(self.params)) != len(self.params) or \
                set(self.params) & RESERVED:
            raise Unsupported(fundef, "parameter names")
        self.defaults = {}
        for name, node in zip(self.params[len(self.params)
                                          - len(a.defaults):], a.defaults):
            self.defaults[name] = tr.const_expr(node)


class Fn:
    """state of one function's translation"""
    def __init__(self, name):
        self.name = name
        self.count = 0
        self.retk = None
        self.in_try = False
        self.ctor = False

    def fresh(self):
        self.count += 1
        return "v%d" % self.count


class ClassInfo:
    def __init__(self, name, node, kind, bases):
        self.name, self.node, self.kind, self.bases = name, node, kind, bases
        self.own = {}
        for st in node.body:
            if isinstance(st, ast.FunctionDef):
                if st.name in FORBIDDEN_HOOKS:
                    raise Unsupported(st, "attribute / construction hook")
                if st.name in self.own:
                    # property setter after the getter etc.
                    if not any(isinstance(d, ast.Attribute)
                               for d in st.decorator_list):
                        raise Unsupported(st, "method defined twice")
                    continue
                self.own[st.name] = st
            elif isinstance(st, ast.AnnAssign) and st.value is None:
                continue                         # attribute type hint
            elif isinstance(st, ast.AnnAssign) or isinstance(st, ast.Assign):
                # class attribute: only constants None (name, filename, file)
                tgt = st.target if isinstance(st, ast.AnnAssign) \
                    else (st.targets[0] if len(st.targets) == 1 else None)
                if not (isinstance(tgt, ast.Name)
                        and isinstance(st.value, ast.Constant)
                        and st.value.value is None
                        and tgt.id in ("name", "filename", "file")):
                    raise Unsupported(st, "class attribute")
            elif is_docstring(st) or isinstance(st, ast.Pass):
                continue
            else:
                raise Unsupported(st, "class body statement")


class Translator:
    def __init__(self, trees):
        self.trees = trees
        self.classes = {}
        self.sigs = {}           # (class, method) -> Sig, translated so far
        self.defs = []
        self.state_consts = None

    # ---------------------------------------------------------- class table
    def load_classes(self):
        for name, (src, want_bases, kind) in CLASSES.items():
            tree = self.trees[src]
            found = [n for n in tree.body if isinstance(n, ast.ClassDef)
                     and n.name == name]
            if len(found) != 1:
                raise Unsupported(tree, "definitions of class %s" % name)
            node = found[0]
            if node.decorator_list:
                raise Unsupported(node, "class decorator")
            bases = []
            for b in node.bases:
                if isinstance(b, ast.Name) and b.id in ("dict", "list"):
                    bases.append(b.id)
                elif isinstance(b, ast.Name) and b.id == IFACE and \
                        src == SRC_FS:
                    bases.append(IFACE)
                elif isinstance(b, ast.Attribute) and b.attr == IFACE and \
                        isinstance(b.value, ast.Name) and \
                        b.value.id == "fieldstorage" and src == SRC_REQ:
                    bases.append(IFACE)
                else:
                    raise Unsupported(b, "base class of %s" % name)
            if bases != want_bases:
                raise Unsupported(node, "bases of %s" % name)
            if kind == "iface":
                ok = len(node.keywords) == 1 and \
                    node.keywords[0].arg == "metaclass" and \
                    isinstance(node.keywords[0].value, ast.Name) and \
                    node.keywords[0].value.id == "ABCMeta"
                if not ok:
                    raise Unsupported(node, "class keywords")
            elif node.keywords:
                raise Unsupported(node, "class keywords")
            self.classes[name] = ClassInfo(name, node, kind, bases)

    def resolve(self, cls, name):
        """where class `cls` gets attribute `name` from: ("own", class) /
        ("builtin", "dict"|"list") / None -- own body, then the bases left
        to right (no diamonds in the accepted base lists)"""
        if name in cls.own:
            return ("own", cls.name)
        for b in cls.bases:
            if b in ("dict", "list"):
                if name in BUILTIN_PROTOCOL:
                    return ("builtin", b)
                if name in ("get", "items", "keys", "values", "copy", "pop",
                            "update", "append", "index", "count"):
                    raise Unsupported(cls.node, "builtin method %s" % name)
            else:
                hit = self.resolve(self.classes[b], name)
                if hit is not None:
                    return hit
        return None

    def protocol(self, node, cls, name):
        """the class's __contains__ / __getitem__ / __bool__ / __iter__"""
        hit = self.resolve(cls, name)
        if hit is None and name == "__bool__":
            hit = self.resolve(cls, "__len__")
        if hit is None and name == "__iter__":
            hit = self.resolve(cls, "__getitem__")
        if hit is None:
            raise Unsupported(node, "%s has no %s" % (cls.name, name))
        return hit

    # ------------------------------------------------------------ utilities
    def bind(self, fn, term, k):
        var = fn.fresh()
        return "%s <- %s ;;\n%s" % (var, term, k(var))

    def test(self, fn, term, then, orelse):
        var = fn.fresh()
        return "%s <- p_truth %s ;;\nif %s then (%s)\nelse (%s)" % (
            var, term, var, then, orelse)

    def seq(self, fn, env, nodes, k):
        def go(i, acc):
            if i == len(nodes):
                return k(acc)
            return self.expr(fn, env, nodes[i], lambda a: go(i + 1, acc + [a]))
        return go(0, [])

    def const_expr(self, node):
        """default values: evaluated when the function is defined"""
        if isinstance(node, ast.Constant):
            val = node.value
            if val is None:
                return "FNone"
            if isinstance(val, bool):
                return "(FBool %s)" % ("true" if val else "false")
            if isinstance(val, int):
                return "(FInt %s)" % py2v.zl(val)
            if isinstance(val, str):
                return "(FStr %s)" % zlist(val)
            if isinstance(val, bytes):
                return "(FBytes [%s])" % "; ".join(str(b) for b in val)
            raise Unsupported(node, "constant")
        if isinstance(node, ast.UnaryOp) and isinstance(node.op, ast.USub) \
                and isinstance(node.operand, ast.Constant) and \
                type(node.operand.value) is int:
            return "(FInt %s)" % py2v.zl(-node.operand.value)
        if isinstance(node, ast.Lambda):
            a = node.args
            if len(a.args) == 1 and not (a.posonlyargs or a.vararg or
                                         a.kwonlyargs or a.kwarg
                                         or a.defaults) and \
                    isinstance(node.body, ast.Name) and \
                    node.body.id == a.args[0].arg:
                return "FIdent"                     # lambda x: x
        raise Unsupported(node, "default value")

    def lookup(self, env, node, mut_ok=False):
        name = node.id
        if name == "self":
            cls = env["@cls"]
            if cls is None or cls.kind not in ("dict", "list"):
                raise Unsupported(node, "self used as a value")
            return env["@self"]
        if name in env["@mut"] and not mut_ok:
            raise Unsupported(node, "local list may escape")
        if name not in env or name.startswith("@"):
            raise Unsupported(node, "unknown name %s" % name)
        if env[name].startswith("@"):
            raise Unsupported(node, "%s used as a value" % name)
        return env[name]

    # ---------------------------------------------------------- expressions
    def expr(self, fn, env, node, k, mut_ok=False):
        """code of type res _; k: Coq term of the value -> rest of the code"""
        if isinstance(node, ast.Constant) or (
                isinstance(node, ast.UnaryOp) and
                isinstance(node.op, ast.USub)):
            return k(self.const_expr(node))
        if isinstance(node, ast.Name):
            return k(self.lookup(env, node, mut_ok))
        if isinstance(node, ast.Tuple) and isinstance(node.ctx, ast.Load):
            return self.seq(fn, env, node.elts, lambda items: k(
                "(FTuple [%s])" % "; ".join(items)))
        if isinstance(node, ast.List) and isinstance(node.ctx, ast.Load):
            return self.seq(fn, env, node.elts, lambda items: k(
                "(FList LPlain [%s])" % "; ".join(items)))
        if isinstance(node, ast.Dict) and not node.keys:
            return k("(FDict DPlain [])")
        if isinstance(node, ast.UnaryOp) and isinstance(node.op, ast.Not):
            return self.truth_operand(fn, env, node.operand, lambda a:
                                      self.bind(fn, "p_not %s" % a, k))
        if isinstance(node, ast.BoolOp):
            return self.boolop(fn, env, node, k)
        if isinstance(node, ast.IfExp):
            join, arg = fn.fresh(), fn.fresh()
            body = k(arg)
            return "let %s := fun (%s : fv) => (%s) in\n%s" % (
                join, arg, body, self.truth_operand(
                    fn, env, node.test, lambda c: self.test(
                        fn, c,
                        self.expr(fn, env, node.body,
                                  lambda a: "%s %s" % (join, a)),
                        self.expr(fn, env, node.orelse,
                                  lambda a: "%s %s" % (join, a)))))
        if isinstance(node, ast.Compare):
            return self.compare(fn, env, node, k)
        if isinstance(node, ast.Subscript) and isinstance(node.ctx, ast.Load):
            if isinstance(node.slice, ast.Slice):
                raise Unsupported(node, "slice")
            if is_self(node.value):
                return self.expr(fn, env, node.slice, lambda key: self.bind(
                    fn, self.self_protocol(node, env, "__getitem__", key), k))
            return self.expr(fn, env, node.value, lambda v: self.expr(
                fn, env, node.slice, lambda i: self.bind(
                    fn, "p_getitem %s %s" % (v, i), k)), mut_ok=True)
        if isinstance(node, ast.Attribute) and isinstance(node.ctx, ast.Load):
            return self.attribute(fn, env, node, k)
        if isinstance(node, ast.ListComp):
            return self.comprehension(fn, env, node, "collect", lambda items:
                                      k("(FList LPlain %s)" % items))
        if isinstance(node, ast.Call):
            return self.call(fn, env, node, k)
        raise Unsupported(node, "expression")

    def truth_operand(self, fn, env, node, k):
        """an operand whose truth value is taken: `self` of a dict / list
        class is allowed if the class does not define __bool__ / __len__"""
        if is_self(node):
            cls = env["@cls"]
            if cls is not None and cls.kind in ("dict", "list"):
                for hook in ("__bool__", "__len__"):
                    if self.protocol(node, cls, hook)[0] != "builtin":
                        raise Unsupported(node, "own %s" % hook)
        return self.expr(fn, env, node, k, mut_ok=True)

    def boolop(self, fn, env, node, k):
        join, arg = fn.fresh(), fn.fresh()
        values = node.values

        def go(i):
            if i == len(values) - 1:
                return self.expr(fn, env, values[i],
                                 lambda a: "%s %s" % (join, a))
            if isinstance(node.op, ast.And):
                return self.truth_operand(
                    fn, env, values[i], lambda a: self.test(
                        fn, a, go(i + 1), "%s %s" % (join, a)))
            return self.truth_operand(
                fn, env, values[i], lambda a: self.test(
                    fn, a, "%s %s" % (join, a), go(i + 1)))
        body = k(arg)
        return "let %s := fun (%s : fv) => (%s) in\n%s" % (
            join, arg, body, go(0))

    def compare(self, fn, env, node, k):
        if len(node.ops) != 1:
            raise Unsupported(node, "chained comparison")
        op, right = node.ops[0], node.comparators[0]
        if isinstance(op, (ast.Is, ast.IsNot)):
            if not (isinstance(right, ast.Constant) and right.value is None):
                raise Unsupported(node, "is")
            prim = "p_is_none" if isinstance(op, ast.Is) else "p_is_not_none"
            return self.expr(fn, env, node.left, lambda a: self.bind(
                fn, "%s %s" % (prim, a), k), mut_ok=True)
        if isinstance(op, ast.In):
            if is_self(right):
                return self.expr(fn, env, node.left, lambda a: self.bind(
                    fn, self.self_protocol(node, env, "__contains__", a), k))
            return self.expr(fn, env, node.left, lambda a: self.expr(
                fn, env, right, lambda b: self.bind(
                    fn, "p_contains %s %s" % (a, b), k)))
        prims = {ast.Eq: "p_eq", ast.NotEq: "p_ne", ast.Lt: "p_lt",
                 ast.LtE: "p_le", ast.Gt: "p_gt", ast.GtE: "p_ge"}
        prim = prims.get(type(op))
        if prim is None:
            raise Unsupported(node, "comparison")
        return self.expr(fn, env, node.left, lambda a: self.expr(
            fn, env, right, lambda b: self.bind(
                fn, "%s %s %s" % (prim, a, b), k)))

    def self_protocol(self, node, env, name, arg):
        """`arg in self` / `self[arg]`"""
        cls = env["@cls"]
        if cls is None:
            raise Unsupported(node, "self outside a class")
        if cls.kind == "iface":
            par = {"__contains__": "contains", "__getitem__": "getitem"}[name]
            return "%s %s %s" % (par, env["@self"], arg)
        hit = self.protocol(node, cls, name)
        if hit[0] == "builtin":
            prim = {"__contains__": "builtin_contains",
                    "__getitem__": "builtin_getitem"}[name]
            return "%s %s %s" % (prim, env["@self"], arg)
        if (hit[1], name) not in self.sigs:
            raise Unsupported(node, "%s.%s is not translated (yet)"
                              % (hit[1], name))
        return "%s %s %s" % (self.gen_name(hit[1], name), env["@self"], arg)

    def attribute(self, fn, env, node, k):
        obj, attr = node.value, node.attr
        # req.query: the object parameter of Args.__init__
        if isinstance(obj, ast.Name) and env.get(obj.id, "").startswith(
                "@req:"):
            if attr != "query":
                raise Unsupported(node, "attribute of the request")
            if ("SimpleRequest", "query") not in self.sigs:
                raise Unsupported(node, "query is not translated")
            return self.bind(fn, "gen_SimpleRequest_query %s"
                             % env[obj.id][5:], k)
        cls = env["@cls"]
        if cls is None or cls.kind != "object":
            raise Unsupported(node, "attribute")
        # attributes of FieldStorage objects (self or any other value: the
        # only objects of the universe with these attributes)
        if is_self(obj):
            getobj = lambda kk: kk(env["@self"])   # noqa: E731
        else:
            getobj = lambda kk: self.expr(fn, env, obj, kk)   # noqa: E731
        if attr in FS_PROPERTIES:
            if attr in FS_DATA_ATTRS or \
                    self.resolve(cls, attr) != ("own", cls.name):
                raise Unsupported(node, "property")
            if (cls.name, attr) not in self.sigs:
                raise Unsupported(node, "%s is not translated (yet)" % attr)
            return getobj(lambda v: self.bind(
                fn, "%s %s" % (self.gen_name(cls.name, attr), v), k))
        if attr in FS_DATA_ATTRS:
            if attr in cls.own:
                raise Unsupported(node, "data attribute is a method")
            return getobj(lambda v: self.bind(
                fn, 'p_getattr %s "%s"' % (v, attr), k))
        raise Unsupported(node, "attribute")

    # ---------------------------------------------------------------- calls
    def bind_args(self, node, sig, skip_first=0):
        """actual argument nodes (or default terms) in the callee's
        parameter order"""
        if any(isinstance(a, ast.Starred) for a in node.args) or \
                any(w.arg is None for w in node.keywords):
            raise Unsupported(node, "star arguments")
        if len(node.args) > len(sig.params):
            raise Unsupported(node, "too many arguments")
        named = {}
        for w in node.keywords:
            if w.arg not in sig.params or w.arg in named or \
                    sig.params.index(w.arg) < len(node.args):
                raise Unsupported(node, "keyword %s" % w.arg)
            named[w.arg] = w.value
        # evaluation order = source order: keywords must follow the
        # parameter order
        if [w.arg for w in node.keywords] != \
                [p for p in sig.params if p in named]:
            raise Unsupported(node, "keywords not in parameter order")
        actual = []
        for i, p in enumerate(sig.params):
            if i < len(node.args):
                actual.append(node.args[i])
            elif p in named:
                actual.append(named[p])
            elif p in sig.defaults:
                actual.append(sig.defaults[p])       # a term (str)
            else:
                raise Unsupported(node, "missing argument %s" % p)
        return actual

    def eval_actuals(self, fn, env, actual, k):
        def go(i, acc):
            if i == len(actual):
                return k(acc)
            if isinstance(actual[i], str):
                return go(i + 1, acc + [actual[i]])
            return self.expr(fn, env, actual[i],
                             lambda a: go(i + 1, acc + [a]))
        return go(0, [])

    def genexp_arg(self, node):
        return len(node.args) == 1 and not node.keywords and \
            isinstance(node.args[0], ast.GeneratorExp)

    def call(self, fn, env, node, k):
        func = node.func
        plain = not node.keywords and not any(
            isinstance(a, ast.Starred) for a in node.args)
        nargs = len(node.args)
        if isinstance(func, ast.Name):
            name = func.id
            if name in env and not name.startswith("@"):
                # a callable parameter / local: f(x)
                if not plain or nargs != 1:
                    raise Unsupported(node, "call of a local")
                return self.expr(fn, env, func, lambda f: self.expr(
                    fn, env, node.args[0], lambda a: self.bind(
                        fn, "p_call apply %s %s" % (f, a), k)))
            if name == "isinstance" and plain and nargs == 2:
                spec = node.args[1]
                elts = spec.elts if isinstance(spec, ast.Tuple) else [spec]
                classes = []
                for e in elts:
                    if not (isinstance(e, ast.Name) and e.id in ISINSTANCE):
                        raise Unsupported(e, "class in isinstance")
                    classes.append(ISINSTANCE[e.id])
                return self.expr(fn, env, node.args[0], lambda a: self.bind(
                    fn, "p_isinstance %s [%s]" % (a, "; ".join(classes)), k),
                    mut_ok=True)
            if name == "len" and plain and nargs == 1:
                return self.expr(fn, env, node.args[0], lambda a: self.bind(
                    fn, "p_len %s" % a, k), mut_ok=True)
            if name == "any" and self.genexp_arg(node):
                return self.comprehension(fn, env, node.args[0], "any_gen", k)
            if name in PRIM_FUNCS and plain and \
                    nargs == PRIM_FUNCS[name][2]:
                return self.seq(fn, env, node.args, lambda it: self.bind(
                    fn, " ".join([PRIM_FUNCS[name][3]] + it), k))
            if name in DICT_TAGS and plain and nargs == 1:
                self.check_plain_ctor(node, name)
                return self.expr(fn, env, node.args[0], lambda a: self.bind(
                    fn, "p_new_dict %s %s" % (DICT_TAGS[name], a), k))
            if name in LIST_TAGS and plain and nargs == 1:
                self.check_plain_ctor(node, name)
                return self.expr(fn, env, node.args[0], lambda a: self.bind(
                    fn, "p_new_list %s %s" % (LIST_TAGS[name], a), k))
            raise Unsupported(node, "call")
        if isinstance(func, ast.Attribute):
            obj, attr = func.value, func.attr
            if is_self(obj):
                return self.self_call(fn, env, node, k)
            # dict.fromkeys(<genexp>)
            if isinstance(obj, ast.Name) and obj.id == "dict" and \
                    "dict" not in env and attr == "fromkeys" and \
                    self.genexp_arg(node):
                return self.comprehension(
                    fn, env, node.args[0], "collect", lambda items:
                    self.bind(fn, "p_dict_fromkeys %s" % items, k))
            # self.file.seek(0) ...
            if isinstance(obj, ast.Attribute) and obj.attr == FILE_ATTR and \
                    attr in FILE_METHODS and plain:
                return self.expr(fn, env, obj, lambda f: self.seq(
                    fn, env, node.args, lambda it: self.bind(
                        fn, 'p_file_call %s "%s" [%s]' % (
                            f, attr, "; ".join(it)), k)))
            if attr == "decode" and plain and nargs == 1:
                return self.expr(fn, env, obj, lambda v: self.expr(
                    fn, env, node.args[0], lambda cs: self.bind(
                        fn, "p_decode decode %s %s" % (v, cs), k)))
            if (attr, nargs) in VALUE_METHODS and plain:
                return self.expr(fn, env, obj, lambda v: self.seq(
                    fn, env, node.args, lambda it: self.bind(
                        fn, " ".join([VALUE_METHODS[(attr, nargs)], v] + it),
                        k)))
            raise Unsupported(node, "method call")
        raise Unsupported(node, "call")

    def check_plain_ctor(self, node, name):
        cls = self.classes[name]
        for hook in ("__init__", "__new__"):
            hit = self.resolve(cls, hook)
            if hit is None or hit[0] != "builtin":
                raise Unsupported(node, "%s has its own %s" % (name, hook))

    def self_call(self, fn, env, node, k):
        cls = env["@cls"]
        name = node.func.attr
        if cls is None or cls.kind == "iface":
            raise Unsupported(node, "method call on self")
        hit = self.resolve(cls, name)
        if hit is None or hit[0] != "own":
            raise Unsupported(node, "method %s of self" % name)
        if (hit[1], name) not in self.sigs:
            raise Unsupported(node, "%s.%s is not translated (yet)"
                              % (hit[1], name))
        sig = self.sigs[(hit[1], name)]
        actual = self.bind_args(node, sig)
        return self.eval_actuals(fn, env, actual, lambda items: self.bind(
            fn, " ".join([self.gen_name(hit[1], name), env["@self"]] + items),
            k))

    def unpack_target(self, fn, env, target, item):
        """(prefix code, env with the loop / comprehension target bound)"""
        env = dict(env)
        if isinstance(target, ast.Name):
            if target.id in RESERVED:
                raise Unsupported(target, "reserved name")
            env[target.id] = item
            env["@mut"] = env["@mut"] - {target.id}
            return "", env
        if isinstance(target, ast.Tuple) and len(target.elts) == 2 and \
                all(isinstance(e, ast.Name) for e in target.elts) and \
                target.elts[0].id != target.elts[1].id:
            pair, a, b = fn.fresh(), fn.fresh(), fn.fresh()
            for e, var in zip(target.elts, (a, b)):
                if e.id in RESERVED:
                    raise Unsupported(e, "reserved name")
                env[e.id] = var
                env["@mut"] = env["@mut"] - {e.id}
            return ("%s <- p_unpack2 %s ;;\nlet '(%s, %s) := %s in\n"
                    % (pair, item, a, b, pair)), env
        raise Unsupported(target, "loop target")

    def iter_operand(self, fn, env, node, k):
        """the iterable of a loop / comprehension: `self` of a list / dict
        class iterates the builtin way unless the class says otherwise"""
        if is_self(node):
            cls = env["@cls"]
            if cls is not None and cls.kind in ("dict", "list"):
                hit = self.protocol(node, cls, "__iter__")
                if hit[0] != "builtin":
                    raise Unsupported(node, "own __iter__")
        return self.expr(fn, env, node, lambda it: self.bind(
            fn, "p_iter %s" % it, k), mut_ok=True)

    def comprehension(self, fn, env, node, combinator, k):
        """collect / any_gen over one `for` with `if`s"""
        if len(node.generators) != 1:
            raise Unsupported(node, "nested comprehension")
        comp = node.generators[0]
        if comp.is_async:
            raise Unsupported(node, "async comprehension")
        for sub in ast.walk(node):
            if isinstance(sub, (ast.NamedExpr, ast.Yield, ast.YieldFrom,
                                ast.Await, ast.Lambda)):
                raise Unsupported(sub, "construct in comprehension")

        def body(items):
            item = fn.fresh()
            prefix, inner = self.unpack_target(fn, env, comp.target, item)

            def conds(i):
                if i == len(comp.ifs):
                    return self.expr(fn, inner, node.elt,
                                     lambda e: "Ok (Some %s)" % e)
                return self.expr(
                    fn, inner, comp.ifs[i], lambda c: self.test(
                        fn, c, conds(i + 1), "Ok None"))
            code = prefix + conds(0)
            return self.bind(
                fn, "%s %s (fun (%s : fv) =>\n%s)" % (
                    combinator, items, item, code), k)
        return self.iter_operand(fn, env, comp.iter, body)

    # ----------------------------------------------------------- statements
    def assigned_locals(self, stmts):
        names = []

        def add(name):
            if name not in names:
                names.append(name)
        for st in stmts:
            for node in ast.walk(st):
                if isinstance(node, ast.Name) and \
                        isinstance(node.ctx, (ast.Store, ast.Del)):
                    add(node.id)
                elif isinstance(node, ast.Call) and \
                        isinstance(node.func, ast.Attribute) and \
                        node.func.attr == "append" and \
                        isinstance(node.func.value, ast.Name):
                    add(node.func.value.id)
                elif isinstance(node, ast.ExceptHandler) and node.name:
                    add(node.name)
        return names

    def block(self, fn, env, stmts, kend):
        """kend: env -> code at fall-through"""
        if not stmts:
            return kend(env)
        st, rest = stmts[0], stmts[1:]

        def after(env2):
            return self.block(fn, env2, rest, kend)
        if is_docstring(st) or isinstance(st, ast.Pass):
            return after(env)
        if isinstance(st, ast.Expr) and isinstance(st.value, ast.Call):
            return self.call_stmt(fn, env, st.value, after)
        if isinstance(st, ast.Assign):
            return self.assign(fn, env, st, after)
        if isinstance(st, ast.Return):
            if fn.ctor and st.value is not None:
                raise Unsupported(st, "constructor returns a value")
            if st.value is None:
                return fn.retk(env, "FNone")
            # (a local list may be returned: nothing can change it later)
            return self.expr(fn, env, st.value, lambda v: fn.retk(env, v),
                             mut_ok=True)
        if isinstance(st, ast.Raise):
            return self.raise_stmt(fn, env, st)
        if isinstance(st, ast.If):
            return self.if_stmt(fn, env, st, after)
        if isinstance(st, ast.For):
            return self.for_stmt(fn, env, st, after)
        if isinstance(st, ast.Try):
            return self.try_stmt(fn, env, st, after)
        raise Unsupported(st, "statement")

    def raise_stmt(self, fn, env, st):
        exc = st.exc
        if not (isinstance(exc, ast.Call) and isinstance(exc.func, ast.Name)
                and exc.func.id not in env):
            raise Unsupported(st, "raise")
        name = exc.func.id
        if name in RAISABLE and st.cause is None and not exc.keywords and \
                len(exc.args) <= 1:
            for a in exc.args:          # dropped: must be a bound local
                if not (isinstance(a, ast.Name) and a.id in env and
                        not a.id.startswith("@")):
                    raise Unsupported(a, "exception argument")
            return "Err (%s)" % RAISABLE[name]
        if name == HTTP_EXC[0] and len(exc.args) == 1 and \
                isinstance(exc.args[0], ast.Name) and \
                exc.args[0].id not in env:
            const = exc.args[0].id
            if const not in self.state_imports or \
                    const not in self.state_consts:
                raise Unsupported(st, "status constant")

            def caught(n):
                return isinstance(n, ast.Name) and \
                    env.get(n.id, "").startswith("@exn:")
            for w in exc.keywords:
                if w.arg != "error" or not caught(w.value):
                    raise Unsupported(st, "keyword of HTTPException")
            if st.cause is not None and not caught(st.cause):
                raise Unsupported(st, "raise ... from")
            return "Err (HTTPError %s)" % py2v.zl(self.state_consts[const])
        raise Unsupported(st, "raise")

    def dropped_call(self, env, call):
        """statements dropped by name"""
        func = call.func
        if not (isinstance(func, ast.Attribute) and
                isinstance(func.value, ast.Name)):
            return False
        mod = func.value.id
        if mod == "log" and "log" not in env:
            return True
        if mod == "warnings" and func.attr == "warn" and \
                "warnings" not in env:
            kw = {w.arg: w.value for w in call.keywords}
            ok = len(call.args) == 1 and \
                isinstance(call.args[0], ast.Constant) and \
                isinstance(call.args[0].value, str) and \
                set(kw) <= {"category", "stacklevel"} and \
                len(kw) == len(call.keywords)
            if "category" in kw:
                ok = ok and isinstance(kw["category"], ast.Name) and \
                    kw["category"].id == "DeprecationWarning"
            if "stacklevel" in kw:
                ok = ok and isinstance(kw["stacklevel"], ast.Constant) and \
                    type(kw["stacklevel"].value) is int
            if not ok:
                raise Unsupported(call, "warnings.warn shape")
            return True
        return False

    def call_stmt(self, fn, env, call, after):
        func = call.func
        if self.dropped_call(env, call):
            return after(env)
        plain = not call.keywords and not any(
            isinstance(a, ast.Starred) for a in call.args)
        # local_list.append(e)
        if isinstance(func, ast.Attribute) and func.attr == "append" and \
                plain and len(call.args) == 1 and \
                isinstance(func.value, ast.Name) and \
                func.value.id in env["@mut"]:
            loc = func.value.id
            return self.expr(fn, env, call.args[0], lambda a: self.bind(
                fn, "p_append %s %s" % (env[loc], a), lambda new:
                after(dict(env, **{loc: new}))))
        # dict.__init__(self, iterable) in the constructor of a dict class
        if isinstance(func, ast.Attribute) and func.attr == "__init__" and \
                isinstance(func.value, ast.Name) and \
                func.value.id == "dict" and "dict" not in env and plain and \
                len(call.args) == 2 and is_self(call.args[0]):
            cls = env["@cls"]
            if not fn.ctor or cls is None or cls.kind != "dict":
                raise Unsupported(call, "dict.__init__ outside a constructor")

            def update(arg):
                new = fn.fresh()
                return "%s <- p_dict_update %s %s ;;\n%s" % (
                    new, env["@self"], arg, after(dict(env, **{"@self": new})))
            arg = call.args[1]
            if isinstance(arg, ast.GeneratorExp):
                return self.comprehension(
                    fn, env, arg, "collect", lambda items:
                    update("(FList LPlain %s)" % items))
            return self.expr(fn, env, arg, update)
        # self.file.seek(0): value discarded
        if isinstance(func, ast.Attribute) and \
                isinstance(func.value, ast.Attribute) and \
                func.value.attr == FILE_ATTR and func.attr in FILE_METHODS:
            return self.expr(fn, env, call, lambda _: after(env))
        raise Unsupported(call, "statement call")

    def assign(self, fn, env, st, after):
        if len(st.targets) != 1:
            raise Unsupported(st, "chained assignment")
        target = st.targets[0]
        if not isinstance(target, ast.Name):
            raise Unsupported(st, "assignment target")
        name = target.id
        if name in RESERVED:
            raise Unsupported(st, "reserved name")
        if env.get(name, "").startswith("@"):
            raise Unsupported(st, "object parameter rebound")

        def bound(v):
            env2 = dict(env, **{name: v})
            if isinstance(st.value, ast.List) and not st.value.elts:
                env2["@mut"] = env["@mut"] | {name}
            else:
                env2["@mut"] = env["@mut"] - {name}
            return after(env2)
        if isinstance(st.value, ast.Name) and st.value.id in env["@mut"]:
            raise Unsupported(st, "alias of a local list")
        return self.expr(fn, env, st.value, bound)

    def joined_names(self, fn, env, cands, runs):
        """names among cands bound on every path that reaches the join;
        found by a dry run of the branches (the counter is restored)"""
        saved = fn.count
        envs = []

        def probe(e):
            envs.append(e)
            return "?"
        for run in runs:
            run(probe)
        fn.count = saved
        names = [n for n in cands if all(n in e for e in envs)] if envs \
            else []
        for n in names:
            kinds = set(n in e["@mut"] for e in envs)
            if len(kinds) > 1:
                raise Unsupported(None, "list / non-list local at a join")
        selfs = set(e["@self"] for e in envs)
        if len(selfs) > 1:
            raise Unsupported(None, "self rebound in a branch")
        return names, envs

    def if_stmt(self, fn, env, st, after):
        cands = self.assigned_locals(st.body + st.orelse)

        def branches(c):
            names, envs = self.joined_names(fn, env, cands, [
                lambda kk: self.block(fn, env, st.body, kk),
                lambda kk: self.block(fn, env, st.orelse, kk)])
            join = fn.fresh()
            params = [fn.fresh() for _ in names]

            def jump(e):
                if not names:
                    return "%s tt" % join
                return "%s %s" % (join, " ".join(e[n] for n in names))
            env_after = {k_: v for k_, v in env.items()
                         if k_.startswith("@") or k_ not in cands}
            for n, p in zip(names, params):
                env_after[n] = p
            if envs:
                env_after["@mut"] = frozenset(
                    n for n in envs[0]["@mut"] if n in env_after)
                env_after["@self"] = envs[0]["@self"]
            jcode = after(env_after)
            body = self.block(fn, env, st.body, jump)
            orelse = self.block(fn, env, st.orelse, jump)
            binder = " ".join("(%s : fv)" % p for p in params) \
                if names else "(_ : unit)"
            return "let %s := fun %s => (%s) in\n%s" % (
                join, binder, jcode, self.test(fn, c, body, orelse))
        return self.truth_operand(fn, env, st.test, branches)

    def for_stmt(self, fn, env, st, after):
        if st.orelse:
            raise Unsupported(st, "for-else")
        for sub in ast.walk(st):
            if isinstance(sub, (ast.Break, ast.Continue)):
                raise Unsupported(sub, "break / continue")
        if fn.in_try:
            raise Unsupported(st, "loop inside try")
        tnames = [n.id for n in ast.walk(st.target)
                  if isinstance(n, ast.Name)]
        names = [n for n in self.assigned_locals(st.body)
                 if n in env and n not in tnames]
        for n in tnames:
            if n in env:
                raise Unsupported(st, "loop target rebinds a local")

        def tup(items):
            if not items:
                return "tt"
            return "(%s)" % ", ".join(items) if len(items) > 1 else items[0]
        ctype = " * ".join("fv" for _ in names) if names else "unit"

        def loop(items):
            item, carried = fn.fresh(), fn.fresh()
            inner = dict(env)
            cvars = [fn.fresh() for _ in names]
            for n, v in zip(names, cvars):
                inner[n] = v
            prefix, inner = self.unpack_target(fn, inner, st.target, item)

            def again(e):
                for n in names:
                    if (n in e["@mut"]) != (n in env["@mut"]):
                        raise Unsupported(st, "list / non-list local in loop")
                if e["@self"] != env["@self"]:
                    raise Unsupported(st, "self rebound in a loop")
                return "Ok (Next %s)" % tup([e[n] for n in names])
            saved = fn.retk
            fn.retk = lambda e, v: "Ok (Return %s)" % v
            try:
                body = self.block(fn, inner, st.body, again)
            finally:
                fn.retk = saved
            if len(names) > 1:
                body = "let '%s := %s in\n%s" % (tup(cvars), carried, body)
            elif len(names) == 1:
                body = "let %s := %s in\n%s" % (cvars[0], carried, body)
            result, rv = fn.fresh(), fn.fresh()
            outs = [fn.fresh() for _ in names]
            env_after = {k_: v for k_, v in env.items()}
            for n, v in zip(names, outs):
                env_after[n] = v
            rest = after(env_after)     # names first bound in the loop are
            #                             not visible afterwards
            if len(names) > 1:
                rest = "let '%s := %s in\n%s" % (tup(outs), "c_" + result,
                                                  rest)
                pat = "c_" + result
            elif len(names) == 1:
                pat = outs[0]
            else:
                pat = "_"
            return ("%s <- for_loop %s (fun (%s : fv) (%s : %s) =>\n%s%s) %s ;;"
                    "\nmatch %s with\n| Return %s => %s\n| Next %s => (%s)\n"
                    "end" % (result, items, item, carried, ctype, prefix,
                             body, tup([env[n] for n in names]), result, rv,
                             fn.retk(env, rv), pat, rest))
        return self.iter_operand(fn, env, st.iter, loop)

    def try_stmt(self, fn, env, st, after):
        if st.orelse or st.finalbody or len(st.handlers) != 1:
            raise Unsupported(st, "try shape")
        if fn.in_try:
            raise Unsupported(st, "nested try")
        h = st.handlers[0]
        if not (isinstance(h.type, ast.Name) and h.type.id in CATCH_ALL
                and h.type.id not in env):
            raise Unsupported(h, "except clause")
        inner_names = self.assigned_locals(st.body + h.body)
        for n in inner_names:
            if n in env:
                raise Unsupported(st, "local rebound inside try")
        result, rv, exn = fn.fresh(), fn.fresh(), fn.fresh()
        saved = fn.retk
        fn.retk = lambda e, v: "Ok (Returned %s)" % v
        fn.in_try = True
        try:
            body = self.block(fn, env, st.body, lambda e: "Ok Fell")
            henv = dict(env)
            if h.name:
                if h.name in RESERVED:
                    raise Unsupported(h, "reserved name")
                henv[h.name] = "@exn:" + exn
            hcode = self.block(fn, henv, h.body, lambda e: "Ok Fell")
        finally:
            fn.retk = saved
            fn.in_try = False
        # locals first bound inside the try are not visible afterwards
        return ("%s <- try_except (%s)\n(fun (%s : exn) => if catch_all %s "
                "then (%s)\nelse Err %s) ;;\nmatch %s with\n| Returned %s => "
                "%s\n| Fell => (%s)\nend" % (
                    result, body, exn, exn, hcode, exn, result, rv,
                    fn.retk(env, rv), after(env)))

    # ------------------------------------------------------------ functions
    def gen_name(self, cls, method):
        short = "iface" if cls == IFACE else cls
        return "gen_%s_%s" % (short, method.strip("_"))

    def check_body(self, fundef):
        for node in ast.walk(fundef):
            if isinstance(node, (ast.Global, ast.Nonlocal, ast.FunctionDef,
                                 ast.AsyncFunctionDef, ast.ClassDef,
                                 ast.Yield, ast.YieldFrom, ast.Await,
                                 ast.NamedExpr, ast.With, ast.While,
                                 ast.Import, ast.ImportFrom, ast.Delete,
                                 ast.AugAssign)) \
                    and node is not fundef:
                raise Unsupported(node, "construct")
            if isinstance(node, ast.Lambda) and not any(
                    node is d for d in fundef.args.defaults):
                raise Unsupported(node, "lambda")
            if isinstance(node, ast.Name) and node.id in RESERVED and \
                    isinstance(node.ctx, (ast.Store, ast.Del)):
                raise Unsupported(node, "reserved name rebound")

    def method(self, cname, name, prop=False, extra_env=None,
               extra_formals=()):
        cls = self.classes[cname]
        if name not in cls.own:
            raise Unsupported(cls.node, "%s does not define %s"
                              % (cname, name))
        fundef = cls.own[name]
        decos = [ast.dump(d) for d in fundef.decorator_list]
        want = [ast.dump(ast.Name(id="property", ctx=ast.Load()))] \
            if prop else []
        if decos != want:
            raise Unsupported(fundef, "decorator")
        self.check_body(fundef)
        sig = Sig(self, fundef)
        fn = Fn(name)
        fn.ctor = name == "__init__"
        fn.retk = lambda e, v: "Ok %s" % v
        env = {"@mut": frozenset(), "@cls": cls, "@self": "self"}
        formals = []
        if cls.kind == "iface":
            formals.append("(contains getitem : fv -> fv -> res fv)")
        formals.append("(self : fv)")
        for i, p in enumerate(sig.params):
            if extra_env and p in extra_env:
                env[p] = extra_env[p]
            else:
                env[p] = "p%d" % (i + 1)
            formals.append("(p%d : fv)" % (i + 1))

        def end(e):
            return "Ok %s" % (e["@self"] if fn.ctor else "FNone")
        if fn.ctor:
            # the constructor answers with the object as it has made it
            fn.retk = lambda e, v: "Ok %s" % e["@self"]
        code = self.block(fn, env, fundef.body, end)
        self.sigs[(cname, name)] = sig
        gname = self.gen_name(cname, name)
        text = "(* %s.%s *)\nDefinition %s %s : res fv :=\n%s." % (
            cname, name, gname, " ".join(formals), code)
        for i, p in enumerate(sig.params):
            if p in sig.defaults:
                text += "\n\nDefinition %s_default_%d : fv := %s." % (
                    gname, i + 1, sig.defaults[p])
        self.defs.append(text)

    def inherited(self, cname, name):
        """an accessor the class takes from the interface, over the
        container protocol the class's own base list gives it"""
        cls = self.classes[cname]
        hit = self.resolve(cls, name)
        if hit != ("own", IFACE):
            raise Unsupported(cls.node, "%s.%s comes from %s"
                              % (cname, name, hit))
        prims = []
        for proto, prim in (("__contains__", "builtin_contains"),
                            ("__getitem__", "builtin_getitem")):
            if self.protocol(cls.node, cls, proto)[0] != "builtin":
                raise Unsupported(cls.node, "own %s" % proto)
            prims.append(prim)
        self.defs.append(
            "(* %s.%s: inherited; `in` and `[]` from %s *)\n"
            "Definition %s : fv -> %s :=\n%s %s." % (
                cname, name, cls.bases[0], self.gen_name(cname, name),
                " -> ".join(["fv"] * len(self.sigs[(IFACE, name)].params)
                            + ["res fv"]),
                self.gen_name(IFACE, name), " ".join(prims)))

    def accessors(self, cname):
        cls = self.classes[cname]
        for name in ACCESSORS:
            hit = self.resolve(cls, name)
            if hit == ("own", cname):
                self.method(cname, name)
            else:
                self.inherited(cname, name)

    def function(self, tree, name, gname):
        found = [n for n in tree.body if isinstance(n, ast.FunctionDef)
                 and n.name == name]
        if len(found) != 1 or found[0].decorator_list:
            raise Unsupported(tree, "definitions of %s" % name)
        fundef = found[0]
        self.check_body(fundef)
        sig = Sig(self, fundef, method=False)
        fn = Fn(name)
        fn.retk = lambda e, v: "Ok %s" % v
        env = {"@mut": frozenset(), "@cls": None, "@self": "@none"}
        formals = []
        for i, p in enumerate(sig.params):
            env[p] = "p%d" % (i + 1)
            formals.append("(p%d : fv)" % (i + 1))
        code = self.block(fn, env, fundef.body, lambda e: "Ok FNone")
        text = "(* %s *)\nDefinition %s %s : res fv :=\n%s." % (
            name, gname, " ".join(formals), code)
        for i, p in enumerate(sig.params):
            if p in sig.defaults:
                text += "\n\nDefinition %s_default_%d : fv := %s." % (
                    gname, i + 1, sig.defaults[p])
        self.defs.append(text)

    # ------------------------------------------------ SimpleRequest.query
    def query_property(self):
        """`return self.__environ.get(<str>, <str>).strip()` as a function
        of the environ dictionary"""
        tree = self.trees[SRC_REQ]
        classes = {n.name: n for n in tree.body if isinstance(n, ast.ClassDef)}
        simple, request = classes.get("SimpleRequest"), classes.get("Request")
        if simple is None or request is None or \
                [dotted(b) for b in request.bases] != ["SimpleRequest"] or \
                simple.bases or simple.keywords or request.keywords:
            raise Unsupported(tree, "SimpleRequest / Request classes")
        for cls in (simple, request):
            for st in cls.body:
                if isinstance(st, ast.FunctionDef) and \
                        st.name in FORBIDDEN_HOOKS:
                    raise Unsupported(st, "attribute hook")
        if any(isinstance(st, ast.FunctionDef) and st.name == "query"
               for st in request.body) or any(
                   isinstance(n, ast.Attribute) and n.attr == "query" and
                   isinstance(n.ctx, (ast.Store, ast.Del))
                   for n in ast.walk(tree)):
            raise Unsupported(request, "query overridden / assigned")
        defs = [st for st in simple.body if isinstance(st, ast.FunctionDef)
                and st.name == "query"]
        if len(defs) != 1 or [ast.dump(d) for d in defs[0].decorator_list] \
                != [ast.dump(ast.Name(id="property", ctx=ast.Load()))]:
            raise Unsupported(simple, "property query")
        fundef = defs[0]
        self.check_body(fundef)
        if [a.arg for a in fundef.args.args] != ["self"]:
            raise Unsupported(fundef, "signature")
        body = [st for st in fundef.body if not is_docstring(st)]
        if len(body) != 1 or not isinstance(body[0], ast.Return):
            raise Unsupported(fundef, "body of query")
        fn = Fn("query")
        env = {"@mut": frozenset(), "@cls": None, "@self": "@none"}

        def rewrite(node):
            # self.__environ -> the local name `environ`
            for sub in ast.walk(node):
                for field, val in ast.iter_fields(sub):
                    if isinstance(val, ast.Attribute) and is_self(val.value) \
                            and val.attr == "__environ":
                        setattr(sub, field, ast.Name(id="environ",
                                                     ctx=ast.Load()))
            return node
        value = rewrite(ast.parse(ast.unparse(body[0].value),
                                  mode="eval")).body
        env["environ"] = "p1"
        code = self.expr(fn, env, value, lambda v: "Ok %s" % v)
        self.sigs[("SimpleRequest", "query")] = True
        self.defs.append(
            "(* SimpleRequest.query, as a function of self.__environ *)\n"
            "Definition gen_SimpleRequest_query (p1 : fv) : res fv :=\n%s."
            % code)

    def args_init(self):
        """Args.__init__(self, req, keep_blank_values, strict_parsing): the
        request object is represented by its environ dictionary"""
        cls = self.classes["Args"]
        fundef = cls.own.get("__init__")
        if fundef is None:
            raise Unsupported(cls.node, "Args.__init__")
        first = fundef.args.args[1].arg if len(fundef.args.args) > 1 else None
        if first is None:
            raise Unsupported(fundef, "signature")
        self.method("Args", "__init__", extra_env={first: "@req:p1"})


# ------------------------------------------- Request.__init__ (skeleton)
class Skeleton:
    def __init__(self, tree):
        self.tree = tree
        classes = [n for n in tree.body if isinstance(n, ast.ClassDef)
                   and n.name == "Request"]
        if len(classes) != 1:
            raise Unsupported(tree, "class Request")
        self.cls = classes[0]
        self.defs = []

    def own(self, name):
        found = [st for st in self.cls.body
                 if isinstance(st, ast.FunctionDef) and st.name == name]
        if not found:
            raise Unsupported(self.cls, "Request.%s" % name)
        return found

    def prop(self, name):
        """@property def name(self): [doc] return <bool expr>"""
        found = self.own(name)
        if len(found) != 1 or [ast.dump(d) for d in found[0].decorator_list] \
                != [ast.dump(ast.Name(id="property", ctx=ast.Load()))]:
            raise Unsupported(self.cls, "property %s" % name)
        body = [st for st in found[0].body if not is_docstring(st)]
        if len(body) != 1 or not isinstance(body[0], ast.Return) or \
                body[0].value is None:
            raise Unsupported(found[0], "property body")
        return body[0].value

    def intexp(self, node):
        if isinstance(node, ast.Constant) and type(node.value) is int:
            return py2v.zl(node.value)
        if isinstance(node, ast.UnaryOp) and isinstance(node.op, ast.USub) \
                and isinstance(node.operand, ast.Constant) and \
                type(node.operand.value) is int:
            return py2v.zl(-node.operand.value)
        name = dotted(node)
        if name in CFG_INTS:
            return "(%s)" % CFG_INTS[name]
        raise Unsupported(node, "integer operand")

    def boolexp(self, node, in_prop=False):
        for text, term in CFG_ATOMS.items():
            if same_ast(node, text):
                return "(%s)" % term
        if isinstance(node, ast.BoolOp):
            op = " && " if isinstance(node.op, ast.And) else " || "
            return "(%s)" % op.join(self.boolexp(v, in_prop)
                                    for v in node.values)
        if isinstance(node, ast.UnaryOp) and isinstance(node.op, ast.Not):
            return "(negb %s)" % self.boolexp(node.operand, in_prop)
        if isinstance(node, ast.Compare):
            ops = {ast.Lt: "<?", ast.LtE: "<=?", ast.Gt: ">?", ast.GtE: ">=?",
                   ast.Eq: "=?"}
            operands = [node.left] + list(node.comparators)
            parts = []
            for a, op, b in zip(operands, node.ops, operands[1:]):
                if type(op) not in ops:
                    raise Unsupported(node, "comparison")
                parts.append("(%s %s %s)" % (self.intexp(a), ops[type(op)],
                                             self.intexp(b)))
            return "(%s)" % " && ".join(parts)
        name = dotted(node)
        if name is not None and name.startswith("app.") and \
                name[4:] in CFG_APP_FLAGS:
            return "(%s c)" % CFG_APP_FLAGS[name[4:]]
        if name is not None and name.startswith("self.") and \
                name[5:] in CFG_PROPS and not in_prop:
            return "(%s c)" % CFG_PROPS[name[5:]]
        raise Unsupported(node, "test of a constructor decision")

    def assigned_attrs(self, stmts):
        out = set()
        for st in stmts:
            for node in ast.walk(st):
                if isinstance(node, ast.Attribute) and \
                        isinstance(node.ctx, ast.Store) and \
                        is_self(node.value):
                    out.add(node.attr)
        return frozenset(out)

    def translate(self):
        for pname, gname in CFG_PROPS.items():
            self.defs.append(
                "(* Request.%s *)\nDefinition %s (c : cfg) : bool :=\n%s."
                % (pname, gname, self.boolexp(self.prop(pname), True)))
        inits = self.own("__init__")
        if len(inits) != 1 or inits[0].decorator_list:
            raise Unsupported(self.cls, "Request.__init__")
        init = inits[0]
        if [a.arg for a in init.args.args] != ["self", "environ", "app"] or \
                init.args.vararg or init.args.kwarg or init.args.kwonlyargs \
                or init.args.defaults:
            raise Unsupported(init, "signature")
        for node in ast.walk(init):
            if isinstance(node, ast.Name) and node.id in ("self", "app") \
                    and isinstance(node.ctx, (ast.Store, ast.Del)):
                raise Unsupported(node, "self / app rebound")
            if isinstance(node, (ast.Return, ast.Try, ast.While, ast.With,
                                 ast.Global, ast.Nonlocal, ast.FunctionDef,
                                 ast.ClassDef, ast.Break, ast.Continue,
                                 ast.Delete, ast.NamedExpr)) \
                    and node is not init:
                raise Unsupported(node, "construct in Request.__init__")
        steps = []
        for st in init.body:
            if is_docstring(st):
                continue
            if isinstance(st, ast.Expr) and isinstance(st.value, ast.Call) \
                    and dotted(st.value.func) in INIT_SKIP_CALLS:
                continue
            if isinstance(st, ast.Expr) and isinstance(st.value, ast.Call) \
                    and isinstance(st.value.func, ast.Attribute) and \
                    isinstance(st.value.func.value, ast.Name) and \
                    st.value.func.value.id == "log":
                continue                        # logging: dropped by name
            if isinstance(st, ast.Assign):
                names = []
                for t in st.targets:
                    names += [dotted(e) for e in (
                        t.elts if isinstance(t, ast.Tuple) else [t])]
                if all(n in INIT_SKIP_ASSIGN for n in names):
                    continue
                raise Unsupported(st, "assignment in Request.__init__")
            if isinstance(st, ast.For) and not st.orelse and \
                    dotted(st.iter) in INIT_SKIP_FOR_ITER and \
                    not self.assigned_attrs([st]):
                continue
            if isinstance(st, ast.If):
                attrs = self.assigned_attrs([st])
                if not attrs and not st.orelse and len(st.body) == 1 and \
                        isinstance(st.body[0], ast.Raise) and \
                        isinstance(st.body[0].exc, ast.Call) and \
                        dotted(st.body[0].exc.func) in INIT_SKIP_RAISE_IF:
                    continue
                kind = INIT_DECISIONS.get(attrs)
                if kind is None:
                    raise Unsupported(st, "decision assigning %s"
                                      % sorted(attrs))
                if kind in steps:
                    raise Unsupported(st, "decision made twice")
                steps.append(kind)
                if kind == "SBuffer":
                    self.buffer_decision(st)
                elif kind == "SBody":
                    self.body_decision(st)
                continue
            raise Unsupported(st, "statement in Request.__init__")
        self.defs.append(
            "(* the constructor's decisions in source order *)\n"
            "Definition gen_init_steps : list init_step := [%s]."
            % "; ".join(steps))

    def buffer_decision(self, st):
        if st.orelse:
            raise Unsupported(st, "else of the buffering decision")
        # the branch replaces the stream by a buffer of what one read gives
        body = st.body
        want = "self.__file = BytesIO(self.__file.read(self.__content_length))"
        if not body or ast.dump(body[0]) != ast.dump(ast.parse(want).body[0]):
            raise Unsupported(st, "buffering statement")
        for extra in body[1:]:
            if not (isinstance(extra, ast.Expr) and
                    same_ast(extra.value, "self.__file.seek(0)")):
                raise Unsupported(extra, "statement in the buffering branch")
        self.defs.append(
            "(* if <test>: self.__file = BytesIO(self.__file.read("
            "self.__content_length)) *)\n"
            "Definition gen_init_buffered (c : cfg) : bool :=\n%s."
            % self.boolexp(st.test))

    def body_decision(self, st):
        """if T1: (json) elif T2: (form) else: (neither) -- which branch
        sets which attribute from which parser"""
        if len(st.orelse) != 1 or not isinstance(st.orelse[0], ast.If):
            raise Unsupported(st, "json / form decision shape")
        second = st.orelse[0]
        if not second.orelse:
            raise Unsupported(st, "json / form decision without else")

        def sources(stmts):
            """attribute -> text of the callee that makes its value"""
            out = {}
            for s in stmts:
                if isinstance(s, ast.Assign) and len(s.targets) == 1:
                    tgt = s.targets[0]
                    if isinstance(tgt, ast.Attribute) and is_self(tgt.value) \
                            and isinstance(s.value, ast.Call):
                        if tgt.attr in out:
                            raise Unsupported(s, "attribute set twice")
                        out[tgt.attr] = dotted(s.value.func)
                        continue
                    if isinstance(tgt, ast.Name) and \
                            isinstance(s.value, ast.Call):
                        out["local " + tgt.id] = dotted(s.value.func)
                        continue
                raise Unsupported(s, "statement in a json / form branch")
            return out
        json_b, form_b, else_b = (sources(st.body), sources(second.body),
                                  sources(second.orelse))
        if json_b != {"__json": "parse_json_request", "__form": "EmptyForm"}:
            raise Unsupported(st, "json branch")
        parser = [k_ for k_ in form_b if k_.startswith("local ")]
        if len(parser) != 1 or form_b != {
                parser[0]: "fieldstorage.FieldStorageParser",
                "__form": parser[0][6:] + ".parse", "__json": "EmptyForm"}:
            raise Unsupported(second, "form branch")
        if else_b != {"__form": "EmptyForm", "__json": "EmptyForm"}:
            raise Unsupported(second, "else branch")
        self.defs.append(
            "(* if <test>: self.__json = parse_json_request(...) *)\n"
            "Definition gen_init_json_test (c : cfg) : bool :=\n%s."
            % self.boolexp(st.test))
        self.defs.append(
            "(* elif <test>: self.__form = FieldStorageParser(...).parse() "
            "*)\nDefinition gen_init_form_test (c : cfg) : bool :=\n%s."
            % self.boolexp(second.test))
        self.defs.append(
            "Definition gen_init_json_branch (c : cfg) : bool :=\n"
            "gen_init_json_test c.")
        self.defs.append(
            "Definition gen_init_form_branch (c : cfg) : bool :=\n"
            "negb (gen_init_json_test c) && gen_init_form_test c.")


# ------------------------------------------------------------- module checks
def check_module(tree, src):
    """names the translation gives a fixed meaning are imported / defined
    once at module level and never rebound"""
    imported = {}
    for node in ast.walk(tree):
        if isinstance(node, ast.ImportFrom):
            for alias in node.names:
                bound = alias.asname or alias.name
                if bound == "*":
                    raise Unsupported(node, "import *")
                if bound in RESERVED or node.module == STATE_MODULE:
                    if node not in tree.body or node.level or \
                            bound in imported:
                        raise Unsupported(node, "import of %s" % bound)
                    imported[bound] = (node.module, alias.name)
        elif isinstance(node, ast.Import):
            for alias in node.names:
                bound = alias.asname or alias.name.split(".")[0]
                if bound in RESERVED:
                    if node not in tree.body or alias.asname or \
                            alias.name != "warnings" or bound in imported:
                        raise Unsupported(node, "import")
                    imported[bound] = (alias.name, None)
        elif isinstance(node, (ast.FunctionDef, ast.AsyncFunctionDef,
                               ast.ClassDef)):
            # (request.py's deprecated function FieldStorage is not used by
            # any translated code: the class is looked up in fieldstorage.py)
            if node.name in RESERVED and not (
                    node in tree.body and isinstance(node, ast.ClassDef)
                    and node.name in CLASSES and CLASSES[node.name][0] == src
            ) and not (node in tree.body and src == SRC_REQ and
                       isinstance(node, ast.FunctionDef) and
                       node.name == "FieldStorage"):
                raise Unsupported(node, "definition of a reserved name")
        elif isinstance(node, ast.Name) and node.id in RESERVED and \
                isinstance(node.ctx, (ast.Store, ast.Del)):
            if not (node.id == "log" and any(
                    isinstance(st, ast.Assign) and node in st.targets
                    for st in tree.body)):
                raise Unsupported(node, "reserved name rebound")
        elif isinstance(node, (ast.Global, ast.Nonlocal)) and \
                set(node.names) & RESERVED:
            raise Unsupported(node, "global / nonlocal")
        elif isinstance(node, ast.Attribute) and \
                isinstance(node.ctx, (ast.Store, ast.Del)) and \
                isinstance(node.value, ast.Name) and node.value.id in CLASSES:
            raise Unsupported(node, "class attribute assigned")
        elif isinstance(node, ast.arg) and node.arg in RESERVED - {"self"}:
            raise Unsupported(node, "parameter named like a reserved name")
    return imported


def translate(outdir=None):
    trees = {SRC_REQ: py2v.parse(SRC_REQ), SRC_FS: py2v.parse(SRC_FS)}
    imp_req = check_module(trees[SRC_REQ], SRC_REQ)
    imp_fs = check_module(trees[SRC_FS], SRC_FS)
    want_req = {"fieldstorage": ("poorwsgi", "fieldstorage"),
                "warnings": ("warnings", None),
                HTTP_EXC[0]: (HTTP_EXC[1], HTTP_EXC[0]),
                "BytesIO": ("io", "BytesIO")}
    for local, (mod, orig, _, _) in PRIM_FUNCS.items():
        want_req[local] = (mod, orig)
    for name, origin in want_req.items():
        if imp_req.get(name) != origin:
            raise Unsupported(trees[SRC_REQ], "import of %s" % name)
    want_fs = {"warnings": ("warnings", None), "StringIO": ("io", "StringIO"),
               "BytesIO": ("io", "BytesIO")}
    for name, origin in want_fs.items():
        if imp_fs.get(name) != origin:
            raise Unsupported(trees[SRC_FS], "import of %s" % name)
    for name in imp_req:
        if name in RESERVED and name not in want_req:
            raise Unsupported(trees[SRC_REQ], "import rebinding %s" % name)
    for name in imp_fs:
        if name in RESERVED and name not in want_fs:
            raise Unsupported(trees[SRC_FS], "import rebinding %s" % name)
    tr = Translator(trees)
    tr.state_consts = py2v.state_consts()
    tr.state_imports = {n for n, (mod, orig) in imp_req.items()
                        if mod == STATE_MODULE and orig == n}
    tr.load_classes()
    # (1) the interface and Args
    for name in ACCESSORS:
        tr.method(IFACE, name)
    tr.query_property()
    tr.args_init()
    tr.accessors("Args")
    # (3) EmptyForm, JsonDict, JsonList
    tr.accessors("EmptyForm")
    tr.accessors("JsonDict")
    tr.accessors("JsonList")
    # (2) FieldStorage
    tr.method("FieldStorage", "__contains__")
    tr.method("FieldStorage", "__getitem__")
    tr.method("FieldStorage", "value", prop=True)
    tr.method("FieldStorage", "keys")
    tr.accessors("FieldStorage")
    # (4) parse_json_request
    tr.function(trees[SRC_REQ], "parse_json_request",
                "gen_parse_json_request")
    # (5) Request.__init__
    sk = Skeleton(trees[SRC_REQ])
    sk.translate()
    out = ["(* GENERATED by harness/py2v_form.py from %s (SimpleRequest.query,"
           " Args, EmptyForm, JsonDict, JsonList, parse_json_request, "
           "Request.__init__ decisions) and %s (FieldStorageInterface, "
           "FieldStorage) -- do not edit *)" % (SRC_REQ, SRC_FS),
           "From Coq Require Import ZArith List Bool String.",
           "Require Import PW.lib.Val PW.model.QueryForm PW.lib.PyForm.",
           "Import ListNotations.", "Open Scope string_scope.",
           "Open Scope list_scope.", "Open Scope Z_scope.",
           "Section Gen.",
           "Variable apply : nat -> fv -> res fv.",
           "Variable decode : list Z -> list Z -> option (list Z).",
           "Variable loads : list Z -> option J."]
    out = ["\n".join(out)] + tr.defs
    out.append("End Gen.")
    out += sk.defs
    text = "\n\n".join(out) + "\n"
    outdir = outdir or py2v.GEN
    os.makedirs(outdir, exist_ok=True)
    path = os.path.join(outdir, OUTFILE)
    old = open(path).read() if os.path.exists(path) else None
    if old != text:
        with open(path, "w") as f:
            f.write(text)
    return path


def drop_compiled():
    """py2v.regenerate removes gen/FormGen.v when the translation is
    refused; the compiled forms must go too (also of the proofs file), or a
    stale FormGen.vo would keep the dependent theorems compiling"""
    coq = os.path.dirname(py2v.GEN)
    for stem in (os.path.join(py2v.GEN, OUTFILE[:-2]),
                 os.path.join(coq, "proofs", "FormGenEq")):
        for ext in (".vo", ".vos", ".vok", ".glob"):
            if os.path.exists(stem + ext):
                os.unlink(stem + ext)


def gen_form():
    try:
        return translate()
    except Unsupported:
        drop_compiled()
        raise
    except Exception as err:    # a crash of the translator is a refusal too
        drop_compiled()
        raise Unsupported(None, "translator error %r" % (err,))


def register(TARGETS, OUTPUT):
    TARGETS["form"] = gen_form
    OUTPUT["form"] = OUTFILE


if __name__ == "__main__":
    # development aid: python py2v_form.py <output directory> [<repo>]
    if len(sys.argv) > 2:
        py2v.REPO = sys.argv[2]
    print(translate(sys.argv[1] if len(sys.argv) > 1 else None))
