"""Translator plugin: poorwsgi/headers.py _parseparam, parse_header ->
coq/gen/ParamGen.v (proved equal to model/HeaderCodec.v [parseparam] /
[parse_header] in proofs/ParamGenEq.v, theorems C18_generated_*_is_model).

Reuses the general translator (py2v.Unit over lib/Py.v: CPS/SSA, `if` join
points, `while` as a Fixpoint on fuel, `for` over the item list, `yield`
collected into the result list) and adds, with the semantics of
lib/PyParam.v:

  * str: `s[e]` with a computed or negative index (pitem), `.strip()`,
    `.lower()`, `.find(sub)`, `.replace(old, new)`;
  * the chained comparison `a == b == c` (b evaluated once, c only when the
    first comparison holds);
  * a `while` nested in another loop: a Fixpoint on fuel that *returns* the
    variables assigned in its body (a `break` returns them too); the caller
    goes on with them (the general translator puts the code after a loop
    into the loop's Fixpoint, which a nested loop cannot do);
  * the call `_parseparam(e)` of the other translated function (a generator:
    its items as a list, the caller's fuel passed on), `x = it.__next__()`
    as a top-level statement (first item and the iterator after it,
    StopIteration on the empty one), `for p in it` over the remaining items;
  * dict: `{}` and the store `d[k] = v` with dict semantics (pdict_store).

Dropped by name: docstrings (py2v.Unit.block); comments are not in the AST.
Every other call, method, subscript or statement raises py2v.Unsupported.
"""
import ast
import os

import py2v
from py2v import Unsupported

SOURCE = "poorwsgi/headers.py"
GENERATOR = "_parseparam"
# str methods: (name, number of arguments) -> operation of lib/PyParam.v
METHODS = {("strip", 0): "pstrip", ("lower", 0): "plower",
           ("find", 1): "pfind1", ("replace", 2): "preplace"}
COMPARE = {ast.Eq: "peq", ast.NotEq: "pne", ast.Lt: "plt", ast.LtE: "ple",
           ast.Gt: "pgt", ast.GtE: "pge"}


class ParamUnit(py2v.Unit):
    def __init__(self):
        super().__init__()
        self.depth = 0          # loops around the statement being translated

    # ---------------------------------------------------------- expressions
    def expr(self, cx, env, node, k):
        if isinstance(node, ast.Compare) and len(node.ops) == 2:
            return self.chain2(cx, env, node, k)
        if isinstance(node, ast.Dict) and node.keys:
            raise Unsupported(node, "non-empty dict literal")
        if isinstance(node, (ast.JoinedStr, ast.List)):
            raise Unsupported(node, "expression")
        if isinstance(node, ast.BinOp) and \
                not isinstance(node.op, (ast.Add, ast.Sub)):
            raise Unsupported(node, "operator")
        return super().expr(cx, env, node, k)

    def chain2(self, cx, env, node, k):
        """a op1 b op2 c  ==  (a op1 b) and (b op2 c), b evaluated once"""
        fns = [COMPARE.get(type(op)) for op in node.ops]
        if None in fns:
            raise Unsupported(node, "comparison")
        mid, last = node.comparators
        join, arg = cx.fresh("j"), cx.fresh("b")

        def second(a, b, first):
            return "if truthy %s then (%s) else %s %s" % (
                first, self.expr(cx, env, last, lambda c: self.bindk(
                    cx, "%s %s %s" % (fns[1], b, c),
                    lambda r: "%s %s" % (join, r))), join, first)
        code = self.expr(cx, env, node.left, lambda a: self.expr(
            cx, env, mid, lambda b: self.bindk(
                cx, "%s %s %s" % (fns[0], a, b),
                lambda first: second(a, b, first))))
        return "let %s := fun (%s : pv) => (%s) in\n%s" % (
            join, arg, k(arg), code)

    def subscript(self, cx, env, node, k):
        if isinstance(node.slice, ast.Slice):
            return super().subscript(cx, env, node, k)
        return self.expr(cx, env, node.value, lambda v: self.expr(
            cx, env, node.slice, lambda i: self.bindk(
                cx, "pitem %s %s" % (v, i), k)))

    def call(self, cx, env, node, k):
        fn = node.func
        if node.keywords or any(isinstance(a, ast.Starred)
                                for a in node.args):
            raise Unsupported(node, "call arguments")
        if isinstance(fn, ast.Attribute):
            op = METHODS.get((fn.attr, len(node.args)))
            if op is None:
                raise Unsupported(node, "method call")
            return self.expr(cx, env, fn.value, lambda v: self.seq(
                cx, env, node.args, lambda it: self.bindk(
                    cx, " ".join([op, v] + it), k)))
        fname = self.dotted(fn)
        if fname == "len" and fname not in env and len(node.args) == 1:
            return super().call(cx, env, node, k)
        if fname == GENERATOR and fname not in env and \
                fname in self.callees and len(node.args) == 1:
            gen = self.callees[fname][0]
            return self.expr(cx, env, node.args[0], lambda a: self.bindk(
                cx, "%s %s fuel" % (gen, a), k))
        raise Unsupported(node, "call")

    # ----------------------------------------------------------- statements
    def block(self, cx, env, stmts, kend, loopk=None):
        if stmts:
            st, rest = stmts[0], stmts[1:]

            def after(env2):
                return self.block(cx, env2, rest, kend, loopk)
            if isinstance(st, ast.Assign) and len(st.targets) == 1:
                tgt, val = st.targets[0], st.value
                # x = it.__next__()
                if isinstance(val, ast.Call) and \
                        isinstance(val.func, ast.Attribute) and \
                        val.func.attr == "__next__":
                    itname = self.dotted(val.func.value)
                    if val.args or val.keywords or itname not in env or \
                            not isinstance(val.func.value, ast.Name) or \
                            not isinstance(tgt, ast.Name) or \
                            st not in cx.fundef.body:
                        raise Unsupported(st, "__next__ shape")
                    item, itnew = cx.fresh(tgt.id), cx.fresh(itname)
                    env2 = dict(env)
                    env2[itname] = itnew
                    env2[tgt.id] = item
                    return "pr <- pnext %s ;; let '(%s, %s) := pr in\n%s" % (
                        env[itname], item, itnew, after(env2))
                # d[k] = v : the value is evaluated first, then the key
                if isinstance(tgt, ast.Subscript):
                    dname = self.dotted(tgt.value)
                    if not isinstance(tgt.value, ast.Name) or \
                            dname not in env or \
                            isinstance(tgt.slice, ast.Slice):
                        raise Unsupported(st, "store shape")
                    new = cx.fresh(dname)
                    return self.expr(cx, env, val, lambda v: self.expr(
                        cx, env, tgt.slice, lambda key: (
                            "%s <- pdict_store %s %s %s ;;\n%s" % (
                                new, env[dname], key, v,
                                after(dict(env, **{dname: new}))))))
            if isinstance(st, (ast.Delete, ast.Raise)):
                raise Unsupported(st, "statement")
        return super().block(cx, env, stmts, kend, loopk)

    def effect_call(self, cx, env, call, after):
        raise Unsupported(call, "statement call")

    def for_loop(self, cx, env, st, after):
        if self.depth:
            raise Unsupported(st, "nested for")
        self.depth += 1
        try:
            return super().for_loop(cx, env, st, after)
        finally:
            self.depth -= 1

    def while_loop(self, cx, env, st, after):
        if self.depth == 0:
            self.depth += 1
            try:
                return super().while_loop(cx, env, st, after)
            finally:
                self.depth -= 1
        if self.depth > 1:
            raise Unsupported(st, "loop nesting")
        return self.nested_while(cx, env, st, after)

    def nested_while(self, cx, env, st, after):
        """a while inside a loop: the Fixpoint returns the carried
        variables; `break` returns them as well"""
        if st.orelse:
            raise Unsupported(st, "while-else")
        for sub in ast.walk(st):
            if isinstance(sub, (ast.Return, ast.Yield, ast.YieldFrom,
                                ast.Continue, ast.For)) or \
                    (isinstance(sub, ast.While) and sub is not st):
                raise Unsupported(sub, "inside a nested while")
        carried = list(self.names_assigned(st.body))
        free = [n for n in env if n not in carried]
        order = free + carried
        lname = "%s_inner_%d" % (cx.name, len(cx.loops) + 1)
        params = {n: cx.fresh(n) for n in order}
        inner = dict(params)

        def again(e):
            return "%s fuel_ %s" % (lname, " ".join(
                e.get(n, "PNone") for n in order))

        def leave(e):
            return "Ok (PTuple [%s])" % ";".join(
                e.get(n, "PNone") for n in carried)
        saved = cx.breakk
        cx.breakk = leave
        self.depth += 1
        try:
            body = self.block(cx, inner, st.body, again, None)
        finally:
            self.depth -= 1
            cx.breakk = saved
        test = self.expr(
            cx, inner, st.test, lambda c:
            "if truthy %s then\n match fuel with\n | O => Err (Raised "
            "\"OutOfFuel\" PNone)\n | S fuel_ => (%s)\n end\nelse %s" % (
                c, body, leave(inner)))
        sig = " ".join("(%s : pv)" % params[n] for n in order)
        cx.loops.append(
            "Fixpoint %s (fuel : nat) %s {struct fuel} : res pv :=\n%s." % (
                lname, sig, test))
        outs = [cx.fresh(n) for n in carried]
        env_after = dict(env)
        for name, var in zip(carried, outs):
            env_after[name] = var
        return ("r_ <- %s fuel %s ;;\nmatch r_ with\n| PTuple [%s] => (%s)\n"
                "| _ => Err TypeError\nend" % (
                    lname, " ".join(env.get(n, "PNone") for n in order),
                    ";".join(outs), after(env_after)))

    def write(self, filename, header):
        out = ["(* GENERATED by harness/py2v_param.py from %s -- do not "
               "edit *)" % header,
               "From Coq Require Import ZArith List Bool String.",
               "Require Import PW.lib.Val PW.lib.Dec PW.lib.Py "
               "PW.lib.PyParam.",
               "Import ListNotations.", "Open Scope string_scope.",
               "Open Scope list_scope.", "Open Scope Z_scope.", ""]
        out += self.defs
        os.makedirs(py2v.GEN, exist_ok=True)
        path = os.path.join(py2v.GEN, filename)
        text = "\n\n".join(out) + "\n"
        old = open(path).read() if os.path.exists(path) else None
        if old != text:
            with open(path, "w") as f:
                f.write(text)
        return path


def plain_params(fun, count):
    args = fun.args
    if args.defaults or args.vararg or args.kwarg or args.kwonlyargs or \
            args.posonlyargs or args.kw_defaults or fun.decorator_list or \
            len(args.args) != count:
        raise Unsupported(fun, "signature")
    return [a.arg for a in args.args]


def gen_param():
    tree = py2v.parse(SOURCE)
    gen = py2v.find_function(tree, GENERATOR)
    hdr = py2v.find_function(tree, "parse_header")
    unit = ParamUnit()
    gparams = plain_params(gen, 1)
    if not any(isinstance(n, ast.Yield) for n in ast.walk(gen)):
        raise Unsupported(gen, "not a generator")
    unit.function(gen, "gen_parseparam", gparams, fuel=True)
    unit.callees = {GENERATOR: ("gen_parseparam", gparams, {})}
    unit.function(hdr, "gen_parse_header", plain_params(hdr, 1), fuel=True)
    return unit.write("ParamGen.v", "%s _parseparam, parse_header" % SOURCE)


def register(TARGETS, OUTPUT):
    TARGETS["param"] = gen_param
    OUTPUT["param"] = "ParamGen.v"
