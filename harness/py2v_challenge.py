"""Translator plugin: poorwsgi/results.py unauthorized (the built-in 401 page
with its Digest challenge) -> coq/gen/ChallengeGen.v, proved equal to
model/Challenge.v in proofs/ChallengeGenEq.v (theorem
C11_generated_challenge_is_model).

Reuses py2v_digest.DigestUnit (objects with a fixed field list, dict values,
hash calls through Section variables, str.format pieces) over lib/Py.v +
lib/PyDigest.v + lib/PyChallenge.v and adds:

  * `'...{name}...'.format(name=e, ...)`: keyword values evaluated in source
    order, looked up by name (pformat_kw over the dict of the keywords);
  * `'lit' % e` with a single non-tuple operand (py2v.Unit.percent);
  * `'lit' % (e1, ..., en)`: the page text.  The literal is NOT put into the
    generated term (it is tied by the pages translator, C15): the term is
    `Page [e1; ...; en]`, Page a Section variable;
  * `html_escape(e)` (results.py's own function, checked to be defined once
    at module level) through the Section variable Esc;
  * `get_token(...)` with session.get_token's signature (positional /
    keyword / default arguments resolved by name) through the Section
    variable GT;
  * `raise RuntimeError('lit')`;
  * `x += e` on a local name;
  * `{'lit': e, ...}`;
  * `Response(e, kw=e, ...)`: pctor with the keyword names kept, in source
    order; HTTP_* constants from state.py (checked import);
  * local names are numbered by position (v_1, v_2, ...), never spelled.

Dropped by name: docstrings and `log.*(...)` statements (py2v.Unit.block).
Everything else raises py2v.Unsupported; then the generated file and the
compiled forms of ChallengeGen / ChallengeGenEq are deleted.
"""
import ast
import os

import py2v
import py2v_digest
from py2v import Unsupported, strlit

SOURCE = "poorwsgi/results.py"
FUNCTION = "unauthorized"

# ---- trusted tables
# attributes of `req` read by unauthorized, in the order of the generated
# function's leading parameters
REQ_FIELDS = ["app.auth_type", "secret_key", "user_agent",
              "app.auth_timeout", "server_hostname", "app.auth_qop",
              "app.auth_algorithm", "method", "uri", "server_admin"]
# names that must be bound once, by these imports, and never rebound
IMPORTS = {"sha256": "hashlib", "get_token": "poorwsgi.session",
           "Response": "poorwsgi.response",
           "HTTP_UNAUTHORIZED": "poorwsgi.state"}
LOCAL_FUNS = {"html_escape": "Esc"}     # module-level defs used as str -> str
RAISABLE = {"RuntimeError"}
CTORS = {"Response"}
SECTION_VARS = [("Ho", "list Z -> list Z"), ("Esc", "list Z -> list Z"),
                ("GT", "pv -> pv -> pv -> pv -> res pv"),
                ("Page", "list pv -> res pv")]


class PosCtx(py2v.Ctx):
    """names by SSA position, not by spelling"""
    def fresh(self, base):
        self.counter += 1
        return "v_%d" % self.counter


class ChallengeUnit(py2v_digest.DigestUnit):
    def __init__(self, **kw):
        super().__init__(**kw)
        self.gt_sig = None
        self.state = {}

    def function(self, *a, **kw):
        old = py2v.Ctx
        py2v.Ctx = PosCtx
        try:
            return super().function(*a, **kw)
        finally:
            py2v.Ctx = old

    # ---------------------------------------------------------- expressions
    def expr(self, cx, env, node, k):
        if isinstance(node, ast.Name) and node.id in self.state and \
                node.id in IMPORTS and node.id not in env:
            return k("(PInt %s)" % py2v.zl(self.state[node.id]))
        if isinstance(node, ast.BinOp) and isinstance(node.op, ast.Mod):
            if not (isinstance(node.left, ast.Constant) and
                    isinstance(node.left.value, str)):
                raise Unsupported(node, "operator")
            if isinstance(node.right, ast.Tuple):
                if any(isinstance(e, ast.Starred) for e in node.right.elts):
                    raise Unsupported(node, "starred")
                return self.seq(cx, env, node.right.elts, lambda it: (
                    self.bindk(cx, "Page [%s]" % "; ".join(it), k)))
            return self.percent(cx, env, node, k)
        if isinstance(node, ast.Dict) and node.keys:
            for key in node.keys:
                if not (isinstance(key, ast.Constant) and
                        isinstance(key.value, str)):
                    raise Unsupported(node, "dict key")
            if len({key.value for key in node.keys}) != len(node.keys):
                raise Unsupported(node, "duplicate dict key")
            # newest entry first (lib/PyDigest.v)
            return self.seq(cx, env, node.values, lambda it: k(
                "(PDict [%s])" % "; ".join(reversed([
                    "PTuple [PStr %s; %s]" % (strlit(key.value), v)
                    for key, v in zip(node.keys, it)]))))
        return super().expr(cx, env, node, k)

    def by_signature(self, node, sig):
        params, defaults = sig
        if any(isinstance(a, ast.Starred) for a in node.args):
            raise Unsupported(node, "starred")
        kw = {}
        for w in node.keywords:
            if w.arg is None or w.arg in kw or w.arg not in params or \
                    params.index(w.arg) < len(node.args):
                raise Unsupported(node, "keyword")
            kw[w.arg] = w.value
        if len(node.args) > len(params):
            raise Unsupported(node, "too many arguments")
        # Python evaluates positional then keyword arguments in source order;
        # all arguments here must be effect-free reads, checked by the caller
        nodes = []
        for i, p in enumerate(params):
            if i < len(node.args):
                nodes.append(node.args[i])
            elif p in kw:
                nodes.append(kw[p])
            elif p in defaults:
                nodes.append(defaults[p])
            else:
                raise Unsupported(node, "missing argument %s" % p)
        return nodes

    def call(self, cx, env, node, k):
        fn = node.func
        fname = self.dotted(fn)
        # '...'.format(name=e, ...)
        if isinstance(fn, ast.Attribute) and fn.attr == "format" and \
                isinstance(fn.value, ast.Constant) and \
                isinstance(fn.value.value, str) and not node.args and \
                node.keywords and all(w.arg for w in node.keywords):
            pieces = self.format_pieces(node, fn.value.value)
            return self.seq(
                cx, env, [w.value for w in node.keywords], lambda it:
                self.bindk(cx, "pformat_kw %s (PDict [%s])" % (
                    pieces, "; ".join(reversed([
                        "PTuple [PStr %s; %s]" % (strlit(w.arg), v)
                        for w, v in zip(node.keywords, it)]))), k))
        if fname in LOCAL_FUNS and fname not in env and \
                not node.keywords and len(node.args) == 1 and \
                not isinstance(node.args[0], ast.Starred):
            return self.expr(cx, env, node.args[0], lambda a: self.bindk(
                cx, "pstrfun %s %s" % (LOCAL_FUNS[fname], a), k))
        if fname == "get_token" and fname not in env:
            nodes = self.by_signature(node, self.gt_sig)
            for n in nodes:
                if not isinstance(n, (ast.Name, ast.Attribute, ast.Constant)):
                    raise Unsupported(n, "get_token argument")
            return self.seq(cx, env, nodes, lambda it: self.bindk(
                cx, " ".join(["GT"] + it), k))
        if fname in CTORS and fname not in env:
            if any(isinstance(a, ast.Starred) for a in node.args) or \
                    any(w.arg is None for w in node.keywords):
                raise Unsupported(node, "starred")
            npos = len(node.args)
            nodes = list(node.args) + [w.value for w in node.keywords]
            return self.seq(cx, env, nodes, lambda it: self.bindk(
                cx, "pctor %s [%s] [%s]" % (
                    strlit(fname), "; ".join(it[:npos]), "; ".join(
                        "PTuple [PStr %s; %s]" % (strlit(w.arg), v)
                        for w, v in zip(node.keywords, it[npos:]))), k))
        if fname in ("check_token",) or fname in py2v_digest.STRFUNS:
            raise Unsupported(node, "call")
        return super().call(cx, env, node, k)

    # ----------------------------------------------------------- statements
    def block(self, cx, env, stmts, kend, loopk=None):
        if stmts:
            st = stmts[0]
            if isinstance(st, ast.Raise):
                exc = st.exc
                if st.cause is None and isinstance(exc, ast.Call) and \
                        self.dotted(exc.func) in RAISABLE and \
                        self.dotted(exc.func) not in env and \
                        not exc.keywords and len(exc.args) == 1 and \
                        isinstance(exc.args[0], ast.Constant) and \
                        isinstance(exc.args[0].value, str):
                    return 'Err (Raised "%s" (PStr %s))' % (
                        self.dotted(exc.func), strlit(exc.args[0].value))
                raise Unsupported(st, "raise")
            if isinstance(st, ast.AugAssign):
                if not isinstance(st.op, ast.Add) or \
                        not isinstance(st.target, ast.Name) or \
                        st.target.id not in env or \
                        env[st.target.id].startswith("@"):
                    raise Unsupported(st, "augmented assignment")
                return py2v.Unit.block(self, cx, env, stmts, kend, loopk)
            if isinstance(st, ast.Try):
                raise Unsupported(st, "try")
        return super().block(cx, env, stmts, kend, loopk)

    def write_challenge(self, filename, header):
        os.makedirs(py2v.GEN, exist_ok=True)
        out = ["(* GENERATED by harness/py2v_challenge.py from %s -- do not "
               "edit *)" % header,
               "From Coq Require Import ZArith List Bool String.",
               "Require Import PW.lib.Val PW.lib.Dec PW.lib.Py "
               "PW.lib.PyDigest PW.lib.PyChallenge.",
               "Import ListNotations.", "Open Scope string_scope.",
               "Open Scope list_scope.", "Open Scope Z_scope.", "",
               "Section Gen."]
        for v, ty in SECTION_VARS:
            out.append("Variable %s : %s." % (v, ty))
        out += self.defs
        out.append("End Gen.")
        path = os.path.join(py2v.GEN, filename)
        text = "\n\n".join(out) + "\n"
        old = open(path).read() if os.path.exists(path) else None
        if old != text:
            with open(path, "w") as f:
                f.write(text)
        return path


def check_bindings(tree):
    """the names the Section variables / constants stand for are bound once
    at module level, by the expected import or def, and never rebound"""
    found = {}
    watched = set(IMPORTS) | set(LOCAL_FUNS) | {FUNCTION}
    defs = {}
    for node in ast.walk(tree):
        if isinstance(node, ast.ImportFrom):
            for alias in node.names:
                bound = alias.asname or alias.name
                if bound in watched:
                    if node not in tree.body or alias.asname or \
                            node.level or bound in found or \
                            bound not in IMPORTS:
                        raise Unsupported(node, "import of %s" % bound)
                    found[bound] = node.module
        elif isinstance(node, ast.Import):
            for alias in node.names:
                if (alias.asname or alias.name).split(".")[0] in watched:
                    raise Unsupported(node, "import")
        elif isinstance(node, (ast.FunctionDef, ast.AsyncFunctionDef,
                               ast.ClassDef)):
            if node.name in watched:
                if node.name in IMPORTS or node not in tree.body or \
                        not isinstance(node, ast.FunctionDef) or \
                        node.name in defs:
                    raise Unsupported(node, "redefinition")
                defs[node.name] = node
        elif isinstance(node, ast.Name) and node.id in watched and \
                isinstance(node.ctx, (ast.Store, ast.Del)):
            raise Unsupported(node, "rebinding")
        elif isinstance(node, ast.arg) and node.arg in watched:
            raise Unsupported(node, "parameter shadows a watched name")
        elif isinstance(node, (ast.Global, ast.Nonlocal)) and \
                set(node.names) & watched:
            raise Unsupported(node, "global")
    if found != IMPORTS:
        raise Unsupported(tree, "imports %s" % found)
    if set(defs) != set(LOCAL_FUNS) | {FUNCTION}:
        raise Unsupported(tree, "definitions %s" % sorted(defs))
    return defs


def drop_compiled():
    coq = os.path.dirname(py2v.GEN)
    for stem in (os.path.join(py2v.GEN, "ChallengeGen"),
                 os.path.join(coq, "proofs", "ChallengeGenEq")):
        for ext in (".vo", ".vos", ".vok", ".glob"):
            if os.path.exists(stem + ext):
                os.unlink(stem + ext)


def translate():
    tree = py2v.parse(SOURCE)
    defs = check_bindings(tree)
    fun = defs[FUNCTION]
    unit = ChallengeUnit()
    consts = py2v.state_consts()
    unit.state = {n: consts[n] for n, m in IMPORTS.items()
                  if m == "poorwsgi.state"}
    gt = py2v.find_function(py2v.parse("poorwsgi/session.py"), "get_token")
    ga = gt.args
    gparams = [p.arg for p in ga.args]
    if len(gparams) != 4 or ga.vararg or ga.kwarg or ga.kwonlyargs or \
            ga.posonlyargs or gt.decorator_list:
        raise Unsupported(gt, "get_token signature")
    unit.gt_sig = (gparams, dict(zip(
        gparams[len(gparams) - len(ga.defaults):], ga.defaults)))
    for d in unit.gt_sig[1].values():
        if not isinstance(d, ast.Constant):
            raise Unsupported(d, "get_token default")
    # own defaults of unauthorized: part of the generated file as a
    # definition of the default argument values, in parameter order
    a = fun.args
    own = [p.arg for p in a.args][1:]
    if len(a.defaults) != len(own):
        raise Unsupported(fun, "defaults")
    dvals = []
    for d in a.defaults:
        if not (isinstance(d, ast.Constant) and
                (d.value is None or isinstance(d.value, str))):
            raise Unsupported(d, "default")
        dvals.append("PNone" if d.value is None
                     else "(PStr %s)" % strlit(d.value))
    unit.defs.append("Definition gen_unauthorized_defaults : list pv :=\n"
                     "[%s]." % "; ".join(dvals))
    unit.digest_function(fun, "gen_unauthorized", req_fields=REQ_FIELDS)
    return unit.write_challenge("ChallengeGen.v", SOURCE + " " + FUNCTION)


def gen_challenge():
    try:
        return translate()
    except Exception:
        drop_compiled()
        raise


def register(TARGETS, OUTPUT):
    TARGETS["challenge"] = gen_challenge
    OUTPUT["challenge"] = "ChallengeGen.v"
