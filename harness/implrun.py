"""Helpers to run the PoorWSGI implementation from /repo's working tree.

Every check imports the implementation through this module so that the path,
the logging silence and the Application-name registry are handled in one
place.  Nothing here is PoorWSGI code.
"""
import io
import itertools
import logging
import os
import sys
import warnings

REPO = os.environ.get("VERIF_REPO", "/repo")
if REPO not in sys.path:
    sys.path.insert(0, REPO)
os.environ.setdefault("PYTHONHASHSEED", "0")
warnings.simplefilter("ignore")
logging.disable(logging.CRITICAL)

_counter = itertools.count()


def new_app(**cfg):
    """Fresh Application with a unique name."""
    from poorwsgi import Application
    app = Application("verif_%d_%d" % (os.getpid(), next(_counter)))
    for key, val in cfg.items():
        setattr(app, key, val)
    return app


def environ(method="GET", path="/", query="", body=b"", headers=None,
            content_type=None, content_length="auto", extra=None):
    env = {
        "REQUEST_METHOD": method,
        "PATH_INFO": path,
        "QUERY_STRING": query,
        "SERVER_NAME": "example.org",
        "SERVER_PORT": "80",
        "SERVER_PROTOCOL": "HTTP/1.1",
        "SERVER_SOFTWARE": "verif",
        "REMOTE_ADDR": "127.0.0.1",
        "wsgi.url_scheme": "http",
        "wsgi.input": io.BytesIO(body),
        "wsgi.errors": io.StringIO(),
        "wsgi.version": (1, 0),
        "wsgi.multithread": False,
        "wsgi.multiprocess": False,
        "wsgi.run_once": False,
    }
    if content_type is not None:
        env["CONTENT_TYPE"] = content_type
    if content_length == "auto":
        if body:
            env["CONTENT_LENGTH"] = str(len(body))
    elif content_length is not None:
        env["CONTENT_LENGTH"] = content_length
    for key, val in (headers or {}).items():
        env["HTTP_" + key.upper().replace("-", "_")] = val
    if extra:
        env.update(extra)
    return env


class Answer:
    """What crossed the WSGI boundary for one call."""
    def __init__(self):
        self.calls = []          # [(status, headers)]
        self.chunks = None       # list of yielded items or None
        self.raised = None       # exception that left app(...)
        self.iter_raised = None  # exception raised while iterating

    @property
    def status(self):
        return self.calls[-1][0] if self.calls else None

    @property
    def code(self):
        return int(self.status[:3]) if self.calls else None

    @property
    def headers(self):
        return self.calls[-1][1] if self.calls else None

    @property
    def body(self):
        if self.chunks is None:
            return None
        return b"".join(c for c in self.chunks if isinstance(c, bytes))

    def header(self, name):
        name = name.lower()
        for key, val in self.headers or []:
            if key.lower() == name:
                return val
        return None

    def header_all(self, name):
        name = name.lower()
        return [v for k, v in (self.headers or []) if k.lower() == name]

    def summary(self):
        return {"calls": len(self.calls), "status": self.status,
                "headers": self.headers,
                "body": None if self.body is None else
                self.body[:200].decode("latin-1"),
                "raised": repr(self.raised) if self.raised else None,
                "iter_raised": repr(self.iter_raised)
                if self.iter_raised else None}


def call(app, env):
    ans = Answer()

    def start_response(status, headers, exc_info=None):
        ans.calls.append((status, headers))
        return lambda data: None

    try:
        result = app(env, start_response)
    except BaseException as err:  # noqa
        ans.raised = err
        return ans
    chunks = []
    try:
        for item in result:
            chunks.append(item)
    except BaseException as err:  # noqa
        ans.iter_raised = err
    finally:
        close = getattr(result, "close", None)
        if close:
            try:
                close()
            except Exception:  # noqa
                pass
    ans.chunks = chunks
    return ans


def exc_name(err):
    return type(err).__name__
