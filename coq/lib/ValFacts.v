From Coq Require Import ZArith List Bool Lia.
Require Import PW.lib.Val.
Import ListNotations.
Open Scope Z_scope.

Lemma lz_eqb_eq a : forall b, lz_eqb a b = true <-> a = b.
Proof.
  induction a as [|x a IH]; intros [|y b]; simpl; split; intros H;
    try reflexivity; try discriminate.
  - apply andb_true_iff in H as [H1 H2]. apply Z.eqb_eq in H1.
    apply IH in H2. subst. reflexivity.
  - injection H as -> ->. apply andb_true_iff. split.
    apply Z.eqb_refl. apply IH. reflexivity.
Qed.

Lemma lz_eqb_refl a : lz_eqb a a = true.
Proof. apply lz_eqb_eq. reflexivity. Qed.

Lemma lz_eqb_neq a b : lz_eqb a b = false <-> a <> b.
Proof.
  split; intros H.
  - intros E. apply lz_eqb_eq in E. congruence.
  - destruct (lz_eqb a b) eqn:E; [|reflexivity]. apply lz_eqb_eq in E. contradiction.
Qed.
