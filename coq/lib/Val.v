(* Universal observable value used by the correspondence check.
   The implementation's observable results are rendered by the harness as
   terms of type V; the model's results are encoded into V by small [enc_*]
   functions; [failures] lists the indices on which they differ. *)
From Coq Require Import ZArith List Bool String Ascii.
Import ListNotations.
Open Scope Z_scope.

Inductive V :=
  | VZ (z : Z)              (* int *)
  | VS (s : list Z)         (* str: code points *)
  | VY (s : list Z)         (* bytes *)
  | VL (l : list V)         (* list / tuple / dict as list of pairs *)
  | VN                      (* None *)
  | VB (b : bool)
  | VX (name : string).     (* exception class / error enum *)

Fixpoint lz_eqb (a b : list Z) : bool :=
  match a, b with
  | [], [] => true
  | x :: a', y :: b' => Z.eqb x y && lz_eqb a' b'
  | _, _ => false
  end.

Fixpoint V_eqb (a b : V) {struct a} : bool :=
  match a, b with
  | VZ x, VZ y => Z.eqb x y
  | VS x, VS y => lz_eqb x y
  | VY x, VY y => lz_eqb x y
  | VL x, VL y =>
      (fix go (x y : list V) {struct x} : bool :=
         match x, y with
         | [], [] => true
         | a :: x', b :: y' => V_eqb a b && go x' y'
         | _, _ => false
         end) x y
  | VN, VN => true
  | VB x, VB y => Bool.eqb x y
  | VX x, VX y => String.eqb x y
  | _, _ => false
  end.

Fixpoint failures_from (i : nat) (cs : list (V * V)) : list nat :=
  match cs with
  | [] => []
  | (got, want) :: cs' =>
      if V_eqb got want then failures_from (S i) cs'
      else i :: failures_from (S i) cs'
  end.
Definition failures := failures_from 0.

(* Coq string literal -> code points *)
Fixpoint s2l (s : string) : list Z :=
  match s with
  | EmptyString => []
  | String c s' => Z.of_nat (nat_of_ascii c) :: s2l s'
  end.

Definition VOpt (o : option Z) : V := match o with Some z => VZ z | None => VN end.
Definition VLz (l : list Z) : V := VL (map VZ l).
