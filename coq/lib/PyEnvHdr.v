(* Python operations used by the code generated from the head of
   Request.__init__ (harness/py2v_envhdr.py), as Gallina definitions over the
   types of model/EnvHeaders.v.  This table "Python expression -> primitive"
   is the trusted part of the tie. *)
From Coq Require Import ZArith List Bool String.
Require Import PW.lib.Val PW.model.HeaderCodec PW.model.EnvHeaders.
Import ListNotations.
Open Scope Z_scope.

Definition py_eq (a b : str) : bool := lz_eqb a b.                  (* a == b *)
Definition py_slice_to (n : nat) (s : str) : str := firstn n s.     (* s[:n], n >= 0 *)
Definition py_slice_from (n : nat) (s : str) : str := skipn n s.    (* s[n:], n >= 0 *)
Definition py_in (k : str) (l : list str) : bool := existsb (lz_eqb k) l.  (* k in (...) *)
Definition py_join (d : str) (ps : list str) : str := join d ps.    (* d.join(ps) *)
Definition py_map {A B} (f : A -> B) (l : list A) : list B := map f l.
Definition py_capitalize (s : str) : str := capitalize s.
Definition py_split_c (s : str) (c : Z) : list str := split c s.    (* s.split(chr(c)) *)
Definition py_append {A} (l : list A) (x : A) : list A := l ++ [x]. (* l.append(x) *)
(* for k, v in e.items(): s = step(s, k, v) *)
Definition py_for_items {S} (e : env) (s0 : S) (step : S -> str -> str -> S) : S :=
  fold_left (fun s kv => step s (fst kv) (snd kv)) e s0.
Definition py_env_get (e : env) (k : str) : option str := assoc k e. (* e.get(k) *)
Definition py_is_none {A} (o : option A) : bool :=
  match o with None => true | Some _ => false end.
(* Headers(l, False): the pairs as given *)
Definition py_headers_nonstrict (l : list (str * str)) : list (str * str) := l.
Definition py_hget (h : list (str * str)) (k : str) : option str := hget h k.
Definition py_hget_d (h : list (str * str)) (k d : str) : str :=
  match hget h k with Some v => v | None => d end.
Definition py_dget_d (d : dict) (k dflt : str) : str := dgetd d k dflt.
Definition py_int_or (o : option str) (d : Z) : outcome Z := int_or o d.
