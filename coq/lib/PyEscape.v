(* Python primitives used by the generated coq/gen/EscapeGen.v
   (harness/py2v_escape.py; results.py HTML_ESCAPE_TABLE / html_escape).
   str = list of code points; a character (a str of length 1 produced by
   iterating a str) is its code point [c], as a str it is [[c]]. *)
From Coq Require Import ZArith List.
Import ListNotations.
Open Scope Z_scope.

Definition str := list Z.

(* D.get(k, dflt) on the dict built by a dict display with single-character
   keys, [d] = the items of the display in source order.  A later item of a
   display overrides an earlier one with an equal key (Python semantics), so
   the LAST matching item wins. *)
Fixpoint py_dict_get_d (d : list (Z * str)) (k : Z) (dflt : str) : str :=
  match d with
  | [] => dflt
  | (k', v) :: d' => py_dict_get_d d' k (if k =? k' then v else dflt)
  end.

(* (f(c) for c in text), consumed once, in order *)
Definition py_genexp (f : Z -> str) (text : str) : list str := map f text.

(* sep.join(pieces) *)
Fixpoint py_join (sep : str) (l : list str) : str :=
  match l with
  | [] => []
  | a :: l' => match l' with
               | [] => a
               | _ :: _ => a ++ sep ++ py_join sep l'
               end
  end.

Lemma py_join_empty_sep : forall l, py_join [] l = concat l.
Proof.
  induction l as [|a l IH]; [reflexivity|].
  destruct l as [|b l].
  - cbn [py_join concat]. now rewrite app_nil_r.
  - change (py_join [] (a :: b :: l)) with (a ++ [] ++ py_join [] (b :: l)).
    rewrite IH. reflexivity.
Qed.
