(* Decimal rendering of integers (Python str(int) / "%d") with a left
   inverse, hence injectivity. *)
From Coq Require Import ZArith List Lia Bool.
Import ListNotations.
Open Scope Z_scope.

Fixpoint digits_fuel (fuel : nat) (n : Z) (acc : list Z) : list Z :=
  match fuel with
  | O => acc
  | S f => if n <? 10 then (48 + n) :: acc
           else digits_fuel f (n / 10) ((48 + n mod 10) :: acc)
  end.

(* enough fuel: one more than the bit length *)
Definition digits (n : Z) : list Z :=
  digits_fuel (S (S (Z.to_nat (Z.log2 n)))) n [].

Definition dec (n : Z) : list Z :=
  if n <? 0 then 45 :: digits (- n) else digits n.

Definition val (l : list Z) : Z := fold_left (fun a d => 10 * a + (d - 48)) l 0.
Definition is_digit (d : Z) : bool := (48 <=? d) && (d <=? 57).

Lemma val_snoc l d : val (l ++ [d]) = 10 * val l + (d - 48).
Proof. unfold val. rewrite fold_left_app. reflexivity. Qed.

Lemma is_digit_ok d : 0 <= d < 10 -> is_digit (48 + d) = true.
Proof. intros H. unfold is_digit. apply andb_true_intro; split; apply Z.leb_le; lia. Qed.

Lemma digits_fuel_spec : forall f n acc,
  0 <= n < 2 ^ Z.of_nat f ->
  exists l, digits_fuel (S f) n acc = l ++ acc /\ val l = n /\
            forallb is_digit l = true /\ l <> [].
Proof.
  induction f as [|f IH]; intros n acc Hn.
  - simpl in Hn. assert (n = 0) by lia. subst n. exists [48].
    repeat split; try reflexivity. discriminate.
  - remember (S f) as f1. cbn [digits_fuel]. subst f1. destruct (n <? 10) eqn:E.
    + exists [48 + n]. apply Z.ltb_lt in E. repeat split.
      * unfold val; cbn [fold_left]; lia.
      * cbn [forallb]. rewrite is_digit_ok by lia. reflexivity.
      * discriminate.
    + apply Z.ltb_ge in E.
      assert (Hp : 2 ^ Z.of_nat (S f) = 2 * 2 ^ Z.of_nat f).
      { rewrite Nat2Z.inj_succ, Z.pow_succ_r by lia. reflexivity. }
      assert (H2 : 0 < 2 ^ Z.of_nat f) by (apply Z.pow_pos_nonneg; lia).
      assert (Hd : 0 <= n / 10 < 2 ^ Z.of_nat f).
      { split. apply Z.div_pos; lia.
        apply Z.div_lt_upper_bound; lia. }
      destruct (IH (n / 10) ((48 + n mod 10) :: acc) Hd)
        as (l & Hl & Hv & Hdg & Hne).
      exists (l ++ [48 + n mod 10]). repeat split.
      * rewrite Hl, <- app_assoc. reflexivity.
      * rewrite val_snoc, Hv.
        pose proof (Z.div_mod n 10 ltac:(lia)). lia.
      * rewrite forallb_app, Hdg. cbn [forallb].
        pose proof (Z.mod_pos_bound n 10 ltac:(lia)).
        rewrite is_digit_ok by lia. reflexivity.
      * destruct l; discriminate.
Qed.

Lemma digits_spec n : 0 <= n ->
  val (digits n) = n /\ forallb is_digit (digits n) = true /\ digits n <> [].
Proof.
  intros Hn. unfold digits.
  assert (Hb : 0 <= n < 2 ^ Z.of_nat (S (Z.to_nat (Z.log2 n)))).
  { split; [lia|]. rewrite Nat2Z.inj_succ, Z2Nat.id by apply Z.log2_nonneg.
    destruct (Z.eq_dec n 0) as [->|Hz]; [simpl; lia|].
    apply Z.log2_spec. lia. }
  destruct (digits_fuel_spec (S (Z.to_nat (Z.log2 n))) n [] Hb) as (l & Hl & Hv & Hd & Hne).
  rewrite app_nil_r in Hl. rewrite Hl. auto.
Qed.

Theorem val_dec n : 0 <= n -> val (dec n) = n.
Proof.
  intros Hn. unfold dec. replace (n <? 0) with false by (symmetry; apply Z.ltb_ge; lia).
  apply digits_spec; assumption.
Qed.

Theorem dec_inj a b : 0 <= a -> 0 <= b -> dec a = dec b -> a = b.
Proof. intros Ha Hb H. rewrite <- (val_dec a Ha), <- (val_dec b Hb), H. reflexivity. Qed.

Lemma dec_digits n : 0 <= n -> forallb is_digit (dec n) = true /\ dec n <> [].
Proof.
  intros Hn. unfold dec. replace (n <? 0) with false by (symmetry; apply Z.ltb_ge; lia).
  destruct (digits_spec n Hn) as (_ & H1 & H2). auto.
Qed.
