(* Python semantics used by the code generated from the two static methods
   Headers.iso88591 and Headers.utf8 of poorwsgi/headers.py
   (harness/py2v_latin.py -> gen/LatinGen.v).  Part of the trusted base of
   that translator tie; builds on lib/PyHeaders.v (values [hv], classes,
   [truthy], [p_isinstance]).

   * The model's [exn] has no UnicodeError (the model never lets one out);
     the translated code raises and catches it, so exceptions here are
     [pexn]: the two codec errors, or one of the model's exceptions.
   * A static method has no object state: a computation is a plain [pres A].
   * The four codec calls are mapped to model/Headers.v's OWN codec
     functions ([encodable]/[utf8_encode], [is_byte], [utf8_decode]; a bytes
     object is the list of its byte values, which is also how the model reads
     it as latin-1).  That mapping is the trusted table of this tie.
   * On a receiver that has no such method (`bytes.encode`, `None.encode`,
     `str.decode`, ...) CPython raises AttributeError. *)
From Coq Require Import ZArith List Bool.
Require Import PW.lib.Val PW.model.Headers PW.lib.PyHeaders.
Import ListNotations.
Open Scope list_scope.
Open Scope Z_scope.

Inductive pexn :=
  | PUnicodeEncodeError
  | PUnicodeDecodeError
  | PExn (e : exn).

Inductive pres (A : Type) :=
  | POk (a : A)
  | PErr (e : pexn).
Arguments POk {A} a.
Arguments PErr {A} e.

Definition pret {A} (a : A) : pres A := POk a.
Definition praise {A} (e : pexn) : pres A := PErr e.
Definition pbind {A B} (m : pres A) (k : A -> pres B) : pres B :=
  match m with POk a => k a | PErr e => PErr e end.
Notation "x <-- m ;; k" := (pbind m (fun x => k))
  (at level 61, m at next level, right associativity).

(* a total operation of lib/PyHeaders.v *)
Definition plift {A} (r : res A) : pres A :=
  match r with Ok a => POk a | Err e => PErr (PExn e) end.

(* classes an except clause may name (builtin hierarchy:
   BaseException > Exception > {LookupError > KeyError, TypeError,
   AttributeError, ValueError > UnicodeError > {UnicodeEncodeError,
   UnicodeDecodeError}}) *)
Inductive pexnclass :=
  | PCBaseException | PCException | PCLookupError | PCKeyError
  | PCTypeError | PCValueError | PCAttributeError
  | PCUnicodeError | PCUnicodeEncodeError | PCUnicodeDecodeError.

Definition pexn_isa (e : pexn) (c : pexnclass) : bool :=
  match c, e with
  | PCBaseException, _ => true
  | PCException, _ => true
  | PCLookupError, PExn KeyError => true
  | PCKeyError, PExn KeyError => true
  | PCTypeError, PExn TypeError => true
  | PCAttributeError, PExn AttributeError => true
  | PCValueError, PExn ValueError => true
  | PCValueError, PUnicodeEncodeError => true
  | PCValueError, PUnicodeDecodeError => true
  | PCUnicodeError, PUnicodeEncodeError => true
  | PCUnicodeError, PUnicodeDecodeError => true
  | PCUnicodeEncodeError, PUnicodeEncodeError => true
  | PCUnicodeDecodeError, PUnicodeDecodeError => true
  | _, _ => false
  end.

(* --------------------------------------------------- TRUSTED: the codecs *)
(* v.encode('utf-8'): UnicodeEncodeError exactly on lone surrogates *)
Definition p_encode_utf8 (v : hv) : pres hv :=
  match v with
  | VStr s => if encodable s then POk (VBytes (utf8_encode s))
              else PErr PUnicodeEncodeError
  | _ => PErr (PExn AttributeError)
  end.
(* v.decode('iso-8859-1'): every byte is the code point of the same value *)
Definition p_decode_latin1 (v : hv) : pres hv :=
  match v with
  | VBytes b => POk (VStr b)
  | _ => PErr (PExn AttributeError)
  end.
(* v.encode('iso-8859-1'): UnicodeEncodeError on a code point above 255 *)
Definition p_encode_latin1 (v : hv) : pres hv :=
  match v with
  | VStr s => if forallb is_byte s then POk (VBytes s)
              else PErr PUnicodeEncodeError
  | _ => PErr (PExn AttributeError)
  end.
(* v.decode('utf-8'), strict *)
Definition p_decode_utf8 (v : hv) : pres hv :=
  match v with
  | VBytes b => match utf8_decode b with
                | Some s => POk (VStr s)
                | None => PErr PUnicodeDecodeError
                end
  | _ => PErr (PExn AttributeError)
  end.

(* --------------------------------------------------------- try / except *)
(* how a block ends when it does not raise *)
Inductive pcompletion := PFell | PReturned (v : hv).

(* try: body  except ...: handler   (the handler receives the exception and
   re-raises it itself when no clause matches) *)
Definition ptry (body : pres pcompletion) (handler : pexn -> pres pcompletion)
  : pres pcompletion :=
  match body with
  | PErr e => handler e
  | r => r
  end.

(* ------------------------------------------------------------ embedding *)
(* what the model's [res str] is as the outcome of a call *)
Definition emb_res_str (r : res str) : pres hv :=
  match r with Ok w => POk (VStr w) | Err e => PErr (PExn e) end.

(* ------------------------------------------------------------- __iter__ *)
(* iter(v): the iterator, represented by the items it yields when it is
   consumed at once, i.e. before the list it runs over is mutated again --
   how `list(h)`, `tuple(h)`, `for kv in h: ...` (without mutation) use
   Headers.__iter__.  (An iterator kept across an in-place append would also
   yield the appended items; that is outside this representation.) *)
Definition p_iterator (v : hv) : res (list hv) := p_iter v.
