(* Python semantics used by the code generated from poorwsgi/request.py and
   poorwsgi/fieldstorage.py by harness/py2v_form.py (-> gen/FormGen.v): the
   request-data containers of property C10.  Part of the trusted base of the
   translator tie (like lib/Py.v for the general translator).

   * A Python value is an [fv].  Dicts and lists carry the class of the
     object (a plain dict / Args / EmptyForm / JsonDict; a plain list /
     JsonList): the subclasses add methods only, every dict / list operation
     below ignores the tag.  [FFs name value fields] is a FieldStorage object
     with attributes .name, ._value, .list = fields and .file = None (objects
     with an open file are outside the universe, like files themselves).
     [FIdent] is the function `lambda x: x`, [FFun n] any other callable; it
     is applied through the Section variable [apply] of the generated file.
   * A computation is a [res]: [Ok v] or [Err e].  [Raised cls] is a Python
     exception of class [cls] (messages and arguments are not modelled),
     [HTTPError code] is poorwsgi.response.HTTPException(code, ...).
     [Unmodelled] is NOT a Python exception: it marks an operation on operand
     kinds this file gives no meaning to (comparing objects, iterating a str,
     len/truth/iteration of a FieldStorage, file methods, strict parsing ...).
     It is never caught by [try_except], and the theorems of
     proofs/FormGenEq.v show it does not occur on the model's domain.
   * Primitives taken from model/QueryForm.v (not translated): urllib's
     parse_qs (= group of parse_qsl), str.strip; bytes.decode and json.loads
     are functions handed in (Section variables of the generated file). *)
From Coq Require Import ZArith List Bool String.
Require Import PW.lib.Val PW.model.QueryForm.
Import ListNotations.
Open Scope string_scope.
Open Scope list_scope.
Open Scope Z_scope.

Inductive dcls := DPlain | DArgs | DEmptyForm | DJsonDict.
Inductive lcls := LPlain | LJsonList.

Inductive fv :=
  | FNone
  | FBool (b : bool)
  | FInt (z : Z)
  | FFlt (repr : list Z)                    (* float, identified by its repr *)
  | FStr (s : list Z)
  | FBytes (b : list Z)
  | FList (c : lcls) (l : list fv)
  | FTuple (l : list fv)
  | FDict (c : dcls) (l : list (fv * fv))   (* in insertion order, keys unique *)
  | FFs (name value : fv) (fields : list fv)
  | FIdent
  | FFun (n : nat).

Inductive exn :=
  | Raised (cls : string)
  | HTTPError (code : Z)
  | Unmodelled.

Inductive res (A : Type) := Ok (a : A) | Err (e : exn).
Arguments Ok {A} a.
Arguments Err {A} e.

Definition bind {A B} (r : res A) (k : A -> res B) : res B :=
  match r with Ok a => k a | Err e => Err e end.
Notation "x <- m ;; k" := (bind m (fun x => k))
  (at level 61, m at next level, right associativity).

(* --------------------------------------------------------------- classes *)
Inductive pyclass := Cdict | Clist | Cstr | Cbytes | CStringIO | CBytesIO.

(* no [fv] is a StringIO / BytesIO: files are outside the universe *)
Definition isinstance1 (v : fv) (c : pyclass) : bool :=
  match v, c with
  | FDict _ _, Cdict => true
  | FList _ _, Clist => true
  | FStr _, Cstr => true
  | FBytes _, Cbytes => true
  | _, _ => false
  end.
Definition p_isinstance (v : fv) (classes : list pyclass) : res fv :=
  Ok (FBool (existsb (isinstance1 v) classes)).

(* ---------------------------------------------------------- truth, ==, is *)
(* bool(v); a FieldStorage defines __bool__ / __len__: not modelled *)
Definition p_truth (v : fv) : res bool :=
  match v with
  | FNone => Ok false
  | FBool b => Ok b
  | FInt z => Ok (negb (z =? 0))
  | FFlt _ => Err Unmodelled
  | FStr s | FBytes s => Ok (negb (is_nil s))
  | FList _ l | FTuple l => Ok (negb (is_nil l))
  | FDict _ l => Ok (negb (is_nil l))
  | FFs _ _ _ => Err Unmodelled
  | FIdent | FFun _ => Ok true
  end.
Definition p_not (v : fv) : res fv :=
  b <- p_truth v ;; Ok (FBool (negb b)).

(* values whose == is modelled: None, bool, int, str, bytes *)
Definition simple (v : fv) : bool :=
  match v with
  | FNone | FBool _ | FInt _ | FStr _ | FBytes _ => true
  | _ => false
  end.
Definition fv_eqb (a b : fv) : bool :=
  match a, b with
  | FNone, FNone => true
  | FBool x, FBool y => Bool.eqb x y
  | FInt x, FInt y => x =? y
  | FInt x, FBool y => x =? (if y then 1 else 0)
  | FBool x, FInt y => (if x then 1 else 0) =? y
  | FStr x, FStr y => lz_eqb x y
  | FBytes x, FBytes y => lz_eqb x y
  | _, _ => false
  end.
Definition p_eq (a b : fv) : res fv :=
  if simple a && simple b then Ok (FBool (fv_eqb a b)) else Err Unmodelled.
Definition p_ne (a b : fv) : res fv :=
  if simple a && simple b then Ok (FBool (negb (fv_eqb a b)))
  else Err Unmodelled.
Definition p_is_none (a : fv) : res fv :=
  Ok (FBool match a with FNone => true | _ => false end).
Definition p_is_not_none (a : fv) : res fv :=
  Ok (FBool match a with FNone => false | _ => true end).

(* < <= > >= on ints only *)
Definition p_cmp (f : Z -> Z -> bool) (a b : fv) : res fv :=
  match a, b with
  | FInt x, FInt y => Ok (FBool (f x y))
  | _, _ => Err Unmodelled
  end.
Definition p_lt := p_cmp Z.ltb.
Definition p_le := p_cmp Z.leb.
Definition p_gt := p_cmp Z.gtb.
Definition p_ge := p_cmp Z.geb.

(* ------------------------------------------------------------ containers *)
(* stored key first, like the model's [lookup] *)
Fixpoint dict_lookup (k : fv) (d : list (fv * fv)) : option fv :=
  match d with
  | [] => None
  | (k', x) :: d' => if fv_eqb k' k then Some x else dict_lookup k d'
  end.
(* d[k] = v: a new key goes to the end, an old one keeps its place *)
Fixpoint dict_set (d : list (fv * fv)) (k v : fv) : list (fv * fv) :=
  match d with
  | [] => [(k, v)]
  | (k', x) :: d' =>
      if fv_eqb k' k then (k', v) :: d' else (k', x) :: dict_set d' k v
  end.

Definition p_len (v : fv) : res fv :=
  match v with
  | FStr s | FBytes s => Ok (FInt (Z.of_nat (List.length s)))
  | FList _ l | FTuple l => Ok (FInt (Z.of_nat (List.length l)))
  | FDict _ l => Ok (FInt (Z.of_nat (List.length l)))
  | FFs _ _ _ => Err Unmodelled
  | _ => Err (Raised "TypeError")
  end.

(* seq[i] for an int i (negative: from the end) *)
Definition seq_index {A} (l : list A) (i : Z) : option A :=
  let n := Z.of_nat (List.length l) in
  if (0 <=? i) && (i <? n) then nth_error l (Z.to_nat i)
  else if (i <? 0) && (0 <=? n + i) then nth_error l (Z.to_nat (n + i))
  else None.
Definition index_error : exn := Raised "IndexError".

(* v[k]: a dict (KeyError), a list / tuple / str / bytes with an int *)
Definition p_getitem (v k : fv) : res fv :=
  match v with
  | FDict _ d =>
      if simple k then
        match dict_lookup k d with
        | Some x => Ok x
        | None => Err (Raised "KeyError")
        end
      else Err Unmodelled
  | FList _ l | FTuple l =>
      match k with
      | FInt i => match seq_index l i with
                  | Some x => Ok x
                  | None => Err index_error
                  end
      | _ => Err Unmodelled
      end
  | FStr s =>
      match k with
      | FInt i => match seq_index s i with
                  | Some c => Ok (FStr [c])
                  | None => Err index_error
                  end
      | _ => Err Unmodelled
      end
  | FBytes s =>
      match k with
      | FInt i => match seq_index s i with
                  | Some c => Ok (FInt c)
                  | None => Err index_error
                  end
      | _ => Err Unmodelled
      end
  | FFs _ _ _ => Err Unmodelled
  | _ => Err (Raised "TypeError")
  end.

(* l.append(x), answering the list afterwards *)
Definition p_append (l x : fv) : res fv :=
  match l with
  | FList c items => Ok (FList c (items ++ [x]))
  | FFs _ _ _ => Err Unmodelled
  | _ => Err (Raised "AttributeError")
  end.

(* k in c: only membership of a key in a dict is modelled *)
Definition p_contains (k c : fv) : res fv :=
  match c with
  | FDict _ d =>
      if simple k then
        Ok (FBool match dict_lookup k d with Some _ => true | None => false end)
      else Err Unmodelled
  | FNone | FBool _ | FInt _ | FFlt _ | FIdent | FFun _ =>
      Err (Raised "TypeError")
  | _ => Err Unmodelled
  end.

(* `key in self` / `self[key]` of a class that inherits them from dict or
   list (self first) *)
Definition builtin_contains (self key : fv) : res fv := p_contains key self.
Definition builtin_getitem (self key : fv) : res fv := p_getitem self key.

(* iter(v) consumed at once *)
Definition p_iter (v : fv) : res (list fv) :=
  match v with
  | FList _ l | FTuple l => Ok l
  | FDict _ d => Ok (map fst d)
  | FStr _ | FBytes _ | FFs _ _ _ => Err Unmodelled
  | _ => Err (Raised "TypeError")
  end.
(* a, b = v *)
Definition p_unpack2 (v : fv) : res (fv * fv) :=
  match v with
  | FTuple [a; b] | FList _ [a; b] => Ok (a, b)
  | FTuple _ | FList _ _ => Err (Raised "ValueError")
  | FStr _ | FBytes _ | FDict _ _ | FFs _ _ _ => Err Unmodelled
  | _ => Err (Raised "TypeError")
  end.
Definition attr_error : exn := Raised "AttributeError".
(* d.items() / d.keys(), as lists in dict order *)
Definition p_items (v : fv) : res fv :=
  match v with
  | FDict _ d => Ok (FList LPlain (map (fun kv => FTuple [fst kv; snd kv]) d))
  | FFs _ _ _ => Err Unmodelled
  | _ => Err attr_error
  end.
Definition p_keys (v : fv) : res fv :=
  match v with
  | FDict _ d => Ok (FList LPlain (map fst d))
  | FFs _ _ _ => Err Unmodelled
  | _ => Err attr_error
  end.
(* d.get(k, default) *)
Definition p_dict_get (v k dflt : fv) : res fv :=
  match v with
  | FDict _ d =>
      if simple k then
        Ok (match dict_lookup k d with Some x => x | None => dflt end)
      else Err Unmodelled
  | FFs _ _ _ => Err Unmodelled
  | _ => Err attr_error
  end.

(* dict.__init__(self, arg) / dict(arg): a mapping is copied, any other
   iterable must give pairs; keys must be simple values *)
Fixpoint update_pairs (d : list (fv * fv)) (items : list fv)
  : res (list (fv * fv)) :=
  match items with
  | [] => Ok d
  | it :: rest =>
      pr <- p_unpack2 it ;;
      if simple (fst pr) then update_pairs (dict_set d (fst pr) (snd pr)) rest
      else Err Unmodelled
  end.
Definition p_dict_update (self arg : fv) : res fv :=
  match self with
  | FDict c d =>
      match arg with
      | FDict _ src =>
          d' <- update_pairs d (map (fun kv => FTuple [fst kv; snd kv]) src) ;;
          Ok (FDict c d')
      | _ =>
          items <- p_iter arg ;;
          d' <- update_pairs d items ;;
          Ok (FDict c d')
      end
  | _ => Err (Raised "TypeError")
  end.
(* Cls(arg) for a subclass of dict / list without __init__ / __new__ *)
Definition p_new_dict (c : dcls) (arg : fv) : res fv :=
  p_dict_update (FDict c []) arg.
Definition p_new_list (c : lcls) (arg : fv) : res fv :=
  items <- p_iter arg ;; Ok (FList c items).
(* dict.fromkeys(iterable consumed into [items]) *)
Fixpoint fromkeys (d : list (fv * fv)) (items : list fv) : res (list (fv * fv)) :=
  match items with
  | [] => Ok d
  | k :: rest =>
      if simple k then fromkeys (dict_set d k FNone) rest else Err Unmodelled
  end.
Definition p_dict_fromkeys (items : list fv) : res fv :=
  d <- fromkeys [] items ;; Ok (FDict DPlain d).

(* ------------------------------------------------------------- attributes *)
(* data attributes of a FieldStorage object; every other attribute of it is
   not modelled; other values have none of these attributes *)
Definition p_getattr (v : fv) (name : string) : res fv :=
  match v with
  | FFs n x l =>
      if String.eqb name "name" then Ok n
      else if String.eqb name "_value" then Ok x
      else if String.eqb name "file" then Ok FNone
      else if String.eqb name "list" then Ok (FList LPlain l)
      else Err Unmodelled
  | _ => Err attr_error
  end.
(* a method call on what .file holds: None has no methods, files are not
   modelled *)
Definition p_file_call (f : fv) (method : string) (args : list fv) : res fv :=
  match f with
  | FNone => Err attr_error
  | _ => Err Unmodelled
  end.

(* f(x) for a callable value *)
Definition p_call (apply : nat -> fv -> res fv) (f x : fv) : res fv :=
  match f with
  | FIdent => Ok x
  | FFun n => apply n x
  | FFs _ _ _ => Err Unmodelled
  | _ => Err (Raised "TypeError")
  end.

(* ---------------------------------------- primitives of model/QueryForm.v *)
(* s.strip() *)
Definition p_strip (v : fv) : res fv :=
  match v with
  | FStr s => Ok (FStr (strip s))
  | FBytes _ => Err Unmodelled
  | _ => Err attr_error
  end.
(* urllib.parse.parse_qs(qs, keep_blank_values, strict_parsing) for a str
   and strict_parsing false *)
Definition emb_qs (d : list (K * list K)) : fv :=
  FDict DPlain
    (map (fun kv => (FStr (fst kv), FList LPlain (map FStr (snd kv)))) d).
Definition p_parse_qs (qs keep strict : fv) : res fv :=
  match qs with
  | FStr s =>
      st <- p_truth strict ;;
      if st then Err Unmodelled
      else kb <- p_truth keep ;; Ok (emb_qs (parse_qs kb s))
  | _ => Err Unmodelled
  end.

(* JSON values as Python values (what json.loads builds: plain dicts/lists) *)
Fixpoint emb_j (j : J) : fv :=
  match j with
  | JNull => FNone
  | JBool b => FBool b
  | JInt z => FInt z
  | JFlt r => FFlt r
  | JStr s => FStr s
  | JArr l => FList LPlain (map emb_j l)
  | JObj l => FDict DPlain (map (fun kv => (FStr (fst kv), emb_j (snd kv))) l)
  end.
(* raw.decode(charset) through the given decoder: None = it raises
   (UnicodeDecodeError / LookupError, rendered as one class) *)
Definition p_decode (decode : list Z -> list Z -> option (list Z))
           (raw charset : fv) : res fv :=
  match raw, charset with
  | FBytes b, FStr cs =>
      match decode cs b with
      | Some t => Ok (FStr t)
      | None => Err (Raised "UnicodeError")
      end
  | FBytes _, _ => Err (Raised "TypeError")
  | FFs _ _ _, _ => Err Unmodelled
  | _, _ => Err attr_error
  end.
(* json.loads(text) through the given parser: None = it raises *)
Definition p_json_loads (loads : list Z -> option J) (text : fv) : res fv :=
  match text with
  | FStr s =>
      match loads s with
      | Some j => Ok (emb_j j)
      | None => Err (Raised "JSONDecodeError")
      end
  | FBytes _ | FFs _ _ _ => Err Unmodelled
  | _ => Err (Raised "TypeError")
  end.

(* ------------------------------------------------ loops, comprehensions *)
(* one execution of a loop body: go on with the carried variables, or the
   enclosing function returns *)
Inductive flow (A : Type) := Next (carried : A) | Return (v : fv).
Arguments Next {A} carried.
Arguments Return {A} v.

(* for item in items: body *)
Fixpoint for_loop {A} (items : list fv) (body : fv -> A -> res (flow A))
         (carried : A) : res (flow A) :=
  match items with
  | [] => Ok (Next carried)
  | item :: rest =>
      f <- body item carried ;;
      match f with
      | Next c => for_loop rest body c
      | Return v => Ok (Return v)
      end
  end.

(* [elt for item in items if cond] / a generator expression consumed at
   once: [f item] is [Some elt], or [None] when a condition is false *)
Fixpoint collect (items : list fv) (f : fv -> res (option fv)) : res (list fv) :=
  match items with
  | [] => Ok []
  | item :: rest =>
      o <- f item ;;
      more <- collect rest f ;;
      Ok (match o with Some x => x :: more | None => more end)
  end.

(* any(elt for item in items if cond): stops at the first true element *)
Fixpoint any_gen (items : list fv) (f : fv -> res (option fv)) : res fv :=
  match items with
  | [] => Ok (FBool false)
  | item :: rest =>
      o <- f item ;;
      match o with
      | None => any_gen rest f
      | Some x => b <- p_truth x ;;
                  if b then Ok (FBool true) else any_gen rest f
      end
  end.

(* ---------------------------------------------------------- try / except *)
Inductive completion := Fell | Returned (v : fv).

(* `except BaseException` / `except Exception`: every Python exception
   ([Unmodelled] is not one) *)
Definition catch_all (e : exn) : bool :=
  match e with Unmodelled => false | _ => true end.

(* try: body  except ...: handler   (the handler gets the exception and
   re-raises it itself when no clause matches) *)
Definition try_except (body : res completion) (handler : exn -> res completion)
  : res completion :=
  match body with
  | Err e => handler e
  | r => r
  end.

(* --------------------------------------------- Request.__init__ decisions *)
(* the top-level decisions of the constructor, in source order *)
Inductive init_step :=
  | SBuffer      (* the `if` that replaces self.__file by a BytesIO *)
  | SArgs        (* the `if` that sets self.__args *)
  | SBody        (* the if/elif/else that sets self.__json and self.__form *)
  | SCookies.    (* the `if` that sets self.__cookies *)

(* ------------------------------------------------------------ embeddings *)
(* how the values of model/QueryForm.v are Python values *)
Definition emb_aval (a : aval) : fv :=
  match a with
  | AS s => FStr s
  | AL l => FList LPlain (map FStr l)
  end.
Definition emb_items {T} (f : T -> fv) (d : list (K * T)) : list (fv * fv) :=
  map (fun kv => (FStr (fst kv), f (snd kv))) d.
(* req.args *)
Definition emb_args (d : list (K * aval)) : fv :=
  FDict DArgs (emb_items emb_aval d).
(* a leaf made by read_urlencoded: FieldStorage(name, value) *)
Definition emb_field (f : K * K) : fv := FFs (FStr (fst f)) (FStr (snd f)) [].
(* req.form: the root FieldStorage with .list = the fields *)
Definition emb_form (fs : list (K * K)) : fv :=
  FFs FNone FNone (map emb_field fs).
Definition emb_okz (o : option K) : fv :=
  match o with Some s => FStr s | None => FNone end.
(* result of an accessor called with default None and the identity *)
Definition emb_tres (r : tres) : res fv :=
  match r with
  | TNone => Ok FNone
  | TStr s => Ok (FStr s)
  | TList l => Ok (FList LPlain (map emb_okz l))
  | TRaise e => Err (Raised e)
  end.
(* req.json as made by parse_json_request: the outermost dict / list is a
   JsonDict / JsonList *)
Definition emb_json_top (j : J) : fv :=
  match j with
  | JObj l => FDict DJsonDict (emb_items emb_j l)
  | JArr l => FList LJsonList (map emb_j l)
  | _ => emb_j j
  end.
(* result of an accessor of JsonDict / JsonList called with default [dflt] *)
Definition emb_jres (dflt : fv) (r : jres) : res fv :=
  match r with
  | JRNone => Ok dflt
  | JRVal j => Ok (emb_j j)
  | JRRaise e => Err (Raised e)
  end.
Definition emb_json_out (o : json_out) : res fv :=
  match o with
  | J400 => Err (HTTPError 400)
  | JOk j => Ok (emb_json_top j)
  end.
