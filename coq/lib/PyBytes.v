(* Python operations on bytes / bytearray / str items used by the code
   translated by harness/py2v_hidden.py (session.hidden).  Same conventions
   as lib/Py.v: total functions, a Python exception is [Err]. *)
From Coq Require Import ZArith List Bool String.
Require Import PW.lib.Val PW.lib.Dec PW.lib.Py.
Import ListNotations.
Open Scope string_scope.
Open Scope list_scope.
Open Scope Z_scope.

(* a ^ b on ints *)
Definition pxor (a b : pv) : res pv := arith Z.lxor a b.

(* a % b on ints (floored, sign of the divisor = Z.modulo) *)
Definition pmod (a b : pv) : res pv :=
  match as_int a, as_int b with
  | Some x, Some y => if y =? 0 then Err ZeroDivisionError
                      else Ok (PInt (x mod y))
  | _, _ => Err TypeError
  end.

(* isinstance(x, bytes) / isinstance(x, str); a bytearray is not bytes, but
   the translated code never tests one *)
Definition pis_bytes (a : pv) : res pv :=
  Ok (PBool match a with PBytes _ => true | _ => false end).
Definition pis_str (a : pv) : res pv :=
  Ok (PBool match a with PStr _ => true | _ => false end).

(* a[i] with a computed index: bytes give ints, str gives 1-char strings *)
Definition pick {A} (n : Z) (l : list A) : option A :=
  let len := Z.of_nat (List.length l) in
  let j := if n <? 0 then n + len else n in
  if (j <? 0) || (len <=? j) then None else nth_error l (Z.to_nat j).
Definition pindex_dyn (a i : pv) : res pv :=
  match as_int i with
  | None => Err TypeError
  | Some n =>
      match a with
      | PBytes b => match pick n b with Some v => Ok (PInt v)
                                   | None => Err IndexError end
      | PStr s => match pick n s with Some c => Ok (PStr [c])
                                 | None => Err IndexError end
      | PList l | PTuple l => match pick n l with Some v => Ok v
                                             | None => Err IndexError end
      | _ => Err TypeError
      end
  end.

(* enumerate(x) materialised: [(0, x0); (1, x1); ...] *)
Fixpoint enum_from {A} (f : A -> pv) (i : Z) (l : list A) : list pv :=
  match l with
  | [] => []
  | x :: l' => PTuple [PInt i; f x] :: enum_from f (i + 1) l'
  end.
Definition penumerate (a : pv) : res pv :=
  match a with
  | PBytes b => Ok (PList (enum_from PInt 0 b))
  | PStr s => Ok (PList (enum_from (fun c => PStr [c]) 0 s))
  | PList l | PTuple l => Ok (PList (enum_from (fun v => v) 0 l))
  | _ => Err TypeError
  end.

(* x.append(v): list, or bytearray (an int in range(256)) *)
Definition pappend_any (l x : pv) : res pv :=
  match l with
  | PList items => Ok (PList (items ++ [x]))
  | PBytes b =>
      match as_int x with
      | Some v => if (0 <=? v) && (v <? 256) then Ok (PBytes (b ++ [v]))
                  else Err ValueError
      | None => Err TypeError
      end
  | _ => Err TypeError
  end.

(* ord(c) / chr(i) *)
Definition pord (a : pv) : res pv :=
  match a with
  | PStr [c] => Ok (PInt c)
  | PBytes [c] => Ok (PInt c)
  | _ => Err TypeError
  end.
Definition pchr (a : pv) : res pv :=
  match as_int a with
  | Some c => if (0 <=? c) && (c <? 1114112) then Ok (PStr [c])
              else Err ValueError
  | None => Err TypeError
  end.

(* s.encode("utf-8") with the encoder as a parameter (None: a lone
   surrogate, UnicodeEncodeError) *)
Definition pencode (E : list Z -> option (list Z)) (a : pv) : res pv :=
  match a with
  | PStr s => match E s with Some b => Ok (PBytes b)
                        | None => Err (Raised "UnicodeEncodeError" PNone) end
  | _ => Err TypeError      (* bytes has no encode *)
  end.

(* sha512(b).digest() *)
Definition pdigest (H : list Z -> list Z) (a : pv) : res pv :=
  match a with
  | PBytes b => Ok (PBytes (H b))
  | _ => Err TypeError      (* str: "Strings must be encoded before hashing" *)
  end.
