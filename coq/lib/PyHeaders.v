(* Python semantics used by the code generated from poorwsgi/headers.py class
   Headers (harness/py2v_headers.py -> gen/HeadersGen.v).  Part of the trusted
   base of the translator tie (like lib/Py.v for the general translator).

   * A Python value is an [hv].  [VNego tup items] is "a list (tup = false)
     or tuple (tup = true) of negotiation tuples", abstracted exactly as
     model/Headers.v abstracts it: every element of every tuple is given as
     the text of str(element).  [VOther truthy] is an object of any class
     that is none of str, bytes, NoneType, int, bool, list, tuple, set, dict.
   * Exceptions are the model's [exn]; a computation that can raise is the
     model's [res].  Exception messages are not modelled.
   * A method of the class is a computation [M A]: the value of the private
     attribute [self.__headers] goes in, its value afterwards comes out, also
     when the method raises (so "what is stored when an exception leaves" is
     part of the meaning).
   * Primitives taken from model/Headers.v (not translated): Headers.iso88591
     (str.encode / decode), str.lower / bytes.lower (ASCII), str.replace for
     a one-character pattern, str.join, wsgiref.headers._formatparam,
     render_negotiation.
   * Operations are total; on operand kinds that the translated code never
     meets on the model's domain (stated with each theorem of
     proofs/HeadersGenEq.v) the result is an error chosen after CPython where
     that is simple and is otherwise documented as unmodelled. *)
From Coq Require Import ZArith List Bool String.
Require Import PW.lib.Val PW.model.Headers.
Import ListNotations.
Open Scope list_scope.
Open Scope Z_scope.

Inductive hv :=
  | VStr (s : list Z)
  | VBytes (b : list Z)
  | VNone
  | VInt (z : Z)
  | VBool (b : bool)
  | VList (l : list hv)
  | VTuple (l : list hv)
  | VSet (l : list hv)                         (* in iteration order *)
  | VDict (l : list (hv * hv))                 (* in items() order *)
  | VNego (tup : bool) (items : list (list (list Z)))
  | VOther (truthy : bool).

(* ------------------------------------------------------------ the monad *)
Definition M (A : Type) : Type := hv -> hv * res A.

Definition mret {A} (a : A) : M A := fun h => (h, Ok a).
Definition mraise {A} (e : exn) : M A := fun h => (h, Err e).
Definition mlift {A} (r : res A) : M A := fun h => (h, r).
Definition mbind {A B} (m : M A) (k : A -> M B) : M B :=
  fun h => match m h with
           | (h', Ok a) => k a h'
           | (h', Err e) => (h', Err e)
           end.
Notation "x <- m ;; k" := (mbind m (fun x => k))
  (at level 61, m at next level, right associativity).

(* self.__headers (read) / self.__headers = v *)
Definition get_headers : M hv := fun h => (h, Ok h).
Definition set_headers (v : hv) : M unit := fun _ => (v, Ok tt).

(* ------------------------------------------------------------- classes *)
Inductive pyclass := Cstr | Cbytes | Cint | Cbool | Clist | Ctuple | Cset | Cdict.

Definition isinstance1 (v : hv) (c : pyclass) : bool :=
  match v, c with
  | VStr _, Cstr => true
  | VBytes _, Cbytes => true
  | VInt _, Cint => true
  | VBool _, Cint => true                    (* bool is a subclass of int *)
  | VBool _, Cbool => true
  | VList _, Clist => true
  | VTuple _, Ctuple => true
  | VSet _, Cset => true
  | VDict _, Cdict => true
  | VNego false _, Clist => true
  | VNego true _, Ctuple => true
  | _, _ => false
  end.

(* exception classes that may be named in an except clause *)
Inductive exnclass :=
  | EBaseException | EException | ELookupError
  | EKeyError | ETypeError | EValueError | EAttributeError.

Definition exn_isa (e : exn) (c : exnclass) : bool :=
  match c, e with
  | EBaseException, _ => true
  | EException, _ => true
  | ELookupError, KeyError => true
  | EKeyError, KeyError => true
  | ETypeError, TypeError => true
  | EValueError, ValueError => true
  | EAttributeError, AttributeError => true
  | _, _ => false
  end.

(* ------------------------------------------------------- truth, ==, is *)
Definition truthy (v : hv) : bool :=
  match v with
  | VStr s | VBytes s => negb (is_nil s)
  | VNone => false
  | VInt z => negb (z =? 0)
  | VBool b => b
  | VList l | VTuple l | VSet l => negb (is_nil l)
  | VDict l => negb (is_nil l)
  | VNego _ items => negb (is_nil items)
  | VOther t => t
  end.

(* == : str/str, bytes/bytes (never str/bytes), None, numbers, lists and
   tuples elementwise; anything else compares unequal (sets, dicts and other
   objects are not compared by the translated code) *)
Fixpoint hv_eqb (a b : hv) {struct a} : bool :=
  let fix go (x y : list hv) {struct x} : bool :=
    match x, y with
    | [], [] => true
    | p :: x', q :: y' => hv_eqb p q && go x' y'
    | _, _ => false
    end in
  match a, b with
  | VStr x, VStr y => lz_eqb x y
  | VBytes x, VBytes y => lz_eqb x y
  | VNone, VNone => true
  | VInt x, VInt y => x =? y
  | VBool x, VBool y => Bool.eqb x y
  | VInt x, VBool y => x =? (if y then 1 else 0)
  | VBool x, VInt y => (if x then 1 else 0) =? y
  | VList x, VList y => go x y
  | VTuple x, VTuple y => go x y
  | _, _ => false
  end.

Definition p_eq (a b : hv) : res hv := Ok (VBool (hv_eqb a b)).
Definition p_ne (a b : hv) : res hv := Ok (VBool (negb (hv_eqb a b))).
Definition p_is_none (a : hv) : res hv :=
  Ok (VBool match a with VNone => true | _ => false end).
Definition p_is_not_none (a : hv) : res hv :=
  Ok (VBool match a with VNone => false | _ => true end).
Definition p_not (a : hv) : res hv := Ok (VBool (negb (truthy a))).
Definition p_isinstance (v : hv) (classes : list pyclass) : res hv :=
  Ok (VBool (existsb (isinstance1 v) classes)).

(* ---------------------------------------------------------- containers *)
(* iter(v) consumed at once; str/bytes iteration is unmodelled (TypeError) *)
Definition p_iter (v : hv) : res (list hv) :=
  match v with
  | VList l | VTuple l | VSet l => Ok l
  | VDict l => Ok (map fst l)
  | _ => Err TypeError
  end.
(* a, b = v *)
Definition p_unpack2 (v : hv) : res (hv * hv) :=
  match v with
  | VTuple [a; b] | VList [a; b] => Ok (a, b)
  | VTuple _ | VList _ => Err ValueError
  | _ => Err TypeError
  end.
(* d.items() *)
Definition p_items (v : hv) : res hv :=
  match v with
  | VDict l => Ok (VList (map (fun kv => VTuple [fst kv; snd kv]) l))
  | _ => Err AttributeError
  end.
(* list(v) / tuple(v) *)
Definition p_list (v : hv) : res hv :=
  match p_iter v with Ok l => Ok (VList l) | Err e => Err e end.
Definition p_tuple (v : hv) : res hv :=
  match p_iter v with Ok l => Ok (VTuple l) | Err e => Err e end.
Definition p_len (v : hv) : res hv :=
  match v with
  | VStr s | VBytes s => Ok (VInt (Z.of_nat (List.length s)))
  | VList l | VTuple l | VSet l => Ok (VInt (Z.of_nat (List.length l)))
  | VDict l => Ok (VInt (Z.of_nat (List.length l)))
  | VNego _ l => Ok (VInt (Z.of_nat (List.length l)))
  | _ => Err TypeError
  end.
(* v[i] for a constant i >= 0 on a list / tuple.  Unmodelled: indexing a str
   or bytes (TypeError here); IndexError is not among the model's exceptions,
   an index out of range is reported as ValueError *)
Definition p_index (v : hv) (i : nat) : res hv :=
  match v with
  | VList l | VTuple l =>
      match nth_error l i with Some x => Ok x | None => Err ValueError end
  | _ => Err TypeError
  end.
(* l.append(x), returning the list afterwards *)
Definition p_append (l x : hv) : res hv :=
  match l with
  | VList items => Ok (VList (items ++ [x]))
  | _ => Err AttributeError
  end.
(* x in c for a list / tuple / set / dict; substring tests are unmodelled *)
Definition p_in (x c : hv) : res hv :=
  match c with
  | VList l | VTuple l | VSet l => Ok (VBool (existsb (hv_eqb x) l))
  | VDict l => Ok (VBool (existsb (fun kv => hv_eqb x (fst kv)) l))
  | _ => Err TypeError
  end.
Definition p_not_in (x c : hv) : res hv :=
  match p_in x c with Ok b => p_not b | Err e => Err e end.

(* ----------------------------------- primitives of model/Headers.v *)
(* Headers.iso88591(v) *)
Definition p_iso88591 (v : hv) : res hv :=
  match v with
  | VStr s => match iso88591 (AStr s) with Ok w => Ok (VStr w) | Err e => Err e end
  | _ => Err TypeError
  end.
(* v.lower() *)
Definition p_lower (v : hv) : res hv :=
  match v with
  | VStr s => Ok (VStr (lower s))
  | VBytes b => Ok (VBytes (lower b))
  | _ => Err AttributeError
  end.
(* v.replace(c, r) for the one-character str c *)
Definition p_replace_char (v : hv) (c : Z) (r : list Z) : res hv :=
  match v with
  | VStr s => Ok (VStr (replace_char c r s))
  | VBytes _ => Err TypeError
  | _ => Err AttributeError
  end.
(* sep.join(parts) *)
Fixpoint all_strs (l : list hv) : option (list (list Z)) :=
  match l with
  | [] => Some []
  | VStr s :: r => match all_strs r with Some r' => Some (s :: r') | None => None end
  | _ :: _ => None
  end.
Definition p_join (sep : list Z) (parts : hv) : res hv :=
  match p_iter parts with
  | Ok l => match all_strs l with
            | Some strs => Ok (VStr (join sep strs))
            | None => Err TypeError
            end
  | Err e => Err e
  end.
(* wsgiref.headers._formatparam(param, value) for two strs *)
Definition p_formatparam (param value : hv) : res hv :=
  match param, value with
  | VStr p, VStr v => Ok (VStr (formatparam p v))
  | _, _ => Err TypeError
  end.
(* render_negotiation(v) *)
Definition p_render_negotiation (v : hv) : res hv :=
  match v with
  | VNego _ items => Ok (VStr (render_negotiation items))
  | _ => Err TypeError
  end.

(* ------------------------------------------------ loops, comprehensions *)
(* one execution of a loop body: go on with the carried variables, or the
   enclosing function returns *)
Inductive flow (A : Type) := Next (carried : A) | Return (v : hv).
Arguments Next {A} carried.
Arguments Return {A} v.

(* for item in items: body *)
Fixpoint for_loop {A} (items : list hv) (body : hv -> A -> M (flow A))
         (carried : A) : M (flow A) :=
  match items with
  | [] => mret (Next carried)
  | item :: rest =>
      f <- body item carried ;;
      match f with
      | Next c => for_loop rest body c
      | Return v => mret (Return v)
      end
  end.

(* list(elt for item in items if cond) consumed at once: [f item] is
   [Some elt] or [None] when a condition is false *)
Fixpoint collect (items : list hv) (f : hv -> M (option hv)) : M (list hv) :=
  match items with
  | [] => mret []
  | item :: rest =>
      o <- f item ;;
      more <- collect rest f ;;
      mret (match o with Some x => x :: more | None => more end)
  end.

(* --------------------------------------------------------- try / except *)
Inductive completion := Fell | Returned (v : hv).

(* try: body  except ...: handler   (the handler receives the exception and
   re-raises it itself when no clause matches) *)
Definition try_except (body : M completion) (handler : exn -> M completion)
  : M completion :=
  fun h => match body h with
           | (h', Err e) => handler e h'
           | r => r
           end.

(* ------------------------------------- inherited collections.abc.Mapping *)
(* Mapping.get(self, key, default=None):
       try: return self[key]
       except KeyError: return default                                    *)
Definition mapping_get (getitem : hv -> M hv) (key default : hv) : M hv :=
  fun h => match getitem key h with
           | (h', Err KeyError) => (h', Ok default)
           | r => r
           end.
(* Mapping.__contains__(self, key):
       try: self[key]
       except KeyError: return False
       else: return True                                                  *)
Definition mapping_contains (getitem : hv -> M hv) (key : hv) : M hv :=
  fun h => match getitem key h with
           | (h', Ok _) => (h', Ok (VBool true))
           | (h', Err KeyError) => (h', Ok (VBool false))
           | (h', Err e) => (h', Err e)
           end.

(* ------------------------------------------------------------ embedding *)
(* how the values of model/Headers.v are Python values *)
Definition emb_arg (a : arg) : hv :=
  match a with
  | AStr s => VStr s
  | ABytes b => VBytes b
  | ANone => VNone
  | AInt z => VInt z
  end.
Definition emb_pair (kv : list Z * list Z) : hv :=
  VTuple [VStr (fst kv); VStr (snd kv)].
(* the stored list self.__headers *)
Definition emb_state (s : state) : hv := VList (map emb_pair s).
Definition emb_hval (tup : bool) (v : hval) : hv :=
  match v with
  | HArg a => emb_arg a
  | HNego items => VNego tup items
  end.
(* **kwargs *)
Definition emb_params (ps : list (list Z * arg)) : hv :=
  VDict (map (fun kv => (VStr (fst kv), emb_arg (snd kv))) ps).
(* the three sequence classes the constructor accepts *)
Inductive seqkind := KList | KTuple | KSet.
Definition mkseq (k : seqkind) (l : list hv) : hv :=
  match k with KList => VList l | KTuple => VTuple l | KSet => VSet l end.
Definition emb_ctor {A} (f : A -> hv) (k : seqkind) (c : ctor_in A) : hv :=
  match c with
  | CNone => VNone
  | CSeq l => mkseq k (map (fun kv => VTuple [f (fst kv); f (snd kv)]) l)
  | CDict l => VDict (map (fun kv => (f (fst kv), f (snd kv))) l)
  | COther t => VOther t
  end.
(* what a method returns / raises *)
Definition emb_outcome (o : outcome) : res hv :=
  match o with
  | ONone => Ok VNone
  | OStr s => Ok (VStr s)
  | OBytes b => Ok (VBytes b)
  | OBool b => Ok (VBool b)
  | OInt z => Ok (VInt z)
  | OStrs l => Ok (VTuple (map VStr l))
  | OPairs l => Ok (VTuple (map emb_pair l))
  | Raised e => Err e
  end.
(* a step of the model as a run of a method on the stored list *)
Definition emb_step (r : state * outcome) : hv * res hv :=
  (emb_state (fst r), emb_outcome (snd r)).
