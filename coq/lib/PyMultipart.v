(* Python operations used by the code translated by harness/py2v_multipart.py
   (fieldstorage.FieldStorageParser.read_lines_to_outerboundary, _write,
   make_file).  Same conventions as lib/Py.v: total functions, a Python
   exception is [Err].

   Objects:
   * the input object (self.input) is a value of an abstract type [St] with
     the reader [rl size s = (line, s')] of model/Multipart.v;
   * a file object is [PTuple [ctor; PList writes]] where [ctor] is the
     opaque constructor tuple (class name, arguments...) and [writes] the
     arguments of its write() calls so far, in order. *)
From Coq Require Import ZArith List Bool String.
Require Import PW.lib.Val PW.lib.Dec PW.lib.Py.
Import ListNotations.
Open Scope string_scope.
Open Scope list_scope.
Open Scope Z_scope.

(* a << b on ints *)
Definition plshift (a b : pv) : res pv :=
  match as_int a, as_int b with
  | Some x, Some y => if y <? 0 then Err ValueError
                      else Ok (PInt (Z.shiftl x y))
  | _, _ => Err TypeError
  end.

(* bytes.rstrip() (no argument): the ASCII white space bytes *)
Definition ws_byte (c : Z) : bool := (c =? 32) || ((9 <=? c) && (c <=? 13)).
Fixpoint lstrip_ws (s : list Z) : list Z :=
  match s with
  | [] => []
  | c :: r => if ws_byte c then lstrip_ws r else s
  end.
Definition prstrip (a : pv) : res pv :=
  match a with
  | PBytes b => Ok (PBytes (rev (lstrip_ws (rev b))))
  | _ => Err TypeError          (* str.rstrip strips another set *)
  end.

(* self.input.readline(k) *)
Definition preadline {St : Type} (rl : Z -> St -> list Z * St) (s : St)
           (k : pv) : res (pv * St) :=
  match as_int k with
  | Some n => let (l, s') := rl n s in Ok (PBytes l, s')
  | None => Err TypeError
  end.

(* ---- file objects *)
Definition pnewfile (ctor : pv) : pv := PTuple [ctor; PList []].
Definition file_cls (f : pv) : option (list Z) :=
  match f with
  | PTuple [PTuple (PStr c :: _); PList _] => Some c
  | _ => None
  end.
(* isinstance(v, (A, B, ...)) for class names: bytes, str, file classes *)
Definition cls_of (v : pv) : option (list Z) :=
  match v with
  | PBytes _ => Some (s2l "bytes")
  | PStr _ => Some (s2l "str")
  | _ => file_cls v
  end.
Definition pisinstance (f : pv) (names : list (list Z)) : res pv :=
  match cls_of f with
  | Some c => Ok (PBool (existsb (lz_eqb c) names))
  | None => Ok (PBool false)
  end.
(* bool(x) *)
Definition pbool (a : pv) : res pv := Ok (PBool (truthy a)).

(* ---- the regular expressions of fieldstorage.py: "^", a sequence of
   character classes [a-b...] with an optional {lo,hi}, optional "$"
   (which also matches before one final newline); re.match semantics *)
Inductive ritem := RClass (ranges : list (Z * Z)) (lo hi : nat).
Definition in_ranges (c : Z) (rs : list (Z * Z)) : bool :=
  existsb (fun r => (fst r <=? c) && (c <=? snd r)) rs.
Fixpoint rmatch_rep (rs : list (Z * Z)) (hi lo : nat) (cont : list Z -> bool)
         (s : list Z) {struct hi} : bool :=
  ((lo =? 0)%nat && cont s) ||
  match hi, s with
  | S hi', c :: r => in_ranges c rs && rmatch_rep rs hi' (pred lo) cont r
  | _, _ => false
  end.
Fixpoint rmatch (items : list ritem) (dollar : bool) (s : list Z) : bool :=
  match items with
  | [] => if dollar then match s with [] => true | [c] => c =? 10 | _ => false end
          else true
  | RClass rs lo hi :: t => rmatch_rep rs hi lo (rmatch t dollar) s
  end.
(* compiled_pattern.match(v): a match object or None; a bytes pattern takes
   bytes, a str pattern str *)
Definition pre_match (bin : bool) (items : list ritem) (dollar : bool)
           (v : pv) : res pv :=
  match v, bin with
  | PBytes s, true | PStr s, false =>
      Ok (if rmatch items dollar s then PTuple [PStr (s2l "Match")] else PNone)
  | _, _ => Err TypeError
  end.
Definition item_len (v : pv) : option Z :=
  match v with
  | PBytes b | PStr b => Some (Z.of_nat (List.length b))
  | _ => None
  end.
Fixpoint sum_len (ws : list pv) : option Z :=
  match ws with
  | [] => Some 0
  | w :: t => match item_len w, sum_len t with
              | Some a, Some b => Some (a + b)
              | _, _ => None
              end
  end.
(* f.tell() of a BytesIO / StringIO that was only written to: bytes resp.
   characters written *)
Definition ptell (f : pv) : res pv :=
  match f with
  | PTuple [PTuple _; PList ws] =>
      match sum_len ws with Some n => Ok (PInt n) | None => Err TypeError end
  | _ => Err TypeError
  end.
(* Some true: takes bytes; Some false: takes str; None: unknown class (the
   product of a file factory), takes what it gets *)
Definition file_binary (f : pv) : option bool :=
  match f with
  | PTuple [PTuple (PStr c :: args); PList _] =>
      if lz_eqb c (s2l "BytesIO") then Some true
      else if lz_eqb c (s2l "StringIO") then Some false
      else if lz_eqb c (s2l "TemporaryFile") then
        match args with
        | PStr mode :: _ => Some (existsb (Z.eqb 98) mode)
        | _ => Some true              (* default mode w+b *)
        end
      else None
  | _ => None
  end.
Definition pwrite (f x : pv) : res pv :=
  match f with
  | PTuple [ctor; PList ws] =>
      match file_binary f, x with
      | Some true, PBytes _ | Some false, PStr _
      | None, PBytes _ | None, PStr _ => Ok (PTuple [ctor; PList (ws ++ [x])])
      | _, _ => Err TypeError
      end
  | _ => Err TypeError
  end.
(* f.getvalue() of a BytesIO / StringIO *)
Fixpoint cat_items (bin : bool) (ws : list pv) : option (list Z) :=
  match ws with
  | [] => Some []
  | w :: t =>
      match (match w, bin with
             | PBytes b, true | PStr b, false => Some b
             | _, _ => None
             end), cat_items bin t with
      | Some a, Some b => Some (a ++ b)
      | _, _ => None
      end
  end.
Definition pgetvalue (f : pv) : res pv :=
  match f with
  | PTuple [PTuple (PStr c :: _); PList ws] =>
      if lz_eqb c (s2l "BytesIO") then
        match cat_items true ws with Some b => Ok (PBytes b)
                                | None => Err TypeError end
      else if lz_eqb c (s2l "StringIO") then
        match cat_items false ws with Some b => Ok (PStr b)
                                 | None => Err TypeError end
      else Err (Raised "AttributeError" PNone)
  | _ => Err TypeError
  end.
(* line.decode(encoding, errors); the decoder is a parameter *)
Definition pdecode (D : list Z -> list Z) (a enc errors : pv) : res pv :=
  match a with
  | PBytes b => Ok (PStr (D b))
  | _ => Err TypeError
  end.
(* self.file_callback(filename): the product is an object of a class the
   parser knows nothing about *)
Definition pcall_factory (cb name : pv) : res pv :=
  if truthy cb then Ok (pnewfile (PTuple [PStr (s2l "Product"); name]))
  else Err TypeError
.
