(* Python operations used by the generated coq/gen/StaticGen.v
   (harness/py2v_static.py, translator tie for C12) on the data types of
   model/StaticPath.v: a str is its list of code points, a list of str is a
   [list (list Z)], `str or None` is an [option (list Z)], a dict from str
   to str is its lookup function.  Each definition is the general Python
   operation (any strip set, any index, any slice bound); that the instances
   the source uses coincide with the hand model's specialised functions is
   PROVED in proofs/StaticGenEq.v, not assumed.
   Definitions only; standard library only. *)
From Coq Require Import ZArith List Bool.
Import ListNotations.
Open Scope list_scope.
Open Scope Z_scope.

(* bool(s), s a str *)
Definition str_truth (s : list Z) : bool :=
  match s with [] => false | _ :: _ => true end.

(* bool(n), n an int *)
Definition int_truth (n : Z) : bool := negb (n =? 0).

(* c in chars *)
Definition char_in (c : Z) (chars : list Z) : bool := existsb (Z.eqb c) chars.

(* s.lstrip(chars) *)
Fixpoint str_lstrip (chars s : list Z) : list Z :=
  match s with
  | c :: s' => if char_in c chars then str_lstrip chars s' else s
  | [] => []
  end.

(* s[i]: a str of length one; None = IndexError.  Negative i counts from
   the end. *)
Definition str_at (s : list Z) (i : Z) : option (list Z) :=
  let n := Z.of_nat (List.length s) in
  let j := if i <? 0 then i + n else i in
  if (j <? 0) || (n <=? j) then None else Some [nth (Z.to_nat j) s 0].

(* s[:k] (never raises; negative k counts from the end, clipped at 0) *)
Definition str_upto (s : list Z) (k : Z) : list Z :=
  let n := Z.of_nat (List.length s) in
  firstn (Z.to_nat (if k <? 0 then Z.max 0 (n + k) else k)) s.

(* a dict from str to str: d.get(k) is [d k] (None = no such key), and
   d.get(k, dflt): *)
Definition dict_get_or (d : list Z -> option (list Z)) (k dflt : list Z)
  : list Z :=
  match d k with Some v => v | None => dflt end.

(* l.append(x), l a list of str, as the new value of l *)
Definition list_append (l : list (list Z)) (x : list Z) : list (list Z) :=
  l ++ [x].
