(* Python semantics used by the code generated from the request-fact
   accessors of poorwsgi/request.py (harness/py2v_reqfacts.py ->
   gen/ReqFactsGen.v), on top of lib/Py.v + lib/PyDigest.v (dicts as tagged
   association lists, newest entry first):

     str.strip() / str.strip(chars) / str.find(sub) / str.capitalize() /
     str.lower(), str.encode('iso-8859-1'), bytes.decode('utf-8'),
     dict(<iterable of pairs>), a generator expression over two-element
     items, compiled_pattern.findall(text) for a two-group pattern, and
     `except UnicodeError` (a class with subclasses).

   External functions are arguments (Section variables of the generated
   file): the regex scanner [Scan pattern text] (re.compile(pattern)
   .findall(text) for a pattern with two groups), the strict UTF-8 decoder
   [Dec] (None = UnicodeDecodeError).  str.isspace, str.capitalize and
   str.lower are exact for code points <= 255 resp. ASCII (the domain of the
   hand models, model/Digest.v, model/Debug.v).

   Like lib/Py.v it is part of the trusted base of the translator tie.
   Everything is total: a Python exception is [Err]. *)
From Coq Require Import ZArith List Bool String.
Require Import PW.lib.Val PW.lib.Dec PW.lib.Py PW.lib.PyDigest.
Import ListNotations.
Open Scope string_scope.
Open Scope list_scope.
Open Scope Z_scope.

(* ------------------------------------------------------------------ str *)
Definition rng (lo hi c : Z) : bool := (lo <=? c) && (c <=? hi).
(* str.isspace for code points <= 255 *)
Definition py_isspace (c : Z) : bool :=
  rng 9 13 c || rng 28 32 c || (c =? 133) || (c =? 160).

Fixpoint py_lstrip (p : Z -> bool) (s : list Z) : list Z :=
  match s with
  | c :: s' => if p c then py_lstrip p s' else s
  | [] => []
  end.
Definition py_strip (p : Z -> bool) (s : list Z) : list Z :=
  rev (py_lstrip p (rev (py_lstrip p s))).

(* s.strip() *)
Definition pstrip_ws (s : pv) : res pv :=
  match s with
  | PStr a => Ok (PStr (py_strip py_isspace a))
  | _ => Err attr_error
  end.
(* s.strip(chars) *)
Definition pstrip_chars (s chars : pv) : res pv :=
  match s with
  | PStr a =>
      match chars with
      | PStr cs => Ok (PStr (py_strip (fun c => existsb (Z.eqb c) cs) a))
      | _ => Err TypeError
      end
  | _ => Err attr_error
  end.
(* s.find(sub): lowest index, -1 when absent *)
Definition pstr_find (s sub : pv) : res pv :=
  match s with
  | PStr a =>
      match sub with
      | PStr b =>
          Ok (PInt match find_sub b a with
                   | Some (h, _) => Z.of_nat (List.length h)
                   | None => -1
                   end)
      | _ => Err TypeError
      end
  | _ => Err attr_error
  end.

Definition py_upper1 (c : Z) : Z := if rng 97 122 c then c - 32 else c.
Definition py_lower1 (c : Z) : Z := if rng 65 90 c then c + 32 else c.
(* s.capitalize(), ASCII *)
Definition pcapitalize (s : pv) : res pv :=
  match s with
  | PStr [] => Ok (PStr [])
  | PStr (c :: r) => Ok (PStr (py_upper1 c :: map py_lower1 r))
  | _ => Err attr_error
  end.
(* s.lower(), ASCII *)
Definition plower (s : pv) : res pv :=
  match s with
  | PStr a => Ok (PStr (map py_lower1 a))
  | _ => Err attr_error
  end.

(* --------------------------------------------------------------- codecs *)
Definition codec_latin1 : list Z := [105;115;111;45;56;56;53;57;45;49].
Definition codec_utf8 : list Z := [117;116;102;45;56].
(* s.encode(codec): only 'iso-8859-1' is known *)
Definition pencode (s codec : pv) : res pv :=
  match s with
  | PStr a =>
      match codec with
      | PStr c =>
          if lz_eqb c codec_latin1 then
            if forallb (rng 0 255) a then Ok (PBytes a)
            else Err (Raised "UnicodeEncodeError" PNone)
          else Err (Raised "LookupError" PNone)
      | _ => Err TypeError
      end
  | _ => Err attr_error
  end.
(* b.decode(codec): only 'utf-8' (strict) is known *)
Definition pdecode (Dec : list Z -> option (list Z)) (b codec : pv) : res pv :=
  match b with
  | PBytes a =>
      match codec with
      | PStr c =>
          if lz_eqb c codec_utf8 then
            match Dec a with
            | Some t => Ok (PStr t)
            | None => Err (Raised "UnicodeDecodeError" PNone)
            end
          else Err (Raised "LookupError" PNone)
      | _ => Err TypeError
      end
  | _ => Err attr_error
  end.

(* `except cls` with the subclasses the translated code can raise *)
Definition exn_isa (cls : string) (e : perr) : bool :=
  exn_is cls e ||
  (String.eqb cls "UnicodeError" &&
   (exn_is "UnicodeEncodeError" e || exn_is "UnicodeDecodeError" e)).

(* ------------------------------------------------ regex, generator, dict *)
(* compiled.findall(text) for a pattern with two groups: list of 2-tuples *)
Definition pfindall (Scan : list Z -> list Z -> list (list Z * list Z))
           (pattern text : pv) : res pv :=
  match pattern, text with
  | PStr p, PStr t =>
      Ok (PList (map (fun kv => PTuple [PStr (fst kv); PStr (snd kv)])
                     (Scan p t)))
  | _, _ => Err TypeError
  end.

(* (f a b for a, b in items): the elements, in order; the first exception
   ends the iteration *)
Fixpoint map2_res (f : pv -> pv -> res pv) (items : list pv) : res (list pv) :=
  match items with
  | [] => Ok []
  | it :: r =>
      pr <- punpack2 it ;; let '(a, b) := pr in
      x <- f a b ;; xs <- map2_res f r ;; Ok (x :: xs)
  end.
Definition pgenexp2 (f : pv -> pv -> res pv) (iterable : pv) : res pv :=
  items <- piter iterable ;; xs <- map2_res f items ;; Ok (PList xs).

(* dict(iterable of pairs): later pairs win (newest entry first) *)
Fixpoint dict_of_go (acc : list pv) (items : list pv) : res (list pv) :=
  match items with
  | [] => Ok acc
  | it :: r =>
      pr <- punpack2 it ;; let '(k, v) := pr in
      dict_of_go (PTuple [k; v] :: acc) r
  end.
Definition pdict_of (iterable : pv) : res pv :=
  items <- piter iterable ;; d <- dict_of_go [] items ;; Ok (PDict d).
