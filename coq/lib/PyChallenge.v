(* Python semantics used by the code generated from poorwsgi/results.py
   unauthorized (harness/py2v_challenge.py -> gen/ChallengeGen.v), on top of
   lib/Py.v and lib/PyDigest.v.  Part of the trusted base of the tie.

   [pctor cls args kw]: the call of a class, `Cls(a1, ..., k1=v1, ...)`, as an
   opaque value that keeps the class name, the positional arguments and the
   keyword arguments (names and values, source order). *)
From Coq Require Import ZArith List Bool String.
Require Import PW.lib.Val PW.lib.Dec PW.lib.Py PW.lib.PyDigest.
Import ListNotations.
Open Scope string_scope.
Open Scope list_scope.
Open Scope Z_scope.

Definition pctor (cls : list Z) (args kw : list pv) : res pv :=
  Ok (PTuple [PStr cls; PTuple args; PTuple kw]).
