(* Python str / dict / iterator operations used by the code translated by
   harness/py2v_param.py (headers._parseparam, headers.parse_header).  Same
   conventions as lib/Py.v: a str is [PStr] of its code points, total
   functions, a Python exception is [Err].  Part of the trusted base of the
   translator tie.

   Restriction (the same as in model/HeaderCodec.v): str.lower() is defined
   for U+0000..U+00FF (header values are ISO-8859-1 strings); above that it
   is the identity. *)
From Coq Require Import ZArith List Bool String.
Require Import PW.lib.Val PW.lib.Dec PW.lib.Py.
Import ListNotations.
Open Scope string_scope.
Open Scope list_scope.
Open Scope Z_scope.

(* ---- a[i] with a computed index: a str gives a 1-character str; a
   negative index counts from the end; out of range is IndexError *)
Definition item_at {A} (n : Z) (l : list A) : option A :=
  let len := Z.of_nat (List.length l) in
  let j := if n <? 0 then n + len else n in
  if (j <? 0) || (len <=? j) then None else nth_error l (Z.to_nat j).
Definition pitem (a i : pv) : res pv :=
  match as_int i with
  | None => Err TypeError
  | Some n =>
      match a with
      | PStr s => match item_at n s with Some c => Ok (PStr [c])
                                    | None => Err IndexError end
      | PList l | PTuple l => match item_at n l with Some v => Ok v
                                                | None => Err IndexError end
      | _ => Err TypeError
      end
  end.

(* ---- s.strip(): the characters str.isspace() accepts are removed at both
   ends *)
Definition str_is_space (c : Z) : bool :=
  ((9 <=? c) && (c <=? 13)) || ((28 <=? c) && (c <=? 32)) ||
  (c =? 133) || (c =? 160) || (c =? 5760) ||
  ((8192 <=? c) && (c <=? 8202)) || (c =? 8232) || (c =? 8233) ||
  (c =? 8239) || (c =? 8287) || (c =? 12288).
Fixpoint str_lstrip (s : list Z) : list Z :=
  match s with
  | c :: r => if str_is_space c then str_lstrip r else s
  | [] => []
  end.
Definition str_strip (s : list Z) : list Z :=
  rev (str_lstrip (rev (str_lstrip s))).
Definition pstrip (a : pv) : res pv :=
  match a with
  | PStr s => Ok (PStr (str_strip s))
  | _ => Err TypeError
  end.

(* ---- s.lower() on U+0000..U+00FF *)
Definition str_lower_c (c : Z) : Z :=
  if ((65 <=? c) && (c <=? 90)) ||
     ((192 <=? c) && (c <=? 222) && negb (c =? 215)) then c + 32 else c.
Definition plower (a : pv) : res pv :=
  match a with
  | PStr s => Ok (PStr (map str_lower_c s))
  | _ => Err TypeError
  end.

(* ---- s.find(sub): lowest index of sub in s, -1 when absent *)
Definition pfind1 (a sub : pv) : res pv :=
  match a, sub with
  | PStr s, PStr p => Ok (PInt (find_from p s 0))
  | _, _ => Err TypeError
  end.

(* ---- s.replace(old, new): the non-overlapping occurrences of old, found
   from the left, are replaced; [skip] counts the characters of a matched
   occurrence still to be passed over.  An empty old matches before every
   character and at the end. *)
Fixpoint replace_go (old new : list Z) (skip : nat) (s : list Z) : list Z :=
  match s with
  | [] => []
  | c :: r =>
      match skip with
      | S k => replace_go old new k r
      | O => if is_prefix old s
             then new ++ replace_go old new (List.length old - 1) r
             else c :: replace_go old new O r
      end
  end.
Definition str_replace (old new s : list Z) : list Z :=
  match old with
  | [] => new ++ flat_map (fun c => c :: new) s
  | _ :: _ => replace_go old new O s
  end.
Definition preplace (a old new : pv) : res pv :=
  match a, old, new with
  | PStr s, PStr o, PStr n => Ok (PStr (str_replace o n s))
  | _, _, _ => Err TypeError
  end.

(* ---- dict as the list of its (key, value) pairs in insertion order:
   d[k] = v replaces the value of an existing key in place (later wins, the
   position of the first insertion is kept), else appends *)
Fixpoint items_set (items : list pv) (k v : pv) : option (list pv) :=
  match items with
  | [] => Some [PTuple [k; v]]
  | PTuple [k'; v'] :: t =>
      if pv_eqb k' k then Some (PTuple [k'; v] :: t)
      else match items_set t k v with
           | Some t' => Some (PTuple [k'; v'] :: t')
           | None => None
           end
  | _ :: _ => None
  end.
Definition pdict_store (d k v : pv) : res pv :=
  match d, k with
  | PList items, PStr _ =>
      match items_set items k v with
      | Some items' => Ok (PList items')
      | None => Err TypeError
      end
  | _, _ => Err TypeError          (* only str keys are modelled *)
  end.

(* ---- it.__next__() on an iterator over the remaining items: the next item
   and the iterator after it *)
Definition pnext (it : pv) : res (pv * pv) :=
  match it with
  | PList (x :: r) => Ok (x, PList r)
  | PList [] => Err (Raised "StopIteration" PNone)
  | _ => Err TypeError
  end.
