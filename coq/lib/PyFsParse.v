(* Python operations used by the code translated by harness/py2v_fsparse.py
   (fieldstorage.FieldStorageParser._parse_content_type, parse, __init__).
   Same conventions as lib/Py.v, lib/PyMultipart.v and lib/PyMulti.v.

   Objects:
   * self.headers is a header mapping: [PList] of [PTuple [PStr name; value]]
     (the email.message.Message of lib/PyMulti.v; names compared in lower
     case, the first match is the value);
   * a parameter dictionary (second component of parse_header, or {}) is a
     [PList] of [PTuple [PStr key; PStr value]] in the order of assignment; a
     later assignment overwrites an earlier one. *)
From Coq Require Import ZArith List Bool String.
Require Import PW.lib.Val PW.lib.Dec PW.lib.Py PW.lib.PyMultipart PW.lib.PyMulti.
Import ListNotations.
Open Scope string_scope.
Open Scope list_scope.
Open Scope Z_scope.

Definition key_error {A} : res A := Err (Raised "KeyError" PNone).

(* ---- header mapping: headers[k] *)
Fixpoint msg_find (k : list Z) (es : list pv) : option pv :=
  match es with
  | [] => None
  | e :: t => if msg_name_is k e
              then match e with PTuple [_; v] => Some v | _ => None end
              else msg_find k t
  end.
Definition pmsg_get (h k : pv) : res pv :=
  match h, k with
  | PList es, PStr key =>
      match msg_find key es with Some v => Ok v | None => key_error end
  | _, _ => Err TypeError
  end.

(* ---- parameter dictionary *)
Definition pd_key_is (k : list Z) (e : pv) : bool :=
  match e with
  | PTuple [PStr n; _] => lz_eqb n k
  | _ => false
  end.
(* the value the last assignment of key k left *)
Fixpoint pd_find (k : list Z) (es : list pv) : option pv :=
  match es with
  | [] => None
  | e :: t =>
      match pd_find k t with
      | Some v => Some v
      | None => if pd_key_is k e
                then match e with PTuple [_; v] => Some v | _ => None end
                else None
      end
  end.
(* d.get(k) *)
Definition pdict_get (d k : pv) : res pv :=
  match d, k with
  | PList es, PStr key =>
      Ok (match pd_find key es with Some v => v | None => PNone end)
  | _, _ => Err TypeError
  end.
(* k in d *)
Definition pdict_contains (d k : pv) : res pv :=
  match d, k with
  | PList es, PStr key =>
      Ok (PBool (match pd_find key es with Some _ => true | None => false end))
  | _, _ => Err TypeError
  end.
(* d[k] *)
Definition pdict_item (d k : pv) : res pv :=
  match d, k with
  | PList es, PStr key =>
      match pd_find key es with Some v => Ok v | None => key_error end
  | _, _ => Err TypeError
  end.

(* ---- poorwsgi.headers.parse_header(value): the parser is a parameter
   [PH : text -> key * list of (name, value)] *)
Definition enc_pdict (d : list (list Z * list Z)) : pv :=
  PList (map (fun kv => PTuple [PStr (fst kv); PStr (snd kv)]) d).
Definition pparse_header (PH : list Z -> list Z * list (list Z * list Z))
           (v : pv) : res pv :=
  match v with
  | PStr s => let (key, d) := PH s in Ok (PTuple [PStr key; enc_pdict d])
  | _ => Err TypeError
  end.

(* ---- text.encode(encoding, errors): the encoder is a parameter *)
Definition pencode (E : list Z -> list Z) (a enc errors : pv) : res pv :=
  match a with
  | PStr s => Ok (PBytes (E s))
  | _ => Err TypeError
  end.

(* ---- int(x): on a str the parser is a parameter [INT] (None: ValueError) *)
Definition pint_s (INT : list Z -> option Z) (a : pv) : res pv :=
  match a with
  | PStr s => match INT s with Some n => Ok (PInt n) | None => Err ValueError end
  | _ => pint a
  end.

(* ---- except Cls: which errors a handler of class Cls catches (the
   classes have no subclasses among the errors of this library) *)
Definition perr_is (cls : string) (e : perr) : bool :=
  match e with
  | TypeError => String.eqb cls "TypeError"
  | ZeroDivisionError => String.eqb cls "ZeroDivisionError"
  | ValueError => String.eqb cls "ValueError"
  | IndexError => String.eqb cls "IndexError"
  | Raised c _ => String.eqb cls c
  end.

(* ---- f.seek(k) on a file object of lib/PyMultipart.v: the object records
   what was written, not the position *)
Definition pseek (f k : pv) : res pv :=
  match f, as_int k with
  | PTuple [_; PList _], Some _ => Ok f
  | _, _ => Err TypeError
  end.
