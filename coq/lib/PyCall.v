(* Statement IR and its semantics for the emission entry points of the
   response classes (harness/py2v_call.py -> gen/CallGen.v):
   BaseResponse.__call__, Declined.__call__, BaseResponse.__end_of_response__.

   The IR is plain syntax (no Section variables); [exec] gives it the Python
   meaning over the object state of model/Emit.v: the private flag and the
   rest of the state, with the two emission methods as abstract effects.
   TRUSTED here: try/finally (the finally block runs in every outcome of the
   body; its own return/raise replaces the body's outcome), `if` on a bool,
   `raise RuntimeError(msg)`, attribute read/write of the name-mangled flag,
   which method name is which effect and which argument it gets
   (parameter 1 = start_response), a function body that falls off its end
   returns None.  Everything else is [Stuck]. *)
From Coq Require Import ZArith List Bool String.
Require Import PW.model.Emit.
Import ListNotations.
Open Scope string_scope.

Inductive arg := AParam (i : nat).
Inductive expr :=
| EAttr (a : string)                       (* self.<a>, a name-mangled *)
| EBool (b : bool)
| ENone
| EBytes (l : list Z)                      (* bytes literal *)
| ETuple0                                  (* () *)
| ESelfCall (m : string) (args : list arg). (* self.m(args) *)
Inductive stmt :=
| SSkip
| SSeq (a b : stmt)
| SIf (c : expr) (t e : stmt)
| SRaise (cls msg : string)                (* raise cls(msg) *)
| SExpr (e : expr)
| SReturn (e : expr)
| SSetAttr (a : string) (e : expr)         (* self.<a> = e *)
| STryFinally (b f : stmt).

Definition done_attr := "_BaseResponse__done".

Section Sem.
  Variables St X B : Type.
  Variable start : St -> St * option X.
  Variable finish : St -> St * (B + X).

  Inductive val :=
  | VNone | VBool (b : bool) | VBytes (l : list Z) | VTuple0 | VBody (b : B).
  Inductive ev := Val (v : val) | EvExc (e : exn X) | EvStuck.
  Inductive ctl := Normal | Ret (v : val) | Exc (e : exn X) | Stuck.

  Definition eval (e : expr) (o : obj St) : obj St * ev :=
    match e with
    | EAttr a => if String.eqb a done_attr then (o, Val (VBool (done o)))
                 else (o, EvStuck)
    | EBool b => (o, Val (VBool b))
    | ENone => (o, Val VNone)
    | EBytes l => (o, Val (VBytes l))
    | ETuple0 => (o, Val VTuple0)
    | ESelfCall m args =>
        if String.eqb m "__start_response__" then
          match args with
          | [AParam 1] =>
              let (s, r) := start (rest o) in
              ({| done := done o; rest := s |},
               match r with None => Val VNone | Some x => EvExc (Effect x) end)
          | _ => (o, EvStuck)
          end
        else if String.eqb m "__end_of_response__" then
          match args with
          | [] =>
              let (s, r) := finish (rest o) in
              ({| done := done o; rest := s |},
               match r with inl b => Val (VBody b) | inr x => EvExc (Effect x) end)
          | _ => (o, EvStuck)
          end
        else (o, EvStuck)
    end.

  Fixpoint exec (s : stmt) (o : obj St) : obj St * ctl :=
    match s with
    | SSkip => (o, Normal)
    | SSeq a b => match exec a o with
                  | (o1, Normal) => exec b o1
                  | r => r
                  end
    | SIf c t e => match eval c o with
                   | (o1, Val (VBool true)) => exec t o1
                   | (o1, Val (VBool false)) => exec e o1
                   | (o1, Val _) => (o1, Stuck)
                   | (o1, EvExc x) => (o1, Exc x)
                   | (o1, EvStuck) => (o1, Stuck)
                   end
    | SRaise cls msg => if String.eqb cls "RuntimeError"
                        then (o, Exc (RuntimeError msg)) else (o, Stuck)
    | SExpr e => match eval e o with
                 | (o1, Val _) => (o1, Normal)
                 | (o1, EvExc x) => (o1, Exc x)
                 | (o1, EvStuck) => (o1, Stuck)
                 end
    | SReturn e => match eval e o with
                   | (o1, Val v) => (o1, Ret v)
                   | (o1, EvExc x) => (o1, Exc x)
                   | (o1, EvStuck) => (o1, Stuck)
                   end
    | SSetAttr a e => match eval e o with
                      | (o1, Val (VBool b)) =>
                          if String.eqb a done_attr
                          then ({| done := b; rest := rest o1 |}, Normal)
                          else (o1, Stuck)
                      | (o1, Val _) => (o1, Stuck)
                      | (o1, EvExc x) => (o1, Exc x)
                      | (o1, EvStuck) => (o1, Stuck)
                      end
    | STryFinally b f => match exec b o with
                         | (o1, Stuck) => (o1, Stuck)
                         | (o1, c) => match exec f o1 with
                                      | (o2, Normal) => (o2, c)
                                      | r => r
                                      end
                         end
    end.

  (* a whole function body *)
  Definition run (s : stmt) (o : obj St) : obj St * ctl :=
    match exec s o with
    | (o1, Normal) => (o1, Ret VNone)
    | r => r
    end.

  (* the model's result as the outcome of the Python call *)
  Definition of_result (r : result X B) : ctl :=
    match r with Answer b => Ret (VBody b) | Fails e => Exc e end.
End Sem.

Arguments VNone {B}.
Arguments VBool {B}.
Arguments VBytes {B}.
Arguments VTuple0 {B}.
Arguments VBody {B}.
Arguments Normal {X B}.
Arguments Ret {X B}.
Arguments Exc {X B}.
Arguments Stuck {X B}.
