(* A small dynamic semantics of the Python operations that occur in the code
   translated by harness/py2v.py.  Generated definitions (coq/gen/*.v) are
   written against this file only; it is part of the trusted base of the
   translator tie (like the translator itself) and is validated by the
   equivalence lemmas with the hand models plus the correspondence runs.
   Everything is total: a Python exception is [Err]. *)
From Coq Require Import ZArith List Bool String.
Require Import PW.lib.Val PW.lib.Dec.
Import ListNotations.
Open Scope string_scope.
Open Scope list_scope.
Open Scope Z_scope.

Inductive pv :=
  | PInt (z : Z)
  | PNone
  | PBool (b : bool)
  | PStr (s : list Z)
  | PBytes (b : list Z)
  | PList (l : list pv)
  | PTuple (l : list pv)
  | PRat (n d : Z).           (* result of true division, d <> 0, exact *)

Inductive perr :=
  | TypeError | ZeroDivisionError | ValueError | IndexError
  | Raised (cls : string) (arg : pv).

Inductive res (A : Type) := Ok (a : A) | Err (e : perr).
Arguments Ok {A} a. Arguments Err {A} e.

Definition bind {A B} (r : res A) (f : A -> res B) : res B :=
  match r with Ok a => f a | Err e => Err e end.
Notation "x <- r ;; k" := (bind r (fun x => k))
  (at level 61, r at next level, right associativity).

(* bool is a subclass of int *)
Definition as_int (v : pv) : option Z :=
  match v with
  | PInt z => Some z
  | PBool b => Some (if b then 1 else 0)
  | _ => None
  end.

Definition truthy (v : pv) : bool :=
  match v with
  | PInt z => negb (z =? 0)
  | PNone => false
  | PBool b => b
  | PStr s | PBytes s => match s with [] => false | _ => true end
  | PList l | PTuple l => match l with [] => false | _ => true end
  | PRat n _ => negb (n =? 0)
  end.

Definition arith (f : Z -> Z -> Z) (a b : pv) : res pv :=
  match as_int a, as_int b with
  | Some x, Some y => Ok (PInt (f x y))
  | _, _ => Err TypeError
  end.
Definition padd (a b : pv) : res pv :=
  match a, b with
  | PStr x, PStr y => Ok (PStr (x ++ y))
  | PBytes x, PBytes y => Ok (PBytes (x ++ y))
  | PList x, PList y => Ok (PList (x ++ y))
  | PTuple x, PTuple y => Ok (PTuple (x ++ y))
  | _, _ => arith Z.add a b
  end.
Definition psub := arith Z.sub.
Definition pmul := arith Z.mul.

(* true division; the dividend may be a rational already (time() in
   microseconds is [PRat t 1000000]) *)
Definition pdiv (a b : pv) : res pv :=
  match as_int b with
  | None => Err TypeError
  | Some y =>
      if y =? 0 then Err ZeroDivisionError
      else match a with
           | PRat n d => Ok (PRat n (d * y))
           | _ => match as_int a with
                  | Some x => Ok (PRat x y)
                  | None => Err TypeError
                  end
           end
  end.
(* int(): truncation toward zero *)
Definition pint (a : pv) : res pv :=
  match a with
  | PRat n d => Ok (PInt (Z.quot n d))
  | _ => match as_int a with Some x => Ok (PInt x) | None => Err TypeError end
  end.

Definition pcmp (f : Z -> Z -> bool) (a b : pv) : res pv :=
  match as_int a, as_int b with
  | Some x, Some y => Ok (PBool (f x y))
  | _, _ => Err TypeError
  end.
Definition plt := pcmp Z.ltb.
Definition ple := pcmp Z.leb.
Definition pgt := pcmp Z.gtb.
Definition pge := pcmp Z.geb.

Fixpoint pv_eqb (a b : pv) {struct a} : bool :=
  let fix go (x y : list pv) {struct x} : bool :=
    match x, y with
    | [], [] => true
    | p :: x', q :: y' => pv_eqb p q && go x' y'
    | _, _ => false
    end in
  match a, b with
  | PNone, PNone => true
  | PStr x, PStr y => lz_eqb x y
  | PBytes x, PBytes y => lz_eqb x y
  | PList x, PList y => go x y
  | PTuple x, PTuple y => go x y
  | PRat n d, PRat n' d' => (n * d' =? n' * d)
  | PRat n d, _ => match as_int b with Some y => n =? y * d | None => false end
  | _, PRat n d => match as_int a with Some x => n =? x * d | None => false end
  | _, _ => match as_int a, as_int b with
            | Some x, Some y => x =? y
            | _, _ => false
            end
  end.
Definition peq (a b : pv) : res pv := Ok (PBool (pv_eqb a b)).
Definition pne (a b : pv) : res pv := Ok (PBool (negb (pv_eqb a b))).
Definition pis_none (a : pv) : res pv :=
  Ok (PBool match a with PNone => true | _ => false end).
Definition pis_not_none (a : pv) : res pv :=
  Ok (PBool match a with PNone => false | _ => true end).
Definition pnot (a : pv) : res pv := Ok (PBool (negb (truthy a))).

Definition pmin2 (a b : pv) : res pv :=
  match as_int a, as_int b with
  | Some x, Some y => Ok (if y <? x then b else a)
  | _, _ => Err TypeError
  end.
Definition pmax2 (a b : pv) : res pv :=
  match as_int a, as_int b with
  | Some x, Some y => Ok (if x <? y then b else a)
  | _, _ => Err TypeError
  end.

Definition plen (a : pv) : res pv :=
  match a with
  | PStr s | PBytes s => Ok (PInt (Z.of_nat (List.length s)))
  | PList l | PTuple l => Ok (PInt (Z.of_nat (List.length l)))
  | _ => Err TypeError
  end.

(* str(x) / "%s" % x *)
Definition pstr (a : pv) : list Z :=
  match a with
  | PInt z => dec z
  | PNone => s2l "None"
  | PBool true => s2l "True"
  | PBool false => s2l "False"
  | PStr s => s
  | _ => s2l "<object>"
  end.
Definition pfmt (parts : list pv) : res pv :=
  Ok (PStr (flat_map pstr parts)).

(* a[i] for tuples/lists, non-negative constant index *)
Definition pindex (a : pv) (i : Z) : res pv :=
  match a with
  | PList l | PTuple l =>
      if i <? 0 then Err IndexError
      else match nth_error l (Z.to_nat i) with
           | Some v => Ok v | None => Err IndexError end
  | _ => Err TypeError
  end.
(* a, b = v *)
Definition punpack2 (v : pv) : res (pv * pv) :=
  match v with
  | PTuple [a; b] | PList [a; b] => Ok (a, b)
  | PTuple _ | PList _ => Err ValueError
  | _ => Err TypeError
  end.

(* slicing a[lo:hi] with None-able integer bounds *)
Definition norm_idx (i len : Z) : Z :=
  if i <? 0 then Z.max 0 (i + len) else Z.min i len.
Definition slice_list {A} (l : list A) (lo hi : pv) : res (list A) :=
  let n := Z.of_nat (List.length l) in
  match (match lo with PNone => Some 0 | _ => as_int lo end),
        (match hi with PNone => Some n | _ => as_int hi end) with
  | Some a, Some b =>
      let a' := norm_idx a n in
      let b' := norm_idx b n in
      Ok (firstn (Z.to_nat (b' - a')) (skipn (Z.to_nat a') l))
  | _, _ => Err TypeError
  end.
Definition pslice (v lo hi : pv) : res pv :=
  match v with
  | PStr s => r <- slice_list s lo hi ;; Ok (PStr r)
  | PBytes s => r <- slice_list s lo hi ;; Ok (PBytes r)
  | PList s => r <- slice_list s lo hi ;; Ok (PList r)
  | PTuple s => r <- slice_list s lo hi ;; Ok (PTuple r)
  | _ => Err TypeError
  end.

(* x in list / x not in list *)
Definition pin (x l : pv) : res pv :=
  match l with
  | PList items | PTuple items => Ok (PBool (existsb (pv_eqb x) items))
  | _ => Err TypeError
  end.
Definition pnot_in (x l : pv) : res pv :=
  b <- pin x l ;; pnot b.
Definition pappend (l x : pv) : res pv :=
  match l with PList items => Ok (PList (items ++ [x])) | _ => Err TypeError end.
Definition piter (v : pv) : res (list pv) :=
  match v with
  | PList l | PTuple l => Ok l
  | PNone => Err TypeError
  | _ => Err TypeError
  end.

(* ---- bytes.find(sub, start, end): lowest index in [start, end) slice, -1 *)
Fixpoint is_prefix (p l : list Z) : bool :=
  match p, l with
  | [], _ => true
  | x :: p', y :: l' => (x =? y) && is_prefix p' l'
  | _ :: _, [] => false
  end.
Fixpoint find_from (sub l : list Z) (i : Z) : Z :=
  match l with
  | [] => match sub with [] => i | _ => -1 end
  | _ :: l' => if is_prefix sub l then i else find_from sub l' (i + 1)
  end.
Definition pfind (s sub lo hi : pv) : res pv :=
  match s, sub with
  | PBytes b, PBytes p =>
      let n := Z.of_nat (List.length b) in
      match (match lo with PNone => Some 0 | _ => as_int lo end),
            (match hi with PNone => Some n | _ => as_int hi end) with
      | Some a, Some c =>
          let a' := norm_idx a n in
          let c' := norm_idx c n in
          let window := firstn (Z.to_nat (c' - a')) (skipn (Z.to_nat a') b) in
          let r := find_from p window 0 in
          Ok (PInt (if r <? 0 then -1 else r + a'))
      | _, _ => Err TypeError
      end
  | _, _ => Err TypeError
  end.

(* ---- an input stream object: (remaining data, short-read bounds);
   file.read(k) for k >= 0 hands out min(k, next bound, available) bytes *)
Definition stream_read (f k : pv) : res (pv * pv) :=
  match f, as_int k with
  | PTuple [PBytes data; PList shorts], Some n =>
      let m := match shorts with
               | PInt b :: _ => Z.min n b
               | _ => n
               end in
      let rest := match shorts with _ :: r => r | [] => [] end in
      Ok (PBytes (firstn (Z.to_nat m) data),
          PTuple [PBytes (skipn (Z.to_nat m) data); PList rest])
  | _, _ => Err TypeError
  end.
