(* Python operations used by the code translated by harness/py2v_clen.py (the
   Content-Length bookkeeping of poorwsgi/response.py: Response.__init__,
   write, data, __end_of_response__; FileObjResponse.__init__, data,
   __end_of_response__; GeneratorResponse.__init__, __end_of_response__;
   IBytesIO.read_kilo, __iter__).  Same conventions as lib/Py.v: total
   functions, a Python exception is [Err].

   A file object (io.BytesIO, an open binary file, a raw stream ...) is the
   record [fobj]: capabilities, the bytes it holds and the current position.
   As a [pv] it is [enc_file f]; every operation decodes its argument with
   [as_file] and refuses anything else. *)
From Coq Require Import ZArith List Bool String.
Require Import PW.lib.Val PW.lib.Dec PW.lib.Py.
Import ListNotations.
Open Scope string_scope.
Open Scope list_scope.
Open Scope Z_scope.

Record fobj := {
  f_readable : bool;            (* f.readable() *)
  f_seekable : bool;            (* f.seekable() *)
  f_fdsize : option Z;          (* Some n: f.fileno() works and
                                   os.fstat(fd).st_size = n; None: fileno()
                                   raises io.UnsupportedOperation (an OSError) *)
  f_bytesio : bool;             (* isinstance(f, io.BytesIO) *)
  f_text : bool;                (* isinstance(f, io.TextIOBase) *)
  f_data : list Z;              (* the bytes held *)
  f_pos : Z }.                  (* current position *)

Definition oz_pv (o : option Z) : pv :=
  match o with Some z => PInt z | None => PNone end.

Definition enc_file (f : fobj) : pv :=
  PTuple [PStr (s2l "fileobj");
          PTuple [PBool (f_readable f); PBool (f_seekable f);
                  oz_pv (f_fdsize f); PBool (f_bytesio f); PBool (f_text f)];
          PBytes (f_data f); PInt (f_pos f)].

Definition as_file (v : pv) : option fobj :=
  match v with
  | PTuple [PStr _; PTuple [PBool r; PBool s; sz; PBool b; PBool t];
            PBytes d; PInt p] =>
      match sz with
      | PInt n => Some {| f_readable := r; f_seekable := s; f_fdsize := Some n;
                          f_bytesio := b; f_text := t; f_data := d; f_pos := p |}
      | PNone => Some {| f_readable := r; f_seekable := s; f_fdsize := None;
                         f_bytesio := b; f_text := t; f_data := d; f_pos := p |}
      | _ => None
      end
  | _ => None
  end.

Definition with_file {A} (v : pv) (k : fobj -> res A) : res A :=
  match as_file v with
  | Some f => k f
  | None => Err (Raised "AttributeError" PNone)
  end.

Definition set_pos (f : fobj) (p : Z) : fobj :=
  {| f_readable := f_readable f; f_seekable := f_seekable f;
     f_fdsize := f_fdsize f; f_bytesio := f_bytesio f; f_text := f_text f;
     f_data := f_data f; f_pos := p |}.
Definition set_data_pos (f : fobj) (d : list Z) (p : Z) : fobj :=
  {| f_readable := f_readable f; f_seekable := f_seekable f;
     f_fdsize := f_fdsize f; f_bytesio := f_bytesio f; f_text := f_text f;
     f_data := d; f_pos := p |}.

(* an in-memory buffer: io.BytesIO and its subclass IBytesIO *)
Definition membuf (d : list Z) (p : Z) : fobj :=
  {| f_readable := true; f_seekable := true; f_fdsize := None;
     f_bytesio := true; f_text := false; f_data := d; f_pos := p |}.

Definition blen (l : list Z) : Z := Z.of_nat (List.length l).

(* IBytesIO(data) / BytesIO(data): position 0 *)
Definition pf_bytesio (v : pv) : res pv :=
  match v with
  | PBytes d => Ok (enc_file (membuf d 0))
  | _ => Err TypeError         (* a bytes-like object is required *)
  end.

(* f.seek(offset, whence): whence 0 absolute (negative: ValueError), 1 from
   the current position, 2 from the end; the new file object *)
Definition pf_seek (v off whence : pv) : res pv :=
  with_file v (fun f =>
    match as_int off, as_int whence with
    | Some o, Some w =>
        if negb (f_seekable f) then Err (Raised "OSError" PNone)
        else if w =? 0 then
          if o <? 0 then Err ValueError else Ok (enc_file (set_pos f o))
        else if w =? 1 then Ok (enc_file (set_pos f (Z.max 0 (f_pos f + o))))
        else if w =? 2 then
          Ok (enc_file (set_pos f (Z.max 0 (blen (f_data f) + o))))
        else Err ValueError
    | _, _ => Err TypeError
    end).

Definition pf_tell (v : pv) : res pv :=
  with_file v (fun f =>
    if f_seekable f then Ok (PInt (f_pos f)) else Err (Raised "OSError" PNone)).

(* f.read(n): None or negative = everything from the position; the result
   and the file object afterwards *)
Definition pf_read (v n : pv) : res (pv * pv) :=
  with_file v (fun f =>
    if negb (f_readable f) then Err (Raised "OSError" PNone) else
    let avail := skipn (Z.to_nat (f_pos f)) (f_data f) in
    match (match n with PNone => Some (-1) | _ => as_int n end) with
    | Some k =>
        let got := if k <? 0 then avail else firstn (Z.to_nat k) avail in
        Ok (PBytes got, enc_file (set_pos f (f_pos f + blen got)))
    | None => Err TypeError
    end).

(* BytesIO.write at position p: overwrite, extend (zero fill if p > len) *)
Definition buf_write (b : list Z) (p : Z) (d : list Z) : list Z :=
  let n := blen b in
  if p <=? n then
    firstn (Z.to_nat p) b ++ d ++ skipn (Z.to_nat (p + blen d)) b
  else b ++ repeat 0 (Z.to_nat (p - n)) ++ d.
Definition pf_write (v d : pv) : res pv :=
  with_file v (fun f =>
    match d with
    | PBytes b =>
        Ok (enc_file (set_data_pos f (buf_write (f_data f) (f_pos f) b)
                                   (f_pos f + blen b)))
    | _ => Err TypeError       (* a bytes-like object is required, not 'str' *)
    end).

Definition pf_seekable (v : pv) : res pv :=
  with_file v (fun f => Ok (PBool (f_seekable f))).
Definition pf_readable (v : pv) : res pv :=
  with_file v (fun f => Ok (PBool (f_readable f))).

(* f.fileno(), os.fstat(fd), .st_size *)
Definition pf_fileno (v : pv) : res pv :=
  with_file v (fun f =>
    match f_fdsize f with
    | Some n => Ok (PTuple [PStr (s2l "fd"); PInt n])
    | None => Err (Raised "OSError" PNone)
    end).
Definition pf_fstat (fd : pv) : res pv :=
  match fd with
  | PTuple [PStr _; PInt n] => Ok (PTuple [PStr (s2l "stat_result"); PInt n])
  | _ => Err TypeError
  end.
Definition pf_st_size (st : pv) : res pv :=
  match st with
  | PTuple [PStr _; PInt n] => Ok (PInt n)
  | _ => Err (Raised "AttributeError" PNone)
  end.
(* f.getbuffer() of a BytesIO, .nbytes *)
Definition pf_getbuffer (v : pv) : res pv :=
  with_file v (fun f =>
    if f_bytesio f then
      Ok (PTuple [PStr (s2l "memoryview"); PInt (blen (f_data f))])
    else Err (Raised "AttributeError" PNone)).
Definition pf_nbytes (m : pv) : res pv :=
  match m with
  | PTuple [PStr _; PInt n] => Ok (PInt n)
  | _ => Err (Raised "AttributeError" PNone)
  end.

(* isinstance(v, C) / isinstance(v, (C1, C2, ...)) for the classes named in
   the translated code *)
Inductive pcls := CStr | CBytes | CBytesIO | CTextIOBase.
Definition is_cls (v : pv) (c : pcls) : bool :=
  match c, v with
  | CStr, PStr _ => true
  | CBytes, PBytes _ => true
  | CBytesIO, _ => match as_file v with Some f => f_bytesio f | None => false end
  | CTextIOBase, _ => match as_file v with Some f => f_text f | None => false end
  | _, _ => false
  end.
Definition cl_isinstance (v : pv) (cs : list pcls) : res pv :=
  Ok (PBool (existsb (is_cls v) cs)).

(* s.encode("utf-8") with the encoder as a parameter (None: a lone
   surrogate, UnicodeEncodeError) *)
Definition cl_encode (E : list Z -> option (list Z)) (a : pv) : res pv :=
  match a with
  | PStr s => match E s with Some b => Ok (PBytes b)
                        | None => Err (Raised "UnicodeEncodeError" PNone) end
  | _ => Err (Raised "AttributeError" PNone)     (* bytes has no encode *)
  end.

(* except <classes>: which errors a clause catches *)
Definition exn_matches (e : perr) (names : list string) : bool :=
  match e with
  | Raised c _ => existsb (String.eqb c) names
  | _ => false
  end.

(* iter(callable, sentinel) run to the end: the list of values produced
   before the sentinel and the final state; [step st] = Ok (PTuple [value;
   state']) is the callable as a state transformer; explicit fuel *)
Fixpoint iter_sentinel (step : pv -> res pv) (sentinel : pv)
         (fuel : nat) (st : pv) : res pv :=
  match fuel with
  | O => Err (Raised "OutOfFuel" PNone)
  | S fuel' =>
      r <- step st ;;
      pr <- punpack2 r ;;
      let '(v, st') := pr in
      if pv_eqb v sentinel then Ok (PTuple [PList []; st'])
      else
        r' <- iter_sentinel step sentinel fuel' st' ;;
        pr' <- punpack2 r' ;;
        let '(vs, st'') := pr' in
        match vs with
        | PList l => Ok (PTuple [PList (v :: l); st''])
        | _ => Err TypeError
        end
  end.
