(* Python operations used by the code translated by harness/py2v_multi.py
   (fieldstorage.FieldStorageParser._skip_to_boundary, read_multi,
   skip_lines).  Same conventions as lib/Py.v and lib/PyMultipart.v. *)
From Coq Require Import ZArith List Bool String.
Require Import PW.lib.Val PW.lib.Dec PW.lib.Py PW.lib.PyMultipart.
Import ListNotations.
Open Scope string_scope.
Open Scope list_scope.
Open Scope Z_scope.

(* bytes.strip() (no argument): the ASCII white space bytes, both ends *)
Definition pstrip (a : pv) : res pv :=
  match a with
  | PBytes b => Ok (PBytes (lstrip_ws (rev (lstrip_ws (rev b)))))
  | _ => Err TypeError          (* str.strip strips another set *)
  end.

(* tuple fields returned by a generated method / nested loop *)
Lemma pindex_0 a l : pindex (PTuple (a :: l)) 0 = Ok a.
Proof. reflexivity. Qed.
Lemma pindex_1 a b l : pindex (PTuple (a :: b :: l)) 1 = Ok b.
Proof. reflexivity. Qed.

(* ---- email.feedparser.FeedParser: the object is (class name, the texts
   fed so far); close() hands their concatenation to the parser [FP] (a
   parameter: text -> headers object) *)
Definition pnew_feedparser : pv := PTuple [PStr (s2l "FeedParser"); PList []].
Definition pfeed (p x : pv) : res pv :=
  match p, x with
  | PTuple [PStr c; PList ws], PStr _ => Ok (PTuple [PStr c; PList (ws ++ [x])])
  | _, _ => Err TypeError
  end.
Definition pclose (FP : list Z -> res pv) (p : pv) : res pv :=
  match p with
  | PTuple [PStr c; PList ws] =>
      match cat_items false ws with Some t => FP t | None => Err TypeError end
  | _ => Err TypeError
  end.

(* ---- email.message.Message: the list of (name, value) pairs; names are
   compared in lower case (str.lower restricted to U+0000..U+00FF) *)
Definition lower_l1_c (c : Z) : Z :=
  if ((65 <=? c) && (c <=? 90)) ||
     ((192 <=? c) && (c <=? 222) && negb (c =? 215)) then c + 32 else c.
Definition lower_l1 (s : list Z) : list Z := map lower_l1_c s.
Definition msg_name_is (k : list Z) (e : pv) : bool :=
  match e with
  | PTuple [PStr n; _] => lz_eqb (lower_l1 n) (lower_l1 k)
  | _ => false
  end.
(* k in msg *)
Definition pmsg_contains (h k : pv) : res pv :=
  match h, k with
  | PList es, PStr key => Ok (PBool (existsb (msg_name_is key) es))
  | _, _ => Err TypeError
  end.
(* del msg[k]: every header of that name goes, no error when there is none *)
Definition pmsg_del (h k : pv) : res pv :=
  match h, k with
  | PList es, PStr key =>
      Ok (PList (filter (fun e => negb (msg_name_is key e)) es))
  | _, _ => Err TypeError
  end.

(* part.list of a FieldStorage: the object is (class name, list, ...) *)
Definition ppart_list (p : pv) : res pv :=
  match p with
  | PTuple (PStr _ :: l :: _) => Ok l
  | _ => Err (Raised "AttributeError" PNone)
  end.
