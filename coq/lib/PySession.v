(* Python semantics used by the code generated from poorwsgi/session.py class
   PoorSession (harness/py2v_session.py -> gen/SessionGen.v).  Part of the
   trusted base of this translator tie.

   * A Python value is an [sv]:
       SStr s     a str (code points);  SBytes b   bytes / bytearray;
       SB64 r     the bytes returned by b64encode whose .decode() is the str r
                  (the model's codec gives b64encode(..).decode() as one step);
       SInt, SBool, SNone;
       SObj j     an object json works with (self.data);  the str returned by
                  json.dumps is kept as its utf-8 bytes (hidden() encodes it
                  first thing; tied separately, C13_generated_hidden_is_model);
       SCk e      a SimpleCookie whose entry for the session id is [e]
                  (None: no such name; Some raw: cookies[sid].value = raw);
       SOther t   an object of any other class, truthy iff [t] (a Headers
                  object is falsy while it has no header);
       SOutput v a  the text self.cookie.output() of the one-morsel cookie,
                  SLine v a  its one line "Set-Cookie: <sid>=v; a",
                  SCookieText v a  that line without "Set-Cookie: " -- [v] the
                  cookie value, [a] the attributes as the model's [render]
                  gives them (the text itself is not modelled);
       SList / STuple  a list / tuple.
   * The object is the model's [state J] (private __expires, __max_age, data,
     the morsel self.cookie[sid]); the constructor arguments that are never
     reassigned are the model's [config].  A method is a computation [M A]:
     context and state in, state afterwards and result or exception out (also
     when the method raises, so "what is stored when an exception leaves" is
     part of the meaning).
   * Primitives taken from the model's [codec] record (not translated):
     json.dumps / loads, cps.compress(.., 9) / decompress, b64encode(+decode),
     b64decode(str.encode()), isinstance(.., dict); hidden(.., secret_key) is
     model [hidden K]; Morsel.__setitem__ is [morsel_set] (key lower-cased,
     table below).
   * Operations are total; on operand kinds the translated code never meets
     the result is [RErr XType] (unmodelled, not a claim about CPython). *)
From Coq Require Import ZArith List Bool String Ascii.
Require Import PW.lib.Val PW.model.Session.
Import ListNotations.
Open Scope string_scope.
Open Scope list_scope.
Open Scope Z_scope.

Inductive exn :=
  | XSession (msg : list Z)     (* SessionError(msg) *)
  | XOther                      (* what a codec raises *)
  | XCookie                     (* http.cookies.CookieError: unknown attribute *)
  | XKey                        (* KeyError *)
  | XType.                      (* TypeError / unmodelled operand kind *)

(* the model's names of the exceptions (messages are not modelled) *)
Definition exn_name (e : exn) : string :=
  match e with
  | XSession _ => SessionError
  | XOther => OtherError
  | XCookie => "CookieError"
  | XKey => "KeyError"
  | XType => "TypeError"
  end.

Inductive res (A : Type) := ROk (a : A) | RErr (e : exn).
Arguments ROk {A} a.
Arguments RErr {A} e.

(* exception classes that may be named in an except clause *)
Inductive exnclass := EBaseException | EException | ESessionError.

Definition exn_isa (e : exn) (c : exnclass) : bool :=
  match c, e with
  | EBaseException, _ => true
  | EException, _ => true
  | ESessionError, XSession _ => true
  | ESessionError, _ => false
  end.

(* classes that may be named in isinstance *)
Inductive pyclass := Cstr | Cdict | CSimpleCookie.

(* attributes of self the translated code reads or assigns *)
Inductive field :=
  | Fexpires | Fmax_age | Fdomain | Fpath | Fsecure | Fsame_site | Fdata.

Section PySession.
  Variable J : Type.

  Inductive sv :=
    | SStr (s : list Z)
    | SBytes (b : list Z)
    | SB64 (r : list Z)
    | SInt (z : Z)
    | SBool (b : bool)
    | SNone
    | SObj (j : J)
    | SCk (entry : option (list Z))
    | SOther (t : bool)
    | SOutput (v : list Z) (a : list (aname * aval))
    | SLine (v : list Z) (a : list (aname * aval))
    | SCookieText (v : list Z) (a : list (aname * aval))
    | SList (l : list sv)
    | STuple (l : list sv).

  Record ctx := mkctx { x_K : list Z; x_C : codec J; x_cfg : config }.

  Definition M (A : Type) : Type := ctx -> state J -> state J * res A.

  Definition mret {A} (a : A) : M A := fun _ st => (st, ROk a).
  Definition mraise {A} (e : exn) : M A := fun _ st => (st, RErr e).
  Definition mbind {A B} (m : M A) (k : A -> M B) : M B :=
    fun x st => match m x st with
                | (st', ROk a) => k a x st'
                | (st', RErr e) => (st', RErr e)
                end.
  (* try: m / except c: h   (the state reached when the exception left m
     is what the handler continues with) *)
  Definition mtry {A} (m : M A) (c : exnclass) (h : M A) : M A :=
    fun x st => match m x st with
                | (st', RErr e) => if exn_isa e c then h x st' else (st', RErr e)
                | r => r
                end.
  (* a pure step that reads the context *)
  Definition lift {A} (f : ctx -> res A) : M A := fun x st => (st, f x).

  (* ------------------------------------------------------------ truth *)
  Definition truthy (v : sv) : bool :=
    match v with
    | SStr s | SBytes s | SB64 s => nonempty s
    | SInt z => negb (z =? 0)
    | SBool b => b
    | SNone => false
    | SObj _ => true          (* unmodelled: never tested by the code *)
    | SCk _ => true           (* unmodelled: never tested by the code *)
    | SOther t => t
    | SOutput _ _ | SLine _ _ | SCookieText _ _ => true
    | SList l | STuple l => match l with [] => false | _ => true end
    end.

  Definition p_not (v : sv) : sv := SBool (negb (truthy v)).
  Definition p_is_not_none (v : sv) : sv :=
    SBool (match v with SNone => false | _ => true end).
  Definition p_is_none (v : sv) : sv :=
    SBool (match v with SNone => true | _ => false end).

  Definition p_isinstance (v : sv) (c : pyclass) : M sv :=
    lift (fun x => ROk (SBool
      match c, v with
      | Cstr, SStr _ => true
      | Cdict, SObj j => is_dict (x_C x) j
      | Cdict, SCk _ => true              (* SimpleCookie is a dict *)
      | CSimpleCookie, SCk _ => true
      | _, _ => false
      end)).

  (* ---------------------------------------------------- self.<field> *)
  Definition get_attr (f : field) : M sv :=
    fun x st => (st, ROk
      match f with
      | Fexpires => SInt (s_expires J st)
      | Fmax_age => match s_max_age J st with
                    | Some a => SInt a | None => SNone end
      | Fdomain => SStr (c_domain (x_cfg x))
      | Fpath => SStr (c_path (x_cfg x))
      | Fsecure => SBool (c_secure (x_cfg x))
      | Fsame_site => SStr (c_same_site (x_cfg x))
      | Fdata => SObj (s_data J st)
      end).

  (* self.<field> = v : only __expires, __max_age and data are ever
     assigned after the constructor *)
  Definition set_attr (f : field) (v : sv) : M unit :=
    fun _ st =>
      match f, v with
      | Fexpires, SInt z =>
          (mkstate J z (s_max_age J st) (s_data J st) (s_m J st), ROk tt)
      | Fmax_age, SInt z =>
          (mkstate J (s_expires J st) (Some z) (s_data J st) (s_m J st), ROk tt)
      | Fmax_age, SNone =>
          (mkstate J (s_expires J st) None (s_data J st) (s_m J st), ROk tt)
      | Fdata, SObj j =>
          (mkstate J (s_expires J st) (s_max_age J st) j (s_m J st), ROk tt)
      | _, _ => (st, RErr XType)
      end.

  (* ------------------------------------------ self.cookie[self.__sid] *)
  Definition set_morsel (st : state J) (m : morsel) : state J :=
    mkstate J (s_expires J st) (s_max_age J st) (s_data J st) m.

  (* self.cookie[self.__sid] = v : BaseCookie.__setitem__ keeps the morsel
     (and its attributes) and replaces the value *)
  Definition cookie_set_value (v : sv) : M unit :=
    fun _ st =>
      match v with
      | SStr raw =>
          let m := s_m J st in
          (set_morsel st (mkmorsel raw (m_expires m) (m_max_age m) (m_domain m)
                                   (m_path m) (m_secure m) (m_httponly m)
                                   (m_samesite m)), ROk tt)
      | _ => (st, RErr XType)
      end.

  Definition lower_ascii (c : ascii) : ascii :=
    let n := N_of_ascii c in
    if (N.leb 65 n && N.leb n 90)%bool then ascii_of_N (n + 32) else c.
  Fixpoint lower (s : string) : string :=
    match s with
    | EmptyString => EmptyString
    | String c s' => String (lower_ascii c) (lower s')
    end.

  (* Morsel.__setitem__(K, V): K = K.lower(); unknown K: CookieError.
     TRUSTED TABLE: reserved key -> field of the model's morsel *)
  Definition morsel_put (key : string) (v : sv) (m : morsel) : res morsel :=
    let k := lower key in
    if String.eqb k "httponly" then
      match v with
      | SBool b => ROk (mkmorsel (m_value m) (m_expires m) (m_max_age m)
                                 (m_domain m) (m_path m) (m_secure m) b
                                 (m_samesite m))
      | _ => RErr XType end
    else if String.eqb k "domain" then
      match v with
      | SStr s => ROk (mkmorsel (m_value m) (m_expires m) (m_max_age m)
                                s (m_path m) (m_secure m) (m_httponly m)
                                (m_samesite m))
      | _ => RErr XType end
    else if String.eqb k "path" then
      match v with
      | SStr s => ROk (mkmorsel (m_value m) (m_expires m) (m_max_age m)
                                (m_domain m) s (m_secure m) (m_httponly m)
                                (m_samesite m))
      | _ => RErr XType end
    else if String.eqb k "secure" then
      match v with
      | SBool b => ROk (mkmorsel (m_value m) (m_expires m) (m_max_age m)
                                 (m_domain m) (m_path m) b (m_httponly m)
                                 (m_samesite m))
      | _ => RErr XType end
    else if String.eqb k "samesite" then
      match v with
      | SStr s => ROk (mkmorsel (m_value m) (m_expires m) (m_max_age m)
                                (m_domain m) (m_path m) (m_secure m)
                                (m_httponly m) s)
      | _ => RErr XType end
    else if String.eqb k "expires" then
      match v with
      | SInt z => ROk (mkmorsel (m_value m) (Some z) (m_max_age m)
                                (m_domain m) (m_path m) (m_secure m)
                                (m_httponly m) (m_samesite m))
      | _ => RErr XType end
    else if String.eqb k "max-age" then
      match v with
      | SInt z => ROk (mkmorsel (m_value m) (m_expires m) (Some z)
                                (m_domain m) (m_path m) (m_secure m)
                                (m_httponly m) (m_samesite m))
      | _ => RErr XType end
    else RErr XCookie.

  (* self.cookie[self.__sid][key] = v *)
  Definition morsel_set (key : string) (v : sv) : M unit :=
    fun _ st =>
      match morsel_put key v (s_m J st) with
      | ROk m => (set_morsel st m, ROk tt)
      | RErr e => (st, RErr e)
      end.

  (* ---------------------------------------------------- the pipeline *)
  Definition of_opt (o : option (list Z)) (f : list Z -> sv) : res sv :=
    match o with Some b => ROk (f b) | None => RErr XOther end.

  (* json.dumps(v) *)
  Definition p_dumps (v : sv) : M sv :=
    lift (fun x => match v with
                   | SObj j => of_opt (dumps (x_C x) j) SBytes
                   | _ => RErr XType end).
  (* json.loads(v) *)
  Definition p_loads (v : sv) : M sv :=
    lift (fun x => match v with
                   | SBytes b => match loads (x_C x) b with
                                 | Some j => ROk (SObj j)
                                 | None => RErr XOther end
                   | _ => RErr XType end).
  (* hidden(v, self.__secret_key) *)
  Definition p_hidden (v : sv) : M sv :=
    lift (fun x => match v with
                   | SBytes b => ROk (SBytes (hidden (x_K x) b))
                   | _ => RErr XType end).
  (* self.__cps.compress(v, level): the model's codec is compress(.., 9) *)
  Definition p_compress (v level : sv) : M sv :=
    lift (fun x => match v, level with
                   | SBytes b, SInt 9 => of_opt (compress (x_C x) b) SBytes
                   | _, _ => RErr XType end).
  (* self.__cps.decompress(v) *)
  Definition p_decompress (v : sv) : M sv :=
    lift (fun x => match v with
                   | SBytes b => of_opt (decompress (x_C x) b) SBytes
                   | _ => RErr XType end).
  (* b64encode(v) *)
  Definition p_b64encode (v : sv) : M sv :=
    lift (fun x => match v with
                   | SBytes b => of_opt (b64 (x_C x) b) SB64
                   | _ => RErr XType end).
  (* v.decode() *)
  Definition p_decode (v : sv) : M sv :=
    lift (fun _ => match v with
                   | SB64 r => ROk (SStr r)
                   | _ => RErr XType end).
  (* b64decode(v.encode()) *)
  Definition p_b64decode_encode (v : sv) : M sv :=
    lift (fun x => match v with
                   | SStr r => of_opt (unb64 (x_C x) r) SBytes
                   | _ => RErr XType end).

  (* -------------------------------------------------- the cookies arg *)
  (* self.__sid not in v *)
  Definition p_sid_not_in (v : sv) : M sv :=
    lift (fun _ => match v with
                   | SCk (Some _) => ROk (SBool false)
                   | SCk None => ROk (SBool true)
                   | _ => RErr XType end).
  (* self.__sid in v *)
  Definition p_sid_in (v : sv) : M sv :=
    lift (fun _ => match v with
                   | SCk (Some _) => ROk (SBool true)
                   | SCk None => ROk (SBool false)
                   | _ => RErr XType end).
  (* v[self.__sid].value *)
  Definition p_cookie_value (v : sv) : M sv :=
    lift (fun _ => match v with
                   | SCk (Some raw) => ROk (SStr raw)
                   | SCk None => RErr XKey
                   | _ => RErr XType end).

  (* ------------------------------------------------- rendering (header) *)
  (* self.cookie.output(): the one morsel as the model renders it *)
  Definition p_output : M sv :=
    fun _ st => (st, ROk (SOutput (m_value (s_m J st)) (render (s_m J st)))).
  (* v.split(sep).  TRUSTED: the output of a one-morsel cookie is one line
     "Set-Cookie: ..." without CR LF in it (other separators unmodelled) *)
  Definition p_split (v sep : sv) : M sv :=
    lift (fun _ => match v, sep with
                   | SOutput c a, SStr [13; 10] => ROk (SList [SLine c a])
                   | _, _ => RErr XType end).
  (* v[lo:hi].  TRUSTED: the line is "Set-Cookie" ++ ": " ++ text, so
     line[:10] = "Set-Cookie" and line[12:] = text (other bounds unmodelled) *)
  Definition set_cookie : list Z := [83;101;116;45;67;111;111;107;105;101].
  Definition p_slice (v : sv) (lo hi : option Z) : M sv :=
    lift (fun _ => match v, lo, hi with
                   | SLine c a, None, Some 10 => ROk (SStr set_cookie)
                   | SLine c a, Some 12, None => ROk (SCookieText c a)
                   | _, _, _ => RErr XType end).
  (* l.append(v), as the new value of the local l *)
  Definition p_append (l v : sv) : M sv :=
    lift (fun _ => match l with
                   | SList items => ROk (SList (items ++ [v]))
                   | _ => RErr XType end).
  (* h.add_header(a, b) on the caller's Headers / Response object: that
     object is outside the model's state, the effect is not modelled *)
  Definition p_add_header (h a b : sv) : M unit :=
    lift (fun _ => match h with
                   | SOther _ => ROk tt
                   | _ => RErr XType end).

  (* for item in it: carried = body item carried *)
  Fixpoint mfold (l : list sv) (body : sv -> list sv -> M (list sv))
           (carried : list sv) : M (list sv) :=
    match l with
    | [] => mret carried
    | item :: l' => mbind (body item carried) (mfold l' body)
    end.
  Definition mfor (it : sv) (body : sv -> list sv -> M (list sv))
             (carried : list sv) : M (list sv) :=
    match it with
    | SList l | STuple l => mfold l body carried
    | _ => mraise XType
    end.
  (* the i-th carried local *)
  Definition cnth (c : list sv) (i : nat) : sv := nth i c SNone.
End PySession.

Arguments SStr {J} s.
Arguments SBytes {J} b.
Arguments SB64 {J} r.
Arguments SInt {J} z.
Arguments SBool {J} b.
Arguments SNone {J}.
Arguments SObj {J} j.
Arguments SCk {J} entry.
Arguments SOther {J} t.
Arguments SOutput {J} v a.
Arguments SLine {J} v a.
Arguments SCookieText {J} v a.
Arguments SList {J} l.
Arguments STuple {J} l.
Arguments mkctx {J} _ _ _.
Arguments x_K {J} c.
Arguments x_C {J} c.
Arguments x_cfg {J} c.
Arguments mret {J A} a.
Arguments mraise {J A} e.
Arguments mbind {J A B} m k.
Arguments mtry {J A} m c h.
Arguments lift {J A} f.
Arguments truthy {J} v.
Arguments p_not {J} v.
Arguments p_is_not_none {J} v.
Arguments p_is_none {J} v.
Arguments p_isinstance {J} v c.
Arguments get_attr {J} f.
Arguments set_attr {J} f v.
Arguments set_morsel {J} st m.
Arguments cookie_set_value {J} v.
Arguments morsel_put {J} key v m.
Arguments morsel_set {J} key v.
Arguments of_opt {J} o f.
Arguments p_dumps {J} v.
Arguments p_loads {J} v.
Arguments p_hidden {J} v.
Arguments p_compress {J} v level.
Arguments p_decompress {J} v.
Arguments p_b64encode {J} v.
Arguments p_decode {J} v.
Arguments p_b64decode_encode {J} v.
Arguments p_sid_not_in {J} v.
Arguments p_sid_in {J} v.
Arguments p_cookie_value {J} v.
Arguments p_output {J}.
Arguments p_split {J} v sep.
Arguments p_slice {J} v lo hi.
Arguments p_append {J} l v.
Arguments p_add_header {J} h a b.
Arguments mfold {J} l body carried.
Arguments mfor {J} it body carried.
Arguments cnth {J} c i.

(* imported by the generated file only (lib/Py.v has the same notation) *)
Module SessionNotations.
  Notation "x <- m ;; k" := (mbind m (fun x => k))
    (at level 61, m at next level, right associativity).
End SessionNotations.
