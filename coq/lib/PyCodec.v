(* Python operations used by the code translated by harness/py2v_codec.py
   (headers.parse_range, ContentRange, parse_negotiation, render_negotiation,
   time_to_http / http_to_time and their datetime variants).  Same
   conventions as lib/Py.v and lib/PyParam.v: a str is [PStr] of its code
   points, a dict is the [PList] of its (key, value) [PTuple]s, total
   functions, a Python exception is [Err].  Part of the trusted base of the
   translator tie.

   Primitives of the hand model (model/HeaderCodec.v) that stay primitives
   here, each guarded by the text the source must give for it:
   * the scanner of RE_BYTES_RANGE ([HeaderCodec.findall]) -- only for the
     pattern text [re_bytes_range];
   * strftime / strptime ([HeaderCodec.time_to_http] / [http_to_time]) --
     only for the format text [http_date_format] and the zone timezone.utc.
   Any other pattern / format / zone is the error "Unmodelled...", so a
   generated definition that uses one cannot be proved equal to the model.
   float(), str() of a float, float literals and the clock are Section
   variables of the generated file. *)
From Coq Require Import ZArith List Bool String.
Require Import PW.lib.Val PW.lib.Dec PW.lib.Py PW.lib.PyParam.
Require PW.model.HeaderCodec.
Import ListNotations.
Open Scope string_scope.
Open Scope list_scope.
Open Scope Z_scope.

(* ---- try / except: the class name of an exception; `except (A, B)` takes
   the listed names exactly (none of the names used is a subclass of another) *)
Definition exc_name (e : perr) : string :=
  match e with
  | TypeError => "TypeError"
  | ZeroDivisionError => "ZeroDivisionError"
  | ValueError => "ValueError"
  | IndexError => "IndexError"
  | Raised cls _ => cls
  end.
Definition exc_in (e : perr) (names : list string) : bool :=
  existsb (String.eqb (exc_name e)) names.
Definition ptry (body : res pv) (handlers : perr -> res pv) : res pv :=
  match body with
  | Ok v => Ok v
  | Err e => handlers e
  end.
Definition unmodelled (what : string) : res pv :=
  Err (Raised ("Unmodelled" ++ what) PNone).

(* ---- s.split(sep) for a non-empty separator: the non-overlapping
   occurrences found from the left; [skip] counts the characters of a matched
   separator still to be passed over.  Never the empty list. *)
Fixpoint split_go (sep : list Z) (skip : nat) (s : list Z) : list (list Z) :=
  match s with
  | [] => [[]]
  | c :: r =>
      match skip with
      | S k => split_go sep k r
      | O => if is_prefix sep s
             then [] :: split_go sep (List.length sep - 1) r
             else match split_go sep O r with
                  | h :: t => (c :: h) :: t
                  | [] => [[c]]
                  end
      end
  end.
Definition psplit (a sep : pv) : res pv :=
  match a, sep with
  | PStr _, PStr [] => Err ValueError                 (* empty separator *)
  | PStr s, PStr p => Ok (PList (map PStr (split_go p O s)))
  | _, _ => Err TypeError
  end.

(* ---- sep.join(x) for a list / tuple of str *)
Fixpoint str_join (sep : list Z) (l : list (list Z)) : list Z :=
  match l with
  | [] => []
  | x :: t => match t with [] => x | _ :: _ => x ++ sep ++ str_join sep t end
  end.
Fixpoint all_str (l : list pv) : option (list (list Z)) :=
  match l with
  | [] => Some []
  | PStr s :: t => match all_str t with Some r => Some (s :: r) | None => None end
  | _ :: _ => None
  end.
Definition pjoin (sep x : pv) : res pv :=
  match sep, x with
  | PStr p, PList l | PStr p, PTuple l =>
      match all_str l with
      | Some ss => Ok (PStr (str_join p ss))
      | None => Err TypeError
      end
  | _, _ => Err TypeError
  end.

(* ---- map(f, x) consumed at once (by join) *)
Fixpoint map_res (f : pv -> res pv) (l : list pv) : res (list pv) :=
  match l with
  | [] => Ok []
  | x :: t => y <- f x ;; r <- map_res f t ;; Ok (y :: r)
  end.
Definition pmap (f : pv -> res pv) (x : pv) : res pv :=
  l <- piter x ;; r <- map_res f l ;; Ok (PList r).

(* ---- int(x): of a str only for a non-empty run of ASCII digits (all the
   translated code passes), ValueError above CPython's digit limit; any other
   str is outside the modelled domain; of a number as in lib/Py.v *)
Definition cint (a : pv) : res pv :=
  match a with
  | PStr s =>
      if forallb is_digit s && negb (HeaderCodec.is_nil s) then
        if HeaderCodec.max_str_digits <? HeaderCodec.len s
        then Err ValueError else Ok (PInt (val s))
      else unmodelled "IntText"
  | _ => pint a
  end.

(* ---- RE.findall(s) for a compiled pattern with two groups: the list of
   (group 1, group 2) tuples *)
Definition re_bytes_range : list Z := s2l "(\d*)-(\d*),?".
Definition pfindall (pat s : pv) : res pv :=
  match pat, s with
  | PStr p, PStr t =>
      if lz_eqb p re_bytes_range
      then Ok (PList (map (fun m => PTuple [PStr (fst m); PStr (snd m)])
                          (HeaderCodec.findall t)))
      else unmodelled "Pattern"
  | _, _ => Err TypeError
  end.

(* ---- datetime: an aware datetime in UTC / a naive datetime, both without
   microseconds, as the POSIX second their fields denote in UTC *)
Definition http_date_format : list Z := s2l "%a, %d %b %Y %X GMT".
Definition putc : pv := PTuple [PStr (s2l "timezone.utc")].
Definition dt_aware (t : Z) : pv := PTuple [PStr (s2l "datetime+utc"); PInt t].
Definition dt_naive (t : Z) : pv := PTuple [PStr (s2l "datetime"); PInt t].
Definition exc_of {A} (e : string) : res A := Err (Raised e PNone).

(* datetime.fromtimestamp(t, tz) *)
Definition pfromtimestamp (a tz : pv) : res pv :=
  if pv_eqb tz putc then
    match a with
    | PInt t => if (HeaderCodec.max_time <=? t) || (t <? HeaderCodec.min_time)
                then exc_of "ValueError" else Ok (dt_aware t)
    | _ => Err TypeError
    end
  else unmodelled "Timezone".
(* datetime.now(tz): the clock is a variable of the generated file *)
Definition pnow (now tz : pv) : res pv :=
  if pv_eqb tz putc then Ok now else unmodelled "Timezone".
(* d.strftime(fmt) *)
Definition pstrftime (d fmt : pv) : res pv :=
  match d, fmt with
  | PTuple [PStr _; PInt t], PStr f =>
      if (pv_eqb d (dt_aware t) || pv_eqb d (dt_naive t)) &&
         lz_eqb f http_date_format then
        match HeaderCodec.time_to_http t with
        | HeaderCodec.Ok s => Ok (PStr s)
        | HeaderCodec.Raised e => exc_of e
        end
      else unmodelled "Format"
  | _, _ => Err TypeError
  end.
(* datetime.strptime(s, fmt): a naive datetime *)
Definition pstrptime (s fmt : pv) : res pv :=
  match s, fmt with
  | PStr x, PStr f =>
      if lz_eqb f http_date_format then
        match HeaderCodec.http_to_time x with
        | HeaderCodec.Ok t => Ok (dt_naive t)
        | HeaderCodec.Raised e => exc_of e
        end
      else unmodelled "Format"
  | _, _ => Err TypeError
  end.
(* d.replace(tzinfo=tz) *)
Definition preplace_tzinfo (d tz : pv) : res pv :=
  match d with
  | PTuple [PStr _; PInt t] =>
      if pv_eqb d (dt_aware t) || pv_eqb d (dt_naive t) then
        if pv_eqb tz putc then Ok (dt_aware t) else unmodelled "Timezone"
      else Err TypeError
  | _ => Err TypeError
  end.
(* d.timestamp(): a float, integral here; of a naive datetime it depends on
   the local time zone, which is not modelled *)
Definition ptimestamp (d : pv) : res pv :=
  match d with
  | PTuple [PStr _; PInt t] =>
      if pv_eqb d (dt_aware t) then Ok (PRat t 1)
      else if pv_eqb d (dt_naive t) then unmodelled "LocalTime"
      else Err TypeError
  | _ => Err TypeError
  end.
