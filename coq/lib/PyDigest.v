(* Python semantics used by the code generated from poorwsgi/digest.py
   (harness/py2v_digest.py -> gen/DigestGen.v), on top of lib/Py.v:
   dictionaries, the str methods partition / split(sep, 1) / endswith,
   substring test, str.format over a dict, hash / unquote calls through Section
   variables, try/except.  Like lib/Py.v it is part of the trusted base of
   the translator tie.  Everything is total: a Python exception is [Err].

   A dict is the tagged value [PDict items], items = [PTuple [k; v]; ...],
   newest entry first: d[k] = v prepends, lookup returns the first hit
   (last assignment wins).  Iteration order / len of a dict are not
   modelled (the translator refuses for/while/len).

   This file must be imported AFTER lib/Py.v: it redefines [truthy], [pnot],
   [peq], [pne] so that the tagged dict value is treated as a dict ({} is
   falsy; comparing dicts is outside the model and is an error). *)
From Coq Require Import ZArith List Bool String.
Require Import PW.lib.Val PW.lib.Dec PW.lib.Py.
Import ListNotations.
Open Scope string_scope.
Open Scope list_scope.
Open Scope Z_scope.

(* ----------------------------------------------------------------- dict *)
Definition dict_tag : list Z := [60;100;105;99;116;62].        (* <dict> *)
Definition PDict (items : list pv) : pv := PTuple [PBytes dict_tag; PList items].
Definition as_dict (v : pv) : option (list pv) :=
  match v with
  | PTuple [PBytes t; PList items] =>
      if lz_eqb t dict_tag then Some items else None
  | _ => None
  end.

Fixpoint items_get (k : pv) (items : list pv) : option pv :=
  match items with
  | [] => None
  | PTuple [k'; v] :: r => if pv_eqb k k' then Some v else items_get k r
  | _ :: r => items_get k r
  end.

Definition attr_error : perr := Raised "AttributeError" PNone.

(* d.copy() *)
Definition pdict_copy (d : pv) : res pv :=
  match as_dict d with
  | Some items => Ok (PDict items)
  | None => Err attr_error
  end.
(* d[k] = v *)
Definition pdict_set (d k v : pv) : res pv :=
  match as_dict d with
  | Some items => Ok (PDict (PTuple [k; v] :: items))
  | None => Err TypeError
  end.
(* d.get(k, default) *)
Definition pdict_get (d k dflt : pv) : res pv :=
  match as_dict d with
  | Some items => Ok (match items_get k items with Some v => v | None => dflt end)
  | None => Err attr_error
  end.
(* v[k]: KeyError on a dict, constant non-negative index on list/tuple *)
Definition pgetitem (v k : pv) : res pv :=
  match as_dict v with
  | Some items =>
      match items_get k items with
      | Some x => Ok x
      | None => Err (Raised "KeyError" k)
      end
  | None =>
      match k with
      | PInt i => pindex v i
      | _ => Err TypeError
      end
  end.

(* ------------------------------------------------------------------ str *)
(* first occurrence of [sub] in [s]: (text before, text after) *)
Fixpoint find_sub (sub s : list Z) {struct s} : option (list Z * list Z) :=
  if is_prefix sub s then Some ([], skipn (List.length sub) s)
  else match s with
       | [] => None
       | c :: s' =>
           match find_sub sub s' with
           | Some (a, b) => Some (c :: a, b)
           | None => None
           end
       end.

(* x in c / x not in c *)
Definition pcontains (x c : pv) : res pv :=
  match as_dict c with
  | Some items =>
      Ok (PBool match items_get x items with Some _ => true | None => false end)
  | None =>
      match c with
      | PStr s =>
          match x with
          | PStr sub =>
              Ok (PBool match find_sub sub s with Some _ => true | None => false end)
          | _ => Err TypeError
          end
      | PList l | PTuple l => Ok (PBool (existsb (pv_eqb x) l))
      | _ => Err TypeError
      end
  end.

(* s.endswith(suffix) *)
Definition pendswith (s suf : pv) : res pv :=
  match s with
  | PStr a =>
      match suf with
      | PStr b => Ok (PBool (is_prefix (rev b) (rev a)))
      | _ => Err TypeError
      end
  | _ => Err attr_error
  end.
(* s.partition(sep) *)
Definition ppartition (s sep : pv) : res pv :=
  match s with
  | PStr a =>
      match sep with
      | PStr [] => Err ValueError
      | PStr b =>
          match find_sub b a with
          | Some (h, t) => Ok (PTuple [PStr h; PStr b; PStr t])
          | None => Ok (PTuple [PStr a; PStr []; PStr []])
          end
      | _ => Err TypeError
      end
  | _ => Err attr_error
  end.
(* s.split(sep, 1) *)
Definition psplit1 (s sep : pv) : res pv :=
  match s with
  | PStr a =>
      match sep with
      | PStr [] => Err ValueError
      | PStr b =>
          match find_sub b a with
          | Some (h, t) => Ok (PList [PStr h; PStr t])
          | None => Ok (PList [PStr a])
          end
      | _ => Err TypeError
      end
  | _ => Err attr_error
  end.

(* a, b, c = v *)
Definition punpack3 (v : pv) : res (pv * pv * pv) :=
  match as_dict v with
  | Some _ => Err ValueError
  | None =>
      match v with
      | PTuple [a; b; c] | PList [a; b; c] => Ok (a, b, c)
      | PTuple _ | PList _ => Err ValueError
      | _ => Err TypeError
      end
  end.

(* H(text.encode()).hexdigest() and f(text) for an external str -> str *)
Definition phash (H : list Z -> list Z) (text : pv) : res pv :=
  match text with
  | PStr s => Ok (PStr (H s))
  | _ => Err attr_error
  end.
Definition pstrfun (f : list Z -> list Z) (text : pv) : res pv :=
  match text with
  | PStr s => Ok (PStr (f s))
  | _ => Err TypeError
  end.

(* str.format with the dict as keyword arguments: pieces left to right,
   KeyError at the first missing name *)
Inductive fpiece := FLit (s : list Z) | FField (name : list Z).
Definition fmt_value (v : pv) : res (list Z) :=
  match v with
  | PStr _ | PInt _ | PNone | PBool _ => Ok (pstr v)
  | _ => Err TypeError
  end.
Fixpoint format_go (ps : list fpiece) (items : list pv) : res (list Z) :=
  match ps with
  | [] => Ok []
  | FLit s :: r => t <- format_go r items ;; Ok (s ++ t)
  | FField n :: r =>
      match items_get (PStr n) items with
      | None => Err (Raised "KeyError" (PStr n))
      | Some v => s <- fmt_value v ;; t <- format_go r items ;; Ok (s ++ t)
      end
  end.
Definition pformat_kw (ps : list fpiece) (d : pv) : res pv :=
  match as_dict d with
  | Some items => s <- format_go ps items ;; Ok (PStr s)
  | None => Err TypeError
  end.

(* `return fun(req)` in the request gate: the endpoint runs, with req.user *)
Definition endpoint_tag : list Z := [60;114;117;110;62].         (* <run> *)
Definition pcall_endpoint (user : pv) : res pv :=
  Ok (PTuple [PBytes endpoint_tag; user]).

(* ----------------------------------------------------------- try/except *)
Inductive completion := Returned (v : pv) | Fell.
Definition ptry (body : res completion) (handler : perr -> res pv)
           (after : unit -> res pv) : res pv :=
  match body with
  | Ok (Returned v) => Ok v
  | Ok Fell => after tt
  | Err e => handler e
  end.
(* `except cls`: exact class only (KeyError has no subclass that the
   translated code can raise) *)
Definition exn_is (cls : string) (e : perr) : bool :=
  match e with
  | Raised c _ => String.eqb c cls
  | TypeError => String.eqb cls "TypeError"
  | ZeroDivisionError => String.eqb cls "ZeroDivisionError"
  | ValueError => String.eqb cls "ValueError"
  | IndexError => String.eqb cls "IndexError"
  end.
Definition exn_value (e : perr) : pv :=
  match e with Raised _ a => a | _ => PNone end.

(* ------------------------------------------- dict-aware truthiness, ==, != *)
Definition truthy (v : pv) : bool :=
  match as_dict v with
  | Some items => match items with [] => false | _ => true end
  | None => Py.truthy v
  end.
Definition pnot (a : pv) : res pv := Ok (PBool (negb (truthy a))).
Definition peq (a b : pv) : res pv :=
  match as_dict a, as_dict b with
  | None, None => Py.peq a b
  | _, _ => Err TypeError
  end.
Definition pne (a b : pv) : res pv :=
  match as_dict a, as_dict b with
  | None, None => Py.pne a b
  | _, _ => Err TypeError
  end.
Definition pnot_contains (x c : pv) : res pv :=
  b <- pcontains x c ;; pnot b.
