From Coq Require Import ZArith List Bool Lia String.
Require Import PW.lib.Val PW.lib.ValFacts PW.lib.Dec PW.model.HeaderCodec.
Import ListNotations.
Open Scope string_scope.
Open Scope list_scope.
Open Scope Z_scope.

Ltac Zify.zify_post_hook ::= Z.to_euclidean_division_equations.

(* ------------------------------------------------------------ outcomes *)
(* the only exception an outcome can carry is [name] *)
Definition only {A} (name : string) (o : outcome A) : Prop :=
  match o with Ok _ => True | Raised e => e = name end.

Lemma only_bind {A B} name (o : outcome A) (f : A -> outcome B) :
  only name o -> (forall a, only name (f a)) -> only name (bind o f).
Proof. destruct o; cbn; auto. Qed.

(* ------------------------------------------------------- str primitives *)
Lemma split_on_nonempty sep s : split_on sep s <> [].
Proof.
  destruct s as [|c r]; cbn [split_on]; [discriminate|].
  destruct (c =? sep); [discriminate|].
  destruct (split_on sep r); discriminate.
Qed.

Lemma split_on_nosep sep s : ~ In sep s -> split_on sep s = [s].
Proof.
  induction s as [|c r IH]; intros H; cbn [split_on]; [reflexivity|].
  destruct (c =? sep) eqn:E.
  - apply Z.eqb_eq in E. exfalso. apply H. left. auto.
  - rewrite IH; [reflexivity|]. intros I. apply H. right. exact I.
Qed.

Lemma split_on_app sep a b :
  ~ In sep a -> split_on sep (a ++ sep :: b) = a :: split_on sep b.
Proof.
  induction a as [|c r IH]; intros H; cbn [split_on app].
  - rewrite Z.eqb_refl. reflexivity.
  - destruct (c =? sep) eqn:E.
    + apply Z.eqb_eq in E. exfalso. apply H. left. auto.
    + rewrite IH; [reflexivity|]. intros I. apply H. right. exact I.
Qed.

Lemma join_cons2 sep x y t : join sep (x :: y :: t) = x ++ sep ++ join sep (y :: t).
Proof. reflexivity. Qed.

(* ================================================================ Part 1 *)
Definition nodigit_head (r : list Z) : Prop :=
  match r with [] => True | c :: _ => is_digit c = false end.

Lemma span_digits_app d r :
  forallb is_digit d = true -> nodigit_head r -> span_digits (d ++ r) = (d, r).
Proof.
  induction d as [|c d IH]; intros Hd Hr; cbn [app].
  - destruct r as [|c r]; [reflexivity|]. cbn [span_digits].
    cbn [nodigit_head] in Hr. rewrite Hr. reflexivity.
  - cbn [forallb] in Hd. apply andb_true_iff in Hd as [Hc Hd].
    cbn [span_digits]. rewrite Hc, IH by assumption. reflexivity.
Qed.

Definition drop_comma (r : list Z) : list Z :=
  match r with c :: r' => if c =? 44 then r' else r | [] => r end.

Lemma match_at_item a b rest :
  forallb is_digit a = true -> forallb is_digit b = true -> nodigit_head rest ->
  match_at (a ++ 45 :: b ++ rest) = Some ((a, b), drop_comma rest).
Proof.
  intros Ha Hb Hr. unfold match_at.
  rewrite (span_digits_app a (45 :: b ++ rest)) by (auto; reflexivity).
  rewrite Z.eqb_refl. rewrite (span_digits_app b rest) by assumption.
  reflexivity.
Qed.

Definition groups (r : range_t) : list Z * list Z :=
  (opt_dec (fst r), opt_dec (snd r)).

Lemma int_ok_nonneg n : int_ok n -> 0 <= n.
Proof. unfold int_ok. lia. Qed.

Lemma opt_dec_digits o :
  match o with Some n => 0 <= n | None => True end ->
  forallb is_digit (opt_dec o) = true.
Proof.
  destruct o as [n|]; intros H; cbn [opt_dec]; [|reflexivity].
  apply dec_digits. exact H.
Qed.

Lemma wf_digits r : wf_range r ->
  forallb is_digit (opt_dec (fst r)) = true /\
  forallb is_digit (opt_dec (snd r)) = true.
Proof.
  destruct r as [[a|] [b|]]; cbn [wf_range fst snd]; intros H;
    split; apply opt_dec_digits; try exact I;
    try (apply int_ok_nonneg; tauto).
Qed.

Lemma render_item_shape r :
  render_item r = opt_dec (fst r) ++ 45 :: opt_dec (snd r).
Proof. reflexivity. Qed.

Lemma findall_join rs : Forall wf_range rs -> forall fuel,
  Nat.lt (List.length (join [44] (map render_item rs))) fuel ->
  findall_fuel fuel (join [44] (map render_item rs)) = map groups rs.
Proof.
  induction rs as [|r rs IH]; intros Hwf fuel Hf.
  - destruct fuel as [|f]; [inversion Hf|]. reflexivity.
  - inversion Hwf as [|r' rs' Hr Hrs]; subst.
    destruct (wf_digits r Hr) as [Ha Hb].
    destruct fuel as [|f]; [inversion Hf|].
    destruct rs as [|r2 rs2].
    + cbn [map join] in Hf |- *. rewrite (render_item_shape r) in Hf |- *.
      cbn [findall_fuel].
      rewrite <- (app_nil_r (opt_dec (snd r))).
      rewrite match_at_item by (auto; exact I).
      cbn [drop_comma map]. unfold groups at 1. f_equal.
      destruct f as [|f'].
      * rewrite app_length in Hf. cbn [List.length] in Hf.
        unfold Nat.lt in *. lia.
      * reflexivity.
    + cbn [map] in Hf |- *. rewrite join_cons2 in Hf |- *.
      rewrite (render_item_shape r) in Hf |- *.
      cbn [findall_fuel].
      replace ((opt_dec (fst r) ++ 45 :: opt_dec (snd r)) ++ [44] ++
               join [44] (render_item r2 :: map render_item rs2))
        with (opt_dec (fst r) ++ 45 :: opt_dec (snd r) ++ 44 ::
              join [44] (render_item r2 :: map render_item rs2))
        by (rewrite <- !app_assoc; reflexivity).
      rewrite match_at_item by (auto; reflexivity).
      cbn [drop_comma]. rewrite Z.eqb_refl.
      unfold groups at 1. f_equal.
      apply (IH Hrs f).
      rewrite !app_length in Hf. cbn [List.length] in Hf.
      cbn [map]. unfold Nat.lt in *. lia.
Qed.

(* length of a decimal rendering *)
Lemma digits_fuel_len : forall f n acc k,
  0 <= n < 10 ^ k -> 1 <= k ->
  len (digits_fuel f n acc) <= k + len acc.
Proof.
  unfold len.
  induction f as [|f IH]; intros n acc k Hn Hk; cbn [digits_fuel]; [lia|].
  destruct (n <? 10) eqn:E.
  - cbn [List.length]. lia.
  - apply Z.ltb_ge in E.
    assert (Hk2 : 2 <= k).
    { destruct (Z.eq_dec k 1) as [->|]; [|lia]. change (10 ^ 1) with 10 in Hn. lia. }
    assert (Hp : 10 ^ k = 10 * 10 ^ (k - 1)).
    { replace k with (Z.succ (k - 1)) at 1 by lia. apply Z.pow_succ_r. lia. }
    assert (Hd : 0 <= n / 10 < 10 ^ (k - 1)).
    { split; [apply Z.div_pos; lia|]. apply Z.div_lt_upper_bound; lia. }
    specialize (IH (n / 10) ((48 + n mod 10) :: acc) (k - 1) Hd ltac:(lia)).
    cbn [List.length] in IH. lia.
Qed.

Lemma dec_len n k : 0 <= n < 10 ^ k -> 1 <= k -> len (dec n) <= k.
Proof.
  intros Hn Hk. unfold dec.
  replace (n <? 0) with false by (symmetry; apply Z.ltb_ge; lia).
  unfold digits.
  pose proof (digits_fuel_len (S (S (Z.to_nat (Z.log2 n)))) n [] k Hn Hk) as H.
  unfold len in *. cbn [List.length] in H. lia.
Qed.

Lemma opt_int_dec n : int_ok n -> opt_int (dec n) = Ok (Some n).
Proof.
  intros H. pose proof (int_ok_nonneg n H) as Hn.
  destruct (dec_digits n Hn) as [_ Hne].
  unfold opt_int. destruct (dec n) as [|c l] eqn:E; [contradiction|].
  rewrite <- E. unfold int_digits.
  pose proof (dec_len n max_str_digits H ltac:(unfold max_str_digits; lia)) as Hl.
  replace (max_str_digits <? len (dec n)) with false
    by (symmetry; apply Z.ltb_ge; exact Hl).
  cbn [bind]. rewrite val_dec by exact Hn. reflexivity.
Qed.

Lemma build_groups rs : Forall wf_range rs ->
  build_ranges (map groups rs) = Ok rs.
Proof.
  induction rs as [|r rs IH]; intros Hwf; [reflexivity|].
  inversion Hwf as [|r' rs' Hr Hrs]; subst.
  cbn [map build_ranges]. unfold groups at 1. rewrite (IH Hrs).
  destruct r as [[a|] [b|]]; cbn [wf_range fst snd opt_dec] in *.
  - destruct Hr as [Ha Hb].
    destruct (dec_digits a (int_ok_nonneg a Ha)) as [_ Hne].
    destruct (dec a) as [|c l] eqn:E; [contradiction|]. rewrite <- E.
    replace (is_nil (dec a)) with false by (rewrite E; reflexivity).
    cbn [andb]. rewrite !opt_int_dec by assumption. reflexivity.
  - destruct (dec_digits a (int_ok_nonneg a Hr)) as [_ Hne].
    destruct (dec a) as [|c l] eqn:E; [contradiction|]. rewrite <- E.
    replace (is_nil (dec a)) with false by (rewrite E; reflexivity).
    cbn [andb]. rewrite !opt_int_dec by assumption. reflexivity.
  - destruct (dec_digits b (int_ok_nonneg b Hr)) as [_ Hne].
    destruct (dec b) as [|c l] eqn:E; [contradiction|]. rewrite <- E.
    replace (is_nil (dec b)) with false by (rewrite E; reflexivity).
    cbn [is_nil andb]. rewrite !opt_int_dec by assumption. reflexivity.
  - contradiction.
Qed.

Lemma digits_no (c : Z) l :
  forallb is_digit l = true -> is_digit c = false -> ~ In c l.
Proof.
  intros Hl Hc I. rewrite forallb_forall in Hl. rewrite (Hl c I) in Hc.
  discriminate.
Qed.

Lemma body_no_eq rs : Forall wf_range rs ->
  ~ In 61 (join [44] (map render_item rs)).
Proof.
  induction rs as [|r rs IH]; intros Hwf; [intros []|].
  inversion Hwf as [|r' rs' Hr Hrs]; subst.
  destruct (wf_digits r Hr) as [Ha Hb].
  assert (Hi : ~ In 61 (render_item r)).
  { rewrite render_item_shape. intros I. apply in_app_or in I as [I|[I|I]].
    - revert I. apply digits_no; [exact Ha|reflexivity].
    - discriminate I.
    - revert I. apply digits_no; [exact Hb|reflexivity]. }
  destruct rs as [|r2 rs2]; [exact Hi|].
  cbn [map]. rewrite join_cons2. intros I.
  apply in_app_or in I as [I|I]; [exact (Hi I)|].
  cbn [app] in I. destruct I as [I|I]; [discriminate I|].
  exact (IH Hrs I).
Qed.

Theorem range_roundtrip units rs :
  ~ In 61 units -> Forall wf_range rs ->
  parse_range (render_ranges units rs) = Ok [(units, rs)].
Proof.
  intros Hu Hwf. unfold parse_range, parse_range_body, render_ranges.
  cbn [app]. rewrite split_on_app by exact Hu.
  rewrite split_on_nosep by (apply body_no_eq; exact Hwf).
  unfold findall. rewrite findall_join by (auto; lia).
  rewrite build_groups by exact Hwf. reflexivity.
Qed.

(* totality *)
Lemma int_digits_only s : only "ValueError" (int_digits s).
Proof. unfold int_digits. destruct (_ <? _); cbn; auto. Qed.

Lemma opt_int_only s : only "ValueError" (opt_int s).
Proof.
  destruct s; cbn [opt_int]; [exact I|].
  apply only_bind; [apply int_digits_only|intros; exact I].
Qed.

Lemma build_ranges_only ms : only "ValueError" (build_ranges ms).
Proof.
  induction ms as [|[s e] ms IH]; cbn [build_ranges]; [exact I|].
  destruct (is_nil s && is_nil e); [exact IH|].
  apply only_bind; [apply opt_int_only|intros a].
  apply only_bind; [apply opt_int_only|intros b].
  apply only_bind; [exact IH|intros; exact I].
Qed.

Lemma parse_range_body_only s : only "ValueError" (parse_range_body s).
Proof.
  unfold parse_range_body.
  destruct (split_on 61 s) as [|u [|p [|x t]]]; try reflexivity.
  apply only_bind; [apply build_ranges_only|intros; exact I].
Qed.

Theorem parse_range_total s : exists d, parse_range s = Ok d.
Proof.
  unfold parse_range. pose proof (parse_range_body_only s) as H.
  destruct (parse_range_body s) as [d|e]; cbn [catch].
  - exists d. reflexivity.
  - cbn in H. subst e. exists []. reflexivity.
Qed.

Example range_example :
  parse_range (render_ranges (s2l "bytes")
     [(Some 0, Some 499); (Some 9500, None); (None, Some 18446744073709551616)])
  = Ok [(s2l "bytes",
     [(Some 0, Some 499); (Some 9500, None); (None, Some 18446744073709551616)])]
  /\ parse_range (s2l "a=b=c") = Ok []
  /\ parse_range (s2l "x=1-2-3,,4") = Ok [(s2l "x", [(Some 1, Some 2); (None, Some 3)])].
Proof. repeat split; vm_compute; reflexivity. Qed.

(* ================================================================ Part 2 *)
(* year-of-era and day-of-year of a day-of-era *)
Lemma yoe_doy_bounds doe : 0 <= doe < 146097 ->
  let yoe := (doe - doe / 1460 + doe / 36524 - doe / 146096) / 365 in
  let doy := doe - (365 * yoe + yoe / 4 - yoe / 100) in
  0 <= yoe <= 399 /\ 0 <= doy <= 365 /\
  (doy = 365 -> yoe mod 4 = 3 /\ (yoe mod 100 <> 99 \/ yoe = 399)).
Proof. intros H. cbv zeta. lia. Qed.

Ltac civil_setup z :=
  unfold civil_from_days; cbv zeta;
  set (zz := z + 719468);
  set (era := zz / 146097);
  set (doe := zz - era * 146097);
  assert (Hdoe : 0 <= doe < 146097) by (unfold doe, era; lia);
  pose proof (yoe_doy_bounds doe Hdoe) as Hy; cbv zeta in Hy;
  set (yoe := (doe - doe / 1460 + doe / 36524 - doe / 146096) / 365) in *;
  set (doy := doe - (365 * yoe + yoe / 4 - yoe / 100)) in *;
  set (mp := (5 * doy + 2) / 153);
  assert (Hmp : 0 <= mp <= 11) by (unfold mp; lia).

(* the day number of the civil date of a day number: all z *)
Lemma days_civil_days z :
  let '(y, m, d) := civil_from_days z in days_from_civil y m d = z.
Proof.
  civil_setup z. unfold days_from_civil. cbv zeta.
  destruct (mp <? 10) eqn:E1.
  - apply Z.ltb_lt in E1.
    replace (mp + 3 <=? 2) with false by (symmetry; apply Z.leb_gt; lia).
    replace (2 <? mp + 3) with true by (symmetry; apply Z.ltb_lt; lia).
    replace (mp + 3 - 3) with mp by lia.
    replace ((yoe + era * 400) / 400) with era by lia.
    replace (yoe + era * 400 - era * 400) with yoe by lia.
    unfold mp, doy, doe in *; lia.
  - apply Z.ltb_ge in E1.
    replace (mp - 9 <=? 2) with true by (symmetry; apply Z.leb_le; lia).
    replace (2 <? mp - 9) with false by (symmetry; apply Z.ltb_ge; lia).
    replace (mp - 9 + 9) with mp by lia.
    replace (yoe + era * 400 + 1 - 1) with (yoe + era * 400) by lia.
    replace ((yoe + era * 400) / 400) with era by lia.
    replace (yoe + era * 400 - era * 400) with yoe by lia.
    unfold mp, doy, doe in *; lia.
Qed.

Lemma civil_ranges z : 0 <= z < 2932897 ->
  let '(y, m, d) := civil_from_days z in
  1970 <= y <= 9999 /\ 1 <= m <= 12 /\ 1 <= d.
Proof.
  intros Hz. civil_setup z.
  destruct (mp <? 10) eqn:E1; [apply Z.ltb_lt in E1|apply Z.ltb_ge in E1].
  - replace (mp + 3 <=? 2) with false by (symmetry; apply Z.leb_gt; lia).
    unfold mp, doy, yoe, doe, era, zz in *; lia.
  - replace (mp - 9 <=? 2) with true by (symmetry; apply Z.leb_le; lia).
    unfold mp, doy, yoe, doe, era, zz in *; lia.
Qed.

Ltac norm_month :=
  match goal with
  | |- context [days_in_month ?y ?m] =>
      let m' := eval vm_compute in m in change m with m'
  end; unfold days_in_month; cbn [Z.eqb Pos.eqb orb].

Lemma civil_day_ok z :
  let '(y, m, d) := civil_from_days z in d <= days_in_month y m.
Proof.
  civil_setup z.
  clearbody doy. clearbody yoe. clearbody era. clear Hdoe doe zz.
  destruct (mp <? 10) eqn:E1; [apply Z.ltb_lt in E1|apply Z.ltb_ge in E1].
  - replace (mp + 3 <=? 2) with false by (symmetry; apply Z.leb_gt; lia).
    assert (mp = 0 \/ mp = 1 \/ mp = 2 \/ mp = 3 \/ mp = 4 \/ mp = 5 \/
            mp = 6 \/ mp = 7 \/ mp = 8 \/ mp = 9) as Hc by lia.
    destruct Hc as [Hc|[Hc|[Hc|[Hc|[Hc|[Hc|[Hc|[Hc|[Hc|Hc]]]]]]]]];
      rewrite Hc; norm_month; unfold mp in Hc; lia.
  - replace (mp - 9 <=? 2) with true by (symmetry; apply Z.leb_le; lia).
    assert (mp = 10 \/ mp = 11) as Hc by lia.
    destruct Hc as [Hc|Hc]; rewrite Hc; norm_month.
    + unfold mp in Hc. lia.
    + unfold mp in Hc. unfold is_leap.
      destruct ((yoe + era * 400 + 1) mod 4 =? 0) eqn:A; cbn [andb].
      2:{ apply Z.eqb_neq in A. lia. }
      apply Z.eqb_eq in A.
      destruct ((yoe + era * 400 + 1) mod 100 =? 0) eqn:B; cbn [negb orb].
      2:{ lia. }
      apply Z.eqb_eq in B.
      destruct ((yoe + era * 400 + 1) mod 400 =? 0) eqn:C.
      * lia.
      * apply Z.eqb_neq in C. lia.
Qed.

(* readers invert the writers of the pieces *)
Lemma is_prefix_app p r : is_prefix p (p ++ r) = Some r.
Proof.
  induction p as [|a p IH]; cbn [is_prefix app]; [reflexivity|].
  rewrite Z.eqb_refl. exact IH.
Qed.

Lemma is_prefix_refl p : is_prefix p p = Some [].
Proof. rewrite <- (app_nil_r p) at 2. apply is_prefix_app. Qed.

Lemma take2_pad2 n r : 0 <= n < 100 -> take2 (pad2 n ++ r) = Some (n, r).
Proof.
  intros H. unfold pad2, take2. cbn [app].
  rewrite !is_digit_ok by lia. cbn [andb]. f_equal. f_equal. lia.
Qed.

Lemma take4_pad4 n r : 0 <= n < 10000 -> take4 (pad4 n ++ r) = Some (n, r).
Proof.
  intros H. unfold pad4, take4, take2. cbn [app].
  rewrite !is_digit_ok by lia. cbn [andb].
  rewrite !is_digit_ok by lia. cbn [andb]. f_equal. f_equal. lia.
Qed.

Lemma take_wd i r : 0 <= i < 7 ->
  take_name wd_names (name_at i wd_names ++ r) = Some (i, r).
Proof.
  intros H.
  assert (i = 0 \/ i = 1 \/ i = 2 \/ i = 3 \/ i = 4 \/ i = 5 \/ i = 6)
    as Hc by lia.
  destruct Hc as [Hc|[Hc|[Hc|[Hc|[Hc|[Hc|Hc]]]]]]; subst i; reflexivity.
Qed.

Lemma take_mon i r : 0 <= i < 12 ->
  take_name mon_names (name_at i mon_names ++ r) = Some (i, r).
Proof.
  intros H.
  assert (i = 0 \/ i = 1 \/ i = 2 \/ i = 3 \/ i = 4 \/ i = 5 \/ i = 6 \/
          i = 7 \/ i = 8 \/ i = 9 \/ i = 10 \/ i = 11) as Hc by lia.
  destruct Hc as [Hc|[Hc|[Hc|[Hc|[Hc|[Hc|[Hc|[Hc|[Hc|[Hc|[Hc|Hc]]]]]]]]]]];
    subst i; reflexivity.
Qed.

Theorem date_roundtrip t :
  0 <= t < 253402300800 -> bind (time_to_http t) http_to_time = Ok t.
Proof.
  intros Ht. unfold time_to_http, max_time, min_time.
  replace (253402300800 <=? t) with false by (symmetry; apply Z.leb_gt; lia).
  replace (t <? -62135596800) with false by (symmetry; apply Z.ltb_ge; lia).
  cbn [orb].
  set (days := t / 86400). set (sod := t mod 86400).
  assert (Hd : 0 <= days < 2932897) by (unfold days; lia).
  assert (Hs : 0 <= sod < 86400) by (unfold sod; lia).
  pose proof (days_civil_days days) as Hinv.
  pose proof (civil_ranges days Hd) as Hr.
  pose proof (civil_day_ok days) as Hdim.
  destruct (civil_from_days days) as [[y m] d].
  destruct Hr as (Hy & Hm & Hd1).
  assert (Hd31 : d <= 31).
  { unfold days_in_month in Hdim.
    destruct (m =? 2); [destruct (is_leap y)|destruct (_ || _)]; lia. }
  cbn [bind]. unfold http_to_time, read_http_date.
  rewrite take_wd by lia. cbn [obind].
  rewrite is_prefix_app. cbn [obind].
  rewrite take2_pad2 by lia. cbn [obind].
  rewrite is_prefix_app. cbn [obind].
  rewrite take_mon by lia. cbn [obind].
  rewrite is_prefix_app. cbn [obind].
  rewrite take4_pad4 by lia. cbn [obind].
  rewrite is_prefix_app. cbn [obind].
  rewrite take2_pad2 by lia. cbn [obind].
  rewrite is_prefix_app. cbn [obind].
  rewrite take2_pad2 by lia. cbn [obind].
  rewrite is_prefix_app. cbn [obind].
  rewrite take2_pad2 by lia. cbn [obind].
  rewrite is_prefix_refl. cbn [obind].
  replace (m - 1 + 1) with m by lia.
  replace (1 <=? y) with true by (symmetry; apply Z.leb_le; lia).
  replace (1 <=? d) with true by (symmetry; apply Z.leb_le; lia).
  replace (d <=? days_in_month y m) with true by (symmetry; apply Z.leb_le; lia).
  replace (sod / 3600 <? 24) with true by (symmetry; apply Z.ltb_lt; lia).
  replace (sod mod 3600 / 60 <? 60) with true by (symmetry; apply Z.ltb_lt; lia).
  replace (sod mod 60 <? 60) with true by (symmetry; apply Z.ltb_lt; lia).
  cbn [andb]. rewrite Hinv. f_equal. unfold days, sod. lia.
Qed.

Example date_example :
  time_to_http 0 = Ok (s2l "Thu, 01 Jan 1970 00:00:00 GMT") /\
  time_to_http 951782400 = Ok (s2l "Tue, 29 Feb 2000 00:00:00 GMT") /\
  time_to_http 253402300799 = Ok (s2l "Fri, 31 Dec 9999 23:59:59 GMT") /\
  http_to_time (s2l "Tue, 29 Feb 2000 00:00:00 GMT") = Ok 951782400 /\
  http_to_time (s2l "Tue, 29 Feb 1900 00:00:00 GMT") = Raised "ValueError".
Proof. repeat split; vm_compute; reflexivity. Qed.

(* ================================================================ Part 3 *)
Definition only_in {A} (names : list string) (o : outcome A) : Prop :=
  match o with Ok _ => True | Raised e => In e names end.

Lemma hd_rev (s : list Z) d : hd d (rev s) = last s d.
Proof.
  induction s as [|x l IH] using rev_ind; [reflexivity|].
  rewrite rev_app_distr, last_last. reflexivity.
Qed.

Lemma lstrip_id s : is_space (hd 0 s) = false -> lstrip s = s.
Proof. destruct s as [|c r]; cbn [hd lstrip]; [reflexivity|]. intros ->. reflexivity. Qed.

Lemma stripped_strip s : stripped s = true -> strip s = s.
Proof.
  unfold stripped, strip. intros H. apply andb_true_iff in H as [H1 H2].
  apply negb_true_iff in H1, H2.
  rewrite (lstrip_id s H1). rewrite lstrip_id by (rewrite hd_rev; exact H2).
  apply rev_involutive.
Qed.

Lemma strip_space_cons s : strip (32 :: s) = strip s.
Proof. reflexivity. Qed.

Lemma cons_head_nonempty c l : cons_head c l <> [].
Proof. destruct l; discriminate. Qed.

Lemma split_q_nonempty s : split_q s <> [].
Proof.
  destruct s as [|c [|c2 [|c3 r3]]]; cbn [split_q]; try discriminate;
    try apply cons_head_nonempty.
  destruct (is_q3 c c2 c3); [discriminate|apply cons_head_nonempty].
Qed.

Lemma split_q_nocontain s : contains_q s = false -> split_q s = [s].
Proof.
  induction s as [|c r IH]; intros H; [reflexivity|].
  destruct r as [|c2 [|c3 r3]].
  - reflexivity.
  - reflexivity.
  - cbn [contains_q] in H. apply orb_false_iff in H as [H1 H2].
    change (split_q (c :: c2 :: c3 :: r3))
      with (if is_q3 c c2 c3 then [] :: split_q r3
            else cons_head c (split_q (c2 :: c3 :: r3))).
    rewrite H1, (IH H2). reflexivity.
Qed.

Lemma split_q_app a b : contains_q a = false ->
  split_q (a ++ 59 :: 113 :: 61 :: b) = a :: split_q b.
Proof.
  induction a as [|c a' IH]; intros H; [reflexivity|].
  destruct a' as [|c2 [|c3 a'']].
  - cbn [app].
    change (split_q (c :: 59 :: 113 :: 61 :: b))
      with (if is_q3 c 59 113 then [] :: split_q (61 :: b)
            else cons_head c (split_q (59 :: 113 :: 61 :: b))).
    replace (is_q3 c 59 113) with false
      by (unfold is_q3; destruct (c =? 59); reflexivity).
    reflexivity.
  - cbn [app].
    change (split_q (c :: c2 :: 59 :: 113 :: 61 :: b))
      with (if is_q3 c c2 59 then [] :: split_q (113 :: 61 :: b)
            else cons_head c (split_q ([c2] ++ 59 :: 113 :: 61 :: b))).
    replace (is_q3 c c2 59) with false
      by (unfold is_q3; destruct (c =? 59); destruct (c2 =? 113); reflexivity).
    rewrite IH by reflexivity. reflexivity.
  - cbn [contains_q] in H. apply orb_false_iff in H as [H1 H2].
    cbn [app].
    change (split_q (c :: c2 :: c3 :: a'' ++ 59 :: 113 :: 61 :: b))
      with (if is_q3 c c2 c3 then [] :: split_q (a'' ++ 59 :: 113 :: 61 :: b)
            else cons_head c (split_q ((c2 :: c3 :: a'') ++ 59 :: 113 :: 61 :: b))).
    rewrite H1, (IH H2). reflexivity.
Qed.

Lemma no59_contains_q s : ~ In 59 s -> contains_q s = false.
Proof.
  induction s as [|c r IH]; intros H; [reflexivity|].
  destruct r as [|c2 [|c3 r3]]; try reflexivity.
  cbn [contains_q]. apply orb_false_iff. split.
  - unfold is_q3. replace (c =? 59) with false; [reflexivity|].
    symmetry. apply Z.eqb_neq. intros E. apply H. left. auto.
  - apply IH. intros I. apply H. right. exact I.
Qed.

Lemma contains_q_space n : contains_q (32 :: n) = contains_q n.
Proof. destruct n as [|a [|b r]]; reflexivity. Qed.

Lemma lz_eqb_app_false p x r : lz_eqb p (p ++ x :: r) = false.
Proof.
  apply lz_eqb_neq. intros E. apply (f_equal (@List.length Z)) in E.
  rewrite app_length in E. cbn [List.length] in E. lia.
Qed.

Lemma split_join_comma : forall t x,
  ~ In 44 x -> Forall (fun y => ~ In 44 y) t ->
  split_on 44 (join [44; 32] (x :: t)) = x :: map (cons 32) t.
Proof.
  induction t as [|y t IH]; intros x Hx Ht.
  - cbn [join map]. apply split_on_nosep. exact Hx.
  - inversion Ht as [|y' t' Hy Ht']; subst.
    rewrite join_cons2. cbn [app]. rewrite split_on_app by exact Hx.
    cbn [split_on]. change (32 =? 44) with false. cbv iota.
    rewrite (IH y Hy Ht'). reflexivity.
Qed.

Section NegotiationProofs.
  Variable Q : Type.
  Variable float : list Z -> outcome Q.
  Variable str_q : Q -> list Z.
  Variable one : Q.
  Hypothesis float_str : forall q, float (str_q q) = Ok q.
  Hypothesis str_q_plain : forall q, ~ In 44 (str_q q) /\ ~ In 59 (str_q q).
  Hypothesis float_only : forall s, only "ValueError" (float s).

  Notation nego_item := (nego_item Q float one).
  Notation nego_items := (nego_items Q float one).
  Notation parse_negotiation := (parse_negotiation Q float one).
  Notation render_nego_item := (render_nego_item Q str_q).
  Notation render_negotiation := (render_negotiation Q str_q).
  Notation nego_value := (nego_value Q one).

  Lemma nego_item_plain item :
    contains_q item = false -> nego_item item = Ok (strip item, one).
  Proof.
    intros H. unfold HeaderCodec.nego_item. rewrite split_q_nocontain by exact H.
    cbn [index nth_error bind]. rewrite lz_eqb_refl. reflexivity.
  Qed.

  Lemma nego_item_q p tok q :
    contains_q p = false -> ~ In 59 tok -> float tok = Ok q ->
    nego_item (p ++ 59 :: 113 :: 61 :: tok) = Ok (strip p, q).
  Proof.
    intros Hp Ht Hf. unfold HeaderCodec.nego_item.
    rewrite split_q_app by exact Hp.
    rewrite (split_q_nocontain tok) by (apply no59_contains_q; exact Ht).
    cbn [index nth_error bind]. rewrite lz_eqb_app_false.
    rewrite Hf. reflexivity.
  Qed.

  Lemma nego_item_render pre it :
    pre = [] \/ pre = [32] -> nego_name_ok (fst it) ->
    nego_item (pre ++ render_nego_item it) = Ok (nego_value it).
  Proof.
    intros Hpre (H44 & Hq & Hs). destruct it as [n oq]. cbn [fst snd] in *.
    assert (Hc : contains_q (pre ++ n) = false).
    { destruct Hpre; subst pre; cbn [app]; [|rewrite contains_q_space]; exact Hq. }
    assert (Hst : strip (pre ++ n) = n).
    { destruct Hpre; subst pre; cbn [app]; [|rewrite strip_space_cons];
        apply stripped_strip; exact Hs. }
    unfold HeaderCodec.render_nego_item, HeaderCodec.nego_value. cbn [fst snd].
    destruct oq as [q|].
    - change (s2l ";q=") with [59; 113; 61]. rewrite app_assoc. cbn [app].
      rewrite (nego_item_q (pre ++ n) (str_q q) q Hc); [rewrite Hst; reflexivity| |].
      + apply str_q_plain.
      + apply float_str.
    - rewrite nego_item_plain by exact Hc. rewrite Hst. reflexivity.
  Qed.

  Lemma render_item_no44 it :
    ~ In 44 (fst it) -> ~ In 44 (render_nego_item it).
  Proof.
    intros H. unfold HeaderCodec.render_nego_item. destruct (snd it) as [q|]; [|exact H].
    intros I. apply in_app_or in I as [I|I]; [exact (H I)|].
    apply in_app_or in I as [I|I].
    - cbn in I. intuition discriminate.
    - exact (proj1 (str_q_plain q) I).
  Qed.

  Lemma nego_items_tail items :
    Forall (fun it => nego_name_ok (fst it)) items ->
    nego_items (map (cons 32) (map render_nego_item items)) =
    Ok (map nego_value items).
  Proof.
    induction items as [|it items IH]; intros H; [reflexivity|].
    inversion H as [|it' items' Hit Hitems]; subst.
    cbn [map HeaderCodec.nego_items].
    change (32 :: render_nego_item it) with ([32] ++ render_nego_item it).
    rewrite nego_item_render by (auto). cbn [bind].
    rewrite (IH Hitems). reflexivity.
  Qed.

  Theorem negotiation_roundtrip items :
    items <> [] -> Forall (fun it => nego_name_ok (fst it)) items ->
    parse_negotiation (render_negotiation items) = Ok (map nego_value items).
  Proof.
    intros Hne H. destruct items as [|it items]; [contradiction|].
    inversion H as [|it' items' Hit Hitems]; subst.
    unfold HeaderCodec.parse_negotiation, HeaderCodec.render_negotiation.
    change (s2l ", ") with [44; 32]. cbn [map].
    rewrite split_join_comma.
    - cbn [HeaderCodec.nego_items].
      change (render_nego_item it) with ([] ++ render_nego_item it) at 1.
      rewrite nego_item_render by (auto). cbn [bind].
      rewrite (nego_items_tail items Hitems). reflexivity.
    - apply render_item_no44. apply Hit.
    - apply Forall_forall. intros y Hy. apply in_map_iff in Hy as (it2 & <- & Hin).
      apply render_item_no44. rewrite Forall_forall in Hitems.
      apply (Hitems it2 Hin).
  Qed.

  (* the empty list is written as the empty string, which reads as one item *)
  Lemma negotiation_empty :
    parse_negotiation (render_negotiation []) = Ok [([], one)].
  Proof. reflexivity. Qed.

  Lemma nego_item_total item : exists v, nego_item item = Ok v.
  Proof.
    unfold HeaderCodec.nego_item.
    destruct (split_q item) as [|p0 t] eqn:E; [exfalso; exact (split_q_nonempty item E)|].
    cbn [index nth_error bind].
    destruct (lz_eqb p0 item); [eexists; reflexivity|].
    destruct t as [|p1 t']; cbn [index nth_error bind].
    - eexists. reflexivity.
    - pose proof (float_only p1) as Hf. destruct (float p1) as [q|e].
      + cbn [catch bind]. eexists. reflexivity.
      + cbn in Hf. subst e. eexists. reflexivity.
  Qed.

  Theorem parse_negotiation_total s : exists v, parse_negotiation s = Ok v.
  Proof.
    unfold HeaderCodec.parse_negotiation.
    induction (split_on 44 s) as [|i t IH]; [eexists; reflexivity|].
    cbn [HeaderCodec.nego_items].
    destruct (nego_item_total i) as [v ->]. destruct IH as [vs ->].
    eexists. reflexivity.
  Qed.
End NegotiationProofs.

Example negotiation_example :
  parse_negotiation _ float_tok None
    (render_negotiation _ str_tok
       [(s2l "gzip", Some (Some (s2l "1.0"))); (s2l "text/html;level=1", None);
        (s2l "*", Some (Some (s2l "0")))])
  = Ok [(s2l "gzip", Some (s2l "1.0")); (s2l "text/html;level=1", None);
        (s2l "*", Some (s2l "0"))]
  /\ nego_name_ok (s2l "text/html;level=1").
Proof.
  split; [vm_compute; reflexivity|].
  repeat split; try (vm_compute; reflexivity).
  vm_compute. intuition discriminate.
Qed.

(* ================================================================ Part 4 *)
Ltac list_eq := repeat (rewrite <- ?app_assoc; cbn [app]); reflexivity.

(* ---- find / slices *)
Lemma len_app a b : len (a ++ b) = len a + len b.
Proof. unfold len. rewrite app_length. lia. Qed.
Lemma len_cons c a : len (c :: a) = 1 + len a.
Proof. unfold len. cbn [List.length]. lia. Qed.
Lemma len_nonneg a : 0 <= len a.
Proof. unfold len. lia. Qed.

Lemma find_from_skip c : forall a s i start,
  i + len a <= start ->
  find_from c (a ++ s) i start = find_from c s (i + len a) start.
Proof.
  induction a as [|x a IH]; intros s i start H; cbn [app].
  - unfold len. cbn [List.length]. f_equal. lia.
  - rewrite len_cons in H. pose proof (len_nonneg a).
    cbn [find_from].
    replace (start <=? i) with false by (symmetry; apply Z.leb_gt; lia).
    cbn [andb]. rewrite IH by lia. rewrite len_cons. f_equal. lia.
Qed.

Lemma find_from_hit c : forall m r i start,
  start <= i -> ~ In c m ->
  find_from c (m ++ c :: r) i start = i + len m.
Proof.
  induction m as [|x m IH]; intros r i start H Hm; cbn [app find_from].
  - replace (start <=? i) with true by (symmetry; apply Z.leb_le; lia).
    rewrite Z.eqb_refl. unfold len. cbn. lia.
  - replace (x =? c) with false
      by (symmetry; apply Z.eqb_neq; intros E; apply Hm; left; exact E).
    rewrite andb_false_r. rewrite IH; [rewrite len_cons; lia|lia|].
    intros I. apply Hm. right. exact I.
Qed.

Lemma find_from_miss c : forall m i start, ~ In c m -> find_from c m i start = -1.
Proof.
  induction m as [|x m IH]; intros i start Hm; cbn [find_from]; [reflexivity|].
  replace (x =? c) with false
    by (symmetry; apply Z.eqb_neq; intros E; apply Hm; left; exact E).
  rewrite andb_false_r. apply IH. intros I. apply Hm. right. exact I.
Qed.

Lemma find_hit c a m r : ~ In c m ->
  find c (a ++ m ++ c :: r) (len a) = len a + len m.
Proof.
  intros H. unfold find. rewrite find_from_skip by lia.
  apply find_from_hit; [lia|exact H].
Qed.

Lemma find_miss c a m : ~ In c m -> find c (a ++ m) (len a) = -1.
Proof.
  intros H. unfold find. rewrite find_from_skip by lia.
  apply find_from_miss. exact H.
Qed.

Lemma slice_to_app p q : slice_to (p ++ q) (len p) = p.
Proof.
  unfold slice_to, len. rewrite Nat2Z.id.
  induction p as [|x p IH]; cbn [List.length app firstn].
  - destruct q; reflexivity.
  - rewrite IH. reflexivity.
Qed.

Lemma slice_from_app p q : slice_from (p ++ q) (len p) = q.
Proof.
  unfold slice_from, len. rewrite Nat2Z.id.
  induction p as [|x p IH]; cbn [List.length app skipn]; [reflexivity|exact IH].
Qed.

Lemma find_hit0 c m r : ~ In c m -> find c (m ++ c :: r) 0 = len m.
Proof. intros H. apply (find_hit c [] m r H). Qed.
Lemma find_miss0 c m : ~ In c m -> find c m 0 = -1.
Proof. intros H. apply (find_miss c [] m H). Qed.

Lemma slice_to_all s e : len s <= e -> slice_to s e = s.
Proof. unfold slice_to, len. intros H. apply firstn_all2. lia. Qed.
Lemma slice_from_all s e : len s <= e -> slice_from s e = [].
Proof. unfold slice_from, len. intros H. apply skipn_all2. lia. Qed.

(* ---- the scanner of _parseparam *)
Definition semi_or_end (r : list Z) : Prop := r = [] \/ exists r', r = 59 :: r'.

(* outside quotes the scan stops in front of a ';' and at the end *)
Lemma scan_stop r e : semi_or_end r -> scan_end r false e = e.
Proof. intros [->|[r' ->]]; reflexivity. Qed.

(* outside quotes: text without semicolon and double quote is passed over *)
Lemma scan_plain : forall k t e, ~ In 59 k -> ~ In 34 k ->
  scan_end (k ++ t) false e = scan_end t false (e + len k).
Proof.
  induction k as [|c k IH]; intros t e H59 H34; cbn [app].
  - unfold len. cbn [List.length]. f_equal. lia.
  - cbn [scan_end andb].
    replace (c =? 34) with false
      by (symmetry; apply Z.eqb_neq; intros E; apply H34; left; exact E).
    replace (c =? 59) with false
      by (symmetry; apply Z.eqb_neq; intros E; apply H59; left; exact E).
    cbn [andb]. rewrite IH.
    + rewrite len_cons. f_equal. lia.
    + intros I. apply H59. right. exact I.
    + intros I. apply H34. right. exact I.
Qed.

(* a double quote opens / closes the quoted string *)
Lemma scan_quote t q e : scan_end (34 :: t) q e = scan_end t (negb q) (e + 1).
Proof.
  cbn [scan_end]. change (34 =? 92) with false. rewrite andb_false_r.
  reflexivity.
Qed.

(* ---- _parseparam on a sequence of segments *)
(* the scan of segment b, whatever follows it, stops at its end *)
Definition seg_stops (b : list Z) : Prop :=
  forall rest, semi_or_end rest -> scan_end (b ++ rest) false 0 = len b.
Definition segs_str (B : list (list Z)) : list Z := flat_map (cons 59) B.

Lemma segs_str_semi B : semi_or_end (segs_str B).
Proof. destruct B; [left; reflexivity|right; eexists; reflexivity]. Qed.

Lemma parseparam_segs : forall B fuel, Forall seg_stops B ->
  (List.length (segs_str B) < fuel)%nat ->
  parseparam_fuel fuel (segs_str B) = map strip B.
Proof.
  induction B as [|b B IH]; intros fuel Hok Hf.
  - destruct fuel; reflexivity.
  - inversion Hok as [|b' B' Hb Hok']; subst.
    destruct fuel as [|f]; [lia|].
    change (segs_str (b :: B)) with (59 :: b ++ segs_str B) in *.
    cbn [parseparam_fuel]. rewrite Z.eqb_refl. cbv zeta.
    rewrite (Hb (segs_str B) (segs_str_semi B)).
    rewrite slice_to_app, slice_from_app. cbn [map]. f_equal.
    apply IH; [exact Hok'|].
    cbn [List.length] in Hf. rewrite app_length in Hf. lia.
Qed.

Lemma join_semis : forall parts v,
  59 :: join [59; 32] (v :: parts) = segs_str (v :: map (cons 32) parts).
Proof.
  induction parts as [|p parts IH]; intros v.
  - cbn [join map segs_str flat_map]. rewrite app_nil_r. reflexivity.
  - rewrite join_cons2. cbn [map].
    change (segs_str (v :: (32 :: p) :: map (cons 32) parts))
      with (59 :: v ++ segs_str ((32 :: p) :: map (cons 32) parts)).
    rewrite <- (IH (32 :: p)).
    change (join [59; 32] ((32 :: p) :: parts)) with
      (match parts with [] => 32 :: p | _ :: _ => (32 :: p) ++ [59; 32] ++ join [59; 32] parts end).
    destruct parts as [|p2 parts2]; list_eq.
Qed.

(* ---- escape and its inverse *)
Definition esc1 (c : Z) : list Z :=
  if c =? 92 then [92; 92] else if c =? 34 then [92; 34] else [c].
Definition escq (c : Z) : list Z := if c =? 34 then [92; 34] else [c].

Lemma escape_flat x : escape x = flat_map esc1 x.
Proof.
  unfold escape, replace1.
  induction x as [|c x IH]; [reflexivity|].
  cbn [flat_map]. rewrite flat_map_app, IH. f_equal.
  unfold esc1. destruct (c =? 92) eqn:E1.
  - reflexivity.
  - cbn [flat_map]. rewrite app_nil_r. destruct (c =? 34); reflexivity.
Qed.

Lemma replace2_other a b rep c r :
  c <> a -> replace2 a b rep (c :: r) = c :: replace2 a b rep r.
Proof.
  intros H. destruct r as [|d r']; [reflexivity|].
  change (replace2 a b rep (c :: d :: r'))
    with (if (c =? a) && (d =? b) then rep ++ replace2 a b rep r'
          else c :: replace2 a b rep (d :: r')).
  replace (c =? a) with false by (symmetry; apply Z.eqb_neq; exact H).
  reflexivity.
Qed.

Lemma replace2_nomatch a b rep r :
  hd 0 r <> b -> replace2 a b rep (a :: r) = a :: replace2 a b rep r.
Proof.
  intros H. destruct r as [|d r']; [reflexivity|]. cbn [hd] in H.
  change (replace2 a b rep (a :: d :: r'))
    with (if (a =? a) && (d =? b) then rep ++ replace2 a b rep r'
          else a :: replace2 a b rep (d :: r')).
  replace (d =? b) with false by (symmetry; apply Z.eqb_neq; exact H).
  rewrite andb_false_r. reflexivity.
Qed.

Lemma replace2_match a b rep r :
  replace2 a b rep (a :: b :: r) = rep ++ replace2 a b rep r.
Proof.
  change (replace2 a b rep (a :: b :: r))
    with (if (a =? a) && (b =? b) then rep ++ replace2 a b rep r
          else a :: replace2 a b rep (b :: r)).
  rewrite !Z.eqb_refl. reflexivity.
Qed.

Lemma unescape_step1 x :
  replace2 92 92 [92] (flat_map esc1 x) = flat_map escq x.
Proof.
  induction x as [|c x IH]; [reflexivity|].
  cbn [flat_map]. unfold esc1 at 1, escq at 1.
  destruct (c =? 92) eqn:E1.
  - apply Z.eqb_eq in E1. subst c. change (92 =? 34) with false.
    cbn [app]. rewrite replace2_match, IH. reflexivity.
  - apply Z.eqb_neq in E1. destruct (c =? 34) eqn:E2.
    + cbn [app]. rewrite replace2_nomatch by (cbn [hd]; lia).
      rewrite replace2_other by lia. rewrite IH. reflexivity.
    + cbn [app]. rewrite replace2_other by exact E1. rewrite IH. reflexivity.
Qed.

Lemma escq_head x : hd 0 (flat_map escq x) <> 34.
Proof.
  destruct x as [|c x]; cbn [flat_map hd]; [lia|].
  unfold escq. destruct (c =? 34) eqn:E; cbn [app hd]; [lia|].
  apply Z.eqb_neq. exact E.
Qed.

Lemma unescape_step2 x : replace2 92 34 [34] (flat_map escq x) = x.
Proof.
  induction x as [|c x IH]; [reflexivity|].
  cbn [flat_map]. unfold escq at 1. destruct (c =? 34) eqn:E2.
  - apply Z.eqb_eq in E2. subst c. cbn [app].
    rewrite replace2_match, IH. reflexivity.
  - apply Z.eqb_neq in E2. cbn [app].
    destruct (Z.eq_dec c 92) as [->|E1].
    + rewrite replace2_nomatch by apply escq_head. rewrite IH. reflexivity.
    + rewrite replace2_other by exact E1. rewrite IH. reflexivity.
Qed.

Theorem unescape_escape x :
  replace2 92 34 [34] (replace2 92 92 [92] (escape x)) = x.
Proof. rewrite escape_flat, unescape_step1. apply unescape_step2. Qed.

(* inside quotes: an escaped value is passed over, whatever it contains
   (semicolons, escaped quotes, escaped backslashes -- also at its end) *)
Lemma scan_escaped : forall x t e,
  scan_end (flat_map esc1 x ++ t) true e
  = scan_end t true (e + len (flat_map esc1 x)).
Proof.
  induction x as [|c x IH]; intros t e.
  - cbn [flat_map app]. unfold len. cbn [List.length]. f_equal. lia.
  - cbn [flat_map]. rewrite <- app_assoc, len_app. unfold esc1 at 1 3.
    destruct (c =? 92) eqn:E1; [|destruct (c =? 34) eqn:E2].
    + cbn [app scan_end]. change (92 =? 92) with true. cbn [andb].
      rewrite IH. f_equal. change (len [92; 92]) with 2. lia.
    + cbn [app scan_end]. change (92 =? 92) with true. cbn [andb].
      rewrite IH. f_equal. change (len [92; 34]) with 2. lia.
    + cbn [app scan_end]. rewrite E1, E2. cbn [andb negb].
      rewrite andb_false_r. rewrite IH. f_equal. change (len [c]) with 1. lia.
Qed.

(* ---- what add_header writes for one keyword argument *)
Definition part (kv : list Z * list Z) : list Z :=
  fst kv ++ 61 :: 34 :: escape (snd kv) ++ [34].

Lemma formatparam_quoted k x :
  x <> [] -> formatparam k (Some x) true = part (k, x).
Proof.
  intros H. unfold formatparam, part. cbn [fst snd].
  replace (0 <? len x) with true; [cbn [orb]; list_eq|].
  symmetry. apply Z.ltb_lt. destruct x; [contradiction|].
  rewrite len_cons. pose proof (len_nonneg x). lia.
Qed.

Lemma und2dash_id k : ~ In 95 k -> und2dash k = k.
Proof.
  unfold und2dash. induction k as [|c k IH]; intros H; [reflexivity|].
  cbn [map]. replace (c =? 95) with false
    by (symmetry; apply Z.eqb_neq; intros E; apply H; left; exact E).
  rewrite IH; [reflexivity|]. intros I. apply H. right. exact I.
Qed.

(* what is written for a pair whose value may be empty: the bare key *)
Definition wpart (kv : list Z * list Z) : list Z :=
  match snd kv with [] => fst kv | _ :: _ => part kv end.

Lemma kwarg_part_wpart kv : ~ In 95 (fst kv) ->
  kwarg_part (param_value kv) = wpart kv.
Proof.
  intros H. unfold kwarg_part, param_value, wpart. cbn [fst snd].
  rewrite und2dash_id by exact H. destruct kv as [k [|c x]]; cbn [fst snd].
  - reflexivity.
  - apply formatparam_quoted. discriminate.
Qed.

Lemma plain_stops v : ~ In 59 v -> ~ In 34 v -> seg_stops v.
Proof.
  intros H59 H34 rest Hr. rewrite scan_plain by assumption.
  rewrite scan_stop by exact Hr. lia.
Qed.

Lemma not_in_cons (c x : Z) k : c <> x -> ~ In c k -> ~ In c (x :: k).
Proof. intros H1 H2 [I|I]; [apply H1; symmetry; exact I|exact (H2 I)]. Qed.
Lemma not_in_snoc (c x : Z) k : c <> x -> ~ In c k -> ~ In c (k ++ [x]).
Proof.
  intros H1 H2 I. apply in_app_or in I as [I|[I|[]]];
    [exact (H2 I)|apply H1; symmetry; exact I].
Qed.

(* ' key="escaped value"' : the scan passes the key, enters the quoted
   string at the first quote, passes the escaped value and leaves the quoted
   string at the last quote -- for EVERY value *)
Lemma part_stops kv : ~ In 59 (fst kv) -> ~ In 34 (fst kv) ->
  seg_stops (32 :: part kv).
Proof.
  intros H59 H34 rest Hr. unfold part.
  replace ((32 :: fst kv ++ 61 :: 34 :: escape (snd kv) ++ [34]) ++ rest)
    with (((32 :: fst kv) ++ [61]) ++ 34 :: escape (snd kv) ++ 34 :: rest)
    by list_eq.
  rewrite scan_plain, scan_quote.
  2:{ apply not_in_snoc; [lia|]. apply not_in_cons; [lia|exact H59]. }
  2:{ apply not_in_snoc; [lia|]. apply not_in_cons; [lia|exact H34]. }
  cbn [negb]. rewrite escape_flat, scan_escaped, scan_quote. cbn [negb].
  rewrite scan_stop by exact Hr.
  repeat (progress (rewrite ?len_cons, ?len_app)).
  change (len (@nil Z)) with 0. lia.
Qed.

Lemma wpart_stops kv : ~ In 59 (fst kv) -> ~ In 34 (fst kv) ->
  seg_stops (32 :: wpart kv).
Proof.
  intros H59 H34. unfold wpart. destruct (snd kv) eqn:E.
  - apply plain_stops; apply not_in_cons; try lia; assumption.
  - apply part_stops; assumption.
Qed.

Definition kv_ok (kv : list Z * list Z) : Prop := key_ok (fst kv) /\ snd kv <> [].

Lemma segs_stop_params ps : Forall (fun kv => key_ok (fst kv)) ps ->
  Forall seg_stops (map (cons 32) (map wpart ps)).
Proof.
  induction ps as [|kv t IH]; intros Hok; [constructor|].
  inversion Hok as [|kv' t' Hk Ht]; subst.
  destruct Hk as (H61 & H59 & H34 & H95 & Hlow & Hst).
  cbn [map]. constructor; [apply wpart_stops; assumption|apply IH; exact Ht].
Qed.

(* ---- parse_header on one parameter *)
Lemma strip_quoted E : strip (34 :: E ++ [34]) = 34 :: E ++ [34].
Proof.
  apply stripped_strip. unfold stripped. cbn [hd].
  change (34 :: E ++ [34]) with ((34 :: E) ++ [34]). rewrite last_last. reflexivity.
Qed.

Lemma unquote_quoted x : unquote (34 :: escape x ++ [34]) = x.
Proof.
  unfold unquote. cbn [hd tl].
  replace (2 <=? len (34 :: escape x ++ [34])) with true.
  2:{ symmetry. apply Z.leb_le. rewrite len_cons, len_app.
      pose proof (len_nonneg (escape x)). unfold len at 2. cbn [List.length]. lia. }
  change (34 :: escape x ++ [34]) with ((34 :: escape x) ++ [34]) at 1.
  rewrite last_last. rewrite removelast_last. cbn [Z.eqb Pos.eqb andb].
  apply unescape_escape.
Qed.

Lemma stripped_head k t : stripped k = true -> is_space (hd 0 (k ++ 61 :: t)) = false.
Proof.
  unfold stripped. intros H. apply andb_true_iff in H as [H _].
  apply negb_true_iff in H. destruct k; [reflexivity|exact H].
Qed.

Lemma strip_part kv : stripped (fst kv) = true -> strip (32 :: part kv) = part kv.
Proof.
  intros H. rewrite strip_space_cons. apply stripped_strip.
  unfold stripped, part. rewrite stripped_head by exact H.
  replace (fst kv ++ 61 :: 34 :: escape (snd kv) ++ [34])
    with ((fst kv ++ 61 :: 34 :: escape (snd kv)) ++ [34]) by list_eq.
  rewrite last_last. reflexivity.
Qed.

Lemma header_param_part d kv : kv_ok kv ->
  header_param d (part kv) = dict_set d (fst kv) (snd kv).
Proof.
  intros [(H61 & H59 & H34 & H95 & Hlow & Hst) Hne].
  unfold header_param, part. rewrite find_hit0 by exact H61.
  pose proof (len_nonneg (fst kv)).
  replace (0 <=? len (fst kv)) with true by (symmetry; apply Z.leb_le; lia).
  rewrite slice_to_app. rewrite (stripped_strip _ Hst), Hlow.
  replace (fst kv ++ 61 :: 34 :: escape (snd kv) ++ [34])
    with ((fst kv ++ [61]) ++ 34 :: escape (snd kv) ++ [34]) by list_eq.
  replace (len (fst kv) + 1) with (len (fst kv ++ [61]))
    by (rewrite len_app; unfold len; cbn [List.length]; lia).
  rewrite slice_from_app, strip_quoted, unquote_quoted. reflexivity.
Qed.

Lemma dict_set_fresh : forall (d : dict) k v,
  ~ In k (map fst d) -> dict_set d k v = d ++ [(k, v)].
Proof.
  induction d as [|[k' v'] d IH]; intros k v H; [reflexivity|].
  cbn [dict_set app]. cbn [map fst] in H.
  replace (lz_eqb k' k) with false.
  - rewrite IH; [reflexivity|]. intros I. apply H. right. exact I.
  - symmetry. apply lz_eqb_neq. intros E. apply H. left. exact E.
Qed.

(* ---- parameters whose value may be empty: written as the bare key, which
   reads back as no entry *)
Definition nonempty (kv : list Z * list Z) : bool := negb (is_nil (snd kv)).

Lemma strip_wpart kv : stripped (fst kv) = true -> strip (32 :: wpart kv) = wpart kv.
Proof.
  intros H. unfold wpart. destruct (snd kv) eqn:E.
  - rewrite strip_space_cons. apply stripped_strip. exact H.
  - apply strip_part. exact H.
Qed.

Lemma header_param_wpart d kv : key_ok (fst kv) ->
  header_param d (wpart kv)
  = if nonempty kv then dict_set d (fst kv) (snd kv) else d.
Proof.
  intros Hk. unfold wpart, nonempty. destruct (snd kv) eqn:E; cbn [is_nil negb].
  - destruct Hk as (H61 & _). unfold header_param.
    rewrite find_miss0 by exact H61. reflexivity.
  - rewrite <- E. apply header_param_part. split; [exact Hk|].
    rewrite E. discriminate.
Qed.

Lemma fold_wparams : forall ps d, Forall (fun kv => key_ok (fst kv)) ps ->
  NoDup (map fst ps) -> (forall k, In k (map fst ps) -> ~ In k (map fst d)) ->
  fold_left header_param (map wpart ps) d = d ++ filter nonempty ps.
Proof.
  induction ps as [|kv t IH]; intros d Hok Hnd Hdis.
  - cbn. rewrite app_nil_r. reflexivity.
  - inversion Hok as [|kv' t' Hkv Ht]; subst.
    cbn [map] in Hnd. inversion Hnd as [|k' l' Hnin Hnd']; subst.
    cbn [map fold_left filter]. rewrite header_param_wpart by exact Hkv.
    destruct (nonempty kv).
    + rewrite dict_set_fresh by (apply Hdis; left; reflexivity).
      rewrite IH; [destruct kv; list_eq|exact Ht|exact Hnd'|].
      intros k Hk. rewrite map_app. intros I. apply in_app_or in I as [I|I].
      * apply (Hdis k); [right; exact Hk|exact I].
      * cbn in I. destruct I as [I|[]]. subst k. exact (Hnin Hk).
    + apply IH; [exact Ht|exact Hnd'|].
      intros k Hk. apply Hdis. right. exact Hk.
Qed.

Lemma filter_all_nonempty ps :
  Forall (fun kv => snd kv <> []) ps -> filter nonempty ps = ps.
Proof.
  induction ps as [|kv t IH]; intros H; [reflexivity|].
  inversion H as [|kv' t' Hkv Ht]; subst. cbn [filter]. unfold nonempty at 1.
  destruct (snd kv); [contradiction|]. cbn [is_nil negb]. rewrite IH by exact Ht.
  reflexivity.
Qed.

(* ---- the round trip *)
(* every list of parameters, empty values included: what is read back are
   the pairs with a non-empty value *)
Theorem param_roundtrip_gen v ps :
  main_ok v -> Forall (fun kv => key_ok (fst kv)) ps -> NoDup (map fst ps) ->
  bind (add_header_value (Some v) (map param_value ps)) parse_header
  = Ok (v, filter nonempty ps).
Proof.
  intros (Hv59 & Hv34 & Hvs) Hkeys Hnd.
  assert (Hparts : map kwarg_part (map param_value ps) = map wpart ps).
  { rewrite map_map. apply map_ext_in. intros kv Hin.
    rewrite Forall_forall in Hkeys. apply kwarg_part_wpart. apply (Hkeys kv Hin). }
  unfold add_header_value. cbn [app]. rewrite Hparts. cbn [bind].
  unfold parse_header, parseparam. rewrite join_semis.
  rewrite parseparam_segs; [|constructor|lia].
  - assert (Hs : map strip (map (cons 32) (map wpart ps)) = map wpart ps).
    { rewrite !map_map. apply map_ext_in. intros kv Hin. apply strip_wpart.
      rewrite Forall_forall in Hkeys. apply (Hkeys kv Hin). }
    cbn [map]. rewrite Hs, (stripped_strip v Hvs). f_equal. f_equal.
    apply (fold_wparams ps []); auto.
  - apply plain_stops; assumption.
  - apply segs_stop_params. exact Hkeys.
Qed.

Theorem param_roundtrip v ps :
  main_ok v -> Forall (fun kv => key_ok (fst kv)) ps -> NoDup (map fst ps) ->
  Forall (fun kv => snd kv <> []) ps ->
  bind (add_header_value (Some v) (map param_value ps)) parse_header = Ok (v, ps).
Proof.
  intros Hv Hkeys Hnd Hne. rewrite param_roundtrip_gen by assumption.
  rewrite filter_all_nonempty by exact Hne. reflexivity.
Qed.

(* the witness of the former finding param-backslash-before-next-param
   (add_header('form-data', a='x\', filename='b') used to read back as the
   single parameter a = x"; filename="b) *)
Theorem param_roundtrip_backslash :
  bind (add_header_value (Some (s2l "form-data"))
          (map param_value [(s2l "a", [120; 92]); (s2l "filename", s2l "b")]))
       parse_header
  = Ok (s2l "form-data", [(s2l "a", [120; 92]); (s2l "filename", s2l "b")]).
Proof. vm_compute. reflexivity. Qed.

(* _parseparam itself on the rendered text of that witness and on the other
   shapes around an escaped character at the end of a quoted string *)
Example parseparam_backslash_shapes :
  parseparam (s2l "; a=""x\\""; filename=""b""") = [s2l "a=""x\\"""; s2l "filename=""b"""]
  /\ parseparam (s2l "; a=""x\""; filename=""b""") = [s2l "a=""x\""; filename=""b"""]
  /\ parseparam (s2l ";a=""x\\\""; b=""c"";d") = [s2l "a=""x\\\""; b=""c"";d"]
  /\ parseparam (s2l ";a=""x\\\\""; b=""c"";d") = [s2l "a=""x\\\\"""; s2l "b=""c"""; s2l "d"]
  /\ parseparam (s2l ";a=x\""; b=""c;d") = [s2l "a=x\""; b=""c"; s2l "d"]
  /\ parseparam (s2l ";a=""x\") = [s2l "a=""x\"]
  /\ parseparam (s2l ";a=""b;c") = [s2l "a=""b;c"]
  /\ parseparam (s2l ";;; x ;") = [[]; []; s2l "x"; []].
Proof. vm_compute. repeat split. Qed.

Theorem parse_header_total s : exists r, parse_header s = Ok r.
Proof.
  unfold parse_header, parseparam. cbn [List.length parseparam_fuel].
  rewrite Z.eqb_refl. eexists. reflexivity.
Qed.

Example param_example :
  bind (add_header_value (Some (s2l "form-data"))
          (map param_value [(s2l "a", s2l "x\y;""z"" \"); (s2l "filename", [92; 34; 59; 92]);
                            (s2l "b", [13; 10; 8364; 92; 92])]))
       parse_header
  = Ok (s2l "form-data", [(s2l "a", s2l "x\y;""z"" \"); (s2l "filename", [92; 34; 59; 92]);
                          (s2l "b", [13; 10; 8364; 92; 92])])
  /\ parse_header (s2l ";;a=""") = Ok ([], [(s2l "a", [34])]).
Proof. split; vm_compute; reflexivity. Qed.
