From Coq Require Import ZArith List Bool Lia.
Require Import PW.lib.Val PW.lib.ValFacts PW.lib.Dec PW.model.Dispatch.
Import ListNotations.
Open Scope Z_scope.

Section P.
  Variable known_status : Z -> bool.
  Variable reason : Z -> list Z.
  Variable isinst : exn -> Z -> bool.
  Variable builtin : Z -> bool.
  Variable page : Z -> resp.

  Notation to_response := (to_response known_status).
  Notation make_response := (make_response known_status).
  Notation state_from_table := (state_from_table known_status builtin page).
  Notation error_from_table := (error_from_table known_status isinst builtin page).
  Notation try_body := (try_body known_status).
  Notation ladder := (ladder known_status isinst builtin page).
  Notation run_after := (run_after known_status).
  Notation after_phase := (after_phase known_status isinst builtin page).
  Notation request_cycle := (request_cycle known_status reason isinst builtin page).
  Notation ise := (ise page).
  Notation emit := (emit reason).

  (* ================================================================ *)
  (* C01: nothing escapes *)

  Lemma state_from_table_val a m c :
    exists r, fst (state_from_table a m c) = Val r.
  Proof.
    unfold Dispatch.state_from_table.
    destruct (assoc2 (c, m) (shandlers a)) as [h|].
    - cbn [fst]. destruct (call h None) as [v|e].
      + destruct (to_response v); eauto.
      + destruct (is_http e); [destruct (exc_response e)|]; eauto.
    - destruct (builtin c); cbn [fst]; [|eauto].
      destruct (builtin_page page a c); eauto.
  Qed.

  Lemma error_from_table_val a m e :
    exists o, fst (error_from_table a m e) = Val o.
  Proof.
    unfold Dispatch.error_from_table.
    destruct (find_ehandler isinst e m (ehandlers a)) as [[cls h]|]; [|cbn; eauto].
    destruct (call h None) as [v|e'].
    - cbn [fst]. destruct (to_response v); eauto.
    - destruct (is_http e'); [|cbn; eauto].
      destruct (exc_response e'); [cbn; eauto|].
      destruct e'; try (cbn; eauto; fail).
      destruct (state_from_table_val a m code) as [r Hr].
      destruct (state_from_table a m code) as [x ev]. cbn [fst] in *. subst x. eauto.
  Qed.

  Lemma http_has_response_or_code e :
    is_http e = true -> exc_response e = None -> exists c, e = EHttp c.
  Proof. destruct e; cbn; intros; try discriminate; eauto. Qed.

  Lemma ladder_no_escape a f e : fst (ladder a f) <> P1Escaped e.
  Proof.
    unfold Dispatch.ladder. destruct (try_body a f) as [tb ev].
    destruct tb as [r|x]; [cbn; discriminate|].
    destruct (is_http x) eqn:Eh.
    - destruct (exc_response x) eqn:Er; [cbn; discriminate|].
      destruct (http_has_response_or_code x Eh Er) as [c ->].
      destruct (state_from_table_val a (fmethod f) c) as [r Hr].
      destruct (state_from_table a (fmethod f) c) as [y ev2]. cbn [fst] in *. subst y.
      discriminate.
    - destruct x; try discriminate Eh; try (cbn; discriminate).
      + destruct (error_from_table_val a (fmethod f) (EUser cls)) as [o Ho].
        destruct (error_from_table a (fmethod f) (EUser cls)) as [y ev2].
        cbn [fst] in Ho. subst y. destruct o.
        * cbn; discriminate.
        * destruct (state_from_table a (fmethod f) 500) as [z ev3].
          destruct z; cbn; discriminate.
      + destruct (state_from_table a (fmethod f) 500) as [z ev3].
        destruct z; cbn; discriminate.
      + destruct (error_from_table_val a (fmethod f) ETypeErr) as [o Ho].
        destruct (error_from_table a (fmethod f) ETypeErr) as [y ev2].
        cbn [fst] in Ho. subst y. destruct o.
        * cbn; discriminate.
        * destruct (state_from_table a (fmethod f) 500) as [z ev3].
          destruct z; cbn; discriminate.
  Qed.

  Lemma after_phase_val a m r : exists r', fst (after_phase a m r) = Val r'.
  Proof.
    unfold Dispatch.after_phase. destruct (run_after (after a) 0 r) as [x ev].
    destruct x as [r'|e]; [cbn; eauto|].
    destruct (error_from_table_val a m e) as [o Ho].
    destruct (error_from_table a m e) as [y ev2]. cbn [fst] in Ho. subst y.
    destruct o; [cbn; eauto|].
    destruct (state_from_table_val a m 500) as [z Hz].
    destruct (state_from_table a m 500) as [w ev3]. cbn [fst] in *. subst w. eauto.
  Qed.

  Theorem never_escapes a f e : fst (request_cycle a f) <> Escaped e.
  Proof.
    unfold Dispatch.request_cycle.
    pose proof (ladder_no_escape a f) as Hl.
    destruct (ladder a f) as [p ev]. cbn [fst] in Hl.
    destruct p as [r| |x].
    - destruct (after_phase_val a (fmethod f) r) as [r' Hr].
      destruct (after_phase a (fmethod f) r) as [y ev2]. cbn [fst] in Hr. subst y.
      cbn; discriminate.
    - cbn; discriminate.
    - exfalso. apply (Hl x). reflexivity.
  Qed.

  (* the response finally emitted: None = the documented no-answer of a
     connection-level error *)
  Definition final_response (a : app) (f : facts) : option resp :=
    match fst (ladder a f) with
    | P1Resp r => match fst (after_phase a (fmethod f) r) with
                  | Val r' => Some r' | Exc _ => None end
    | _ => None
    end.

  Theorem cycle_decompose a f :
    fst (request_cycle a f) =
    match fst (ladder a f) with
    | P1Resp r => match fst (after_phase a (fmethod f) r) with
                  | Val r' => Answered (emit r')
                  | Exc e => Escaped e end
    | P1NoAnswer => Answered (mkEmitted [] [])
    | P1Escaped e => Escaped e
    end.
  Proof.
    unfold Dispatch.request_cycle. destruct (ladder a f) as [p ev]. cbn [fst].
    destruct p; try reflexivity.
    destruct (after_phase a (fmethod f) r) as [x ev2]. destruct x; reflexivity.
  Qed.

  (* start_response is called exactly once, unless declined *)
  Lemma emit_calls r :
    (rcls r = CDeclined /\ calls (emit r) = [] /\ chunks (emit r) = []) \/
    (rcls r <> CDeclined /\
     exists hs, calls (emit r) = [(status_line reason (rstatus r), hs)]).
  Proof.
    unfold Dispatch.emit. destruct (rcls r) eqn:Ec.
    - right. split; [discriminate|]. destruct (rstatus r =? 304); cbn [calls]; eauto.
    - right. split; [discriminate|]. cbn [calls]. eauto.
    - left. auto.
  Qed.

  (* exactly-once, and the only no-answer outcomes are "declined" and a
     connection-level error (ConnectionError / SystemExit) in the request
     phase *)
  Theorem answer_shape a f :
    exists em, fst (request_cycle a f) = Answered em /\
      ((exists st hs, calls em = [(status_line reason st, hs)]) \/
       (calls em = [] /\ chunks em = [] /\
        (fst (ladder a f) = P1NoAnswer \/
         exists r, final_response a f = Some r /\ rcls r = CDeclined))).
  Proof.
    rewrite cycle_decompose. unfold final_response.
    pose proof (ladder_no_escape a f) as Hl.
    destruct (fst (ladder a f)) as [r| |x].
    - destruct (after_phase_val a (fmethod f) r) as [r' Hr]. rewrite Hr.
      exists (emit r'). split; [reflexivity|].
      destruct (emit_calls r') as [(Hc & H1 & H2)|(Hc & hs & H1)].
      + right. repeat split; auto. right. eauto.
      + left. eauto.
    - eexists. split; [reflexivity|]. right. cbn. auto.
    - exfalso. apply (Hl x). reflexivity.
  Qed.

  Lemma try_body_conn_only a f :
    fst (ladder a f) = P1NoAnswer ->
    fst (try_body a f) = Exc EConn \/ fst (try_body a f) = Exc EExit.
  Proof.
    unfold Dispatch.ladder. destruct (try_body a f) as [tb ev]. cbn [fst].
    destruct tb as [r|x]; [cbn; discriminate|].
    destruct (is_http x) eqn:Eh.
    - destruct (exc_response x); [cbn; discriminate|].
      destruct x; try (cbn; discriminate).
      destruct (state_from_table a (fmethod f) code) as [y ev2].
      destruct y; cbn; discriminate.
    - destruct x; try discriminate Eh; auto.
      + destruct (error_from_table a (fmethod f) (EUser cls)) as [y ev2].
        destruct y as [[o|]|]; try (cbn; discriminate).
        destruct (state_from_table a (fmethod f) 500) as [z ev3].
        destruct z; cbn; discriminate.
      + destruct (state_from_table a (fmethod f) 500) as [z ev3].
        destruct z; cbn; discriminate.
      + destruct (error_from_table a (fmethod f) ETypeErr) as [y ev2].
        destruct y as [[o|]|]; try (cbn; discriminate).
        destruct (state_from_table a (fmethod f) 500) as [z ev3].
        destruct z; cbn; discriminate.
  Qed.

  (* ================================================================ *)
  (* invariants of every response that can reach emission *)

  Section Inv.
    Variable P : resp -> Prop.
    Hypothesis P_page : forall c, P (page c).
    Hypothesis P_made : forall d c h s r, make_response d c h s = Some r -> P r.
    Hypothesis P_declined : P (mkResp CDeclined 200 [] [] 0 []).
    Hypothesis P_empty : P (mkResp CNoContent 204 [xpb] [] 0 []).

    Definition beh_ok (b : beh) : Prop :=
      match b with
      | Ret (PResp r) => P r
      | AbortResp r => P r
      | _ => True
      end.
    Definition exn_ok (e : exn) : Prop :=
      match e with EHttpResp r => P r | _ => True end.
    Definition app_ok (a : app) : Prop :=
      Forall beh_ok (before a) /\ Forall beh_ok (after a) /\
      Forall (fun kv => beh_ok (snd kv)) (shandlers a) /\
      Forall (fun ch => Forall (fun mh => beh_ok (snd mh)) (snd ch)) (ehandlers a).
    Definition facts_ok (f : facts) : Prop :=
      match fconstruct f with Some e => exn_ok e | None => True end /\
      match fleaf f with
      | LEndpoint b => beh_ok b
      | LRaise e | LPre e => exn_ok e
      | LValue (PResp r) => P r
      | LValue _ => True
      end.

    Lemma to_response_P v r :
      match v with PResp x => P x | _ => True end ->
      to_response v = Val r -> P r.
    Proof.
      intros Hv H. unfold Dispatch.to_response in H.
      destruct v; try (destruct (make_response _ _ _ _) eqn:E; [injection H as <-; eauto|discriminate]).
      - destruct items as [|d [|c [|h [|s [|x xs]]]]]; try discriminate;
          (destruct (make_response _ _ _ _) eqn:E; [injection H as <-; eauto|discriminate]).
      - injection H as <-. exact Hv.
    Qed.

    Lemma to_response_exn v e :
      to_response v = Exc e -> e = ERespErr \/ e = ETypeErr.
    Proof.
      unfold Dispatch.to_response. intros H.
      destruct v; try (destruct (make_response _ _ _ _); [discriminate|injection H as <-; auto]).
      - destruct items as [|d [|c [|h [|s [|x xs]]]]];
          try (injection H as <-; auto; fail);
          (destruct (make_response _ _ _ _); [discriminate|injection H as <-; auto]).
      - discriminate.
    Qed.

    Lemma to_response_exn_ok v e : to_response v = Exc e -> exn_ok e.
    Proof. intros H. destruct (to_response_exn v e H) as [-> | ->]; exact I. Qed.

    Lemma call_ok b given v :
      beh_ok b -> match given with Some r => P r | None => True end ->
      call b given = Val v -> match v with PResp x => P x | _ => True end.
    Proof.
      intros Hb Hg H. destruct b; cbn in H; try discriminate.
      - injection H as <-. destruct v0; auto.
      - destruct given; injection H as <-; auto.
    Qed.

    Lemma call_exn_ok b given e : beh_ok b -> call b given = Exc e -> exn_ok e.
    Proof.
      intros Hb H. destruct b; cbn in H; try discriminate;
        try (injection H as <-; cbn; auto; fail).
      destruct given; discriminate.
    Qed.

    Lemma exc_response_P e r : exn_ok e -> exc_response e = Some r -> P r.
    Proof.
      intros He H. destruct e; cbn in H; try discriminate.
      - destruct (code =? 0); [injection H as <-; exact P_declined|].
        destruct (code =? 200); [injection H as <-; exact P_empty|discriminate].
      - injection H as <-. exact He.
    Qed.

    Lemma assoc2_ok k l h :
      Forall (fun kv => beh_ok (snd kv)) l -> assoc2 k l = Some h -> beh_ok h.
    Proof.
      induction l as [|[[a b] x] l IH]; cbn; intros Hl H; [discriminate|].
      inversion Hl; subst. destruct ((a =? fst k) && (b =? snd k)).
      - injection H as <-. assumption.
      - auto.
    Qed.

    Lemma assoc1_ok k l h :
      Forall (fun mh => beh_ok (snd mh)) l -> assoc1 k l = Some h -> beh_ok h.
    Proof.
      induction l as [|[a x] l IH]; cbn; intros Hl H; [discriminate|].
      inversion Hl; subst. destruct (a =? k).
      - injection H as <-. assumption.
      - auto.
    Qed.

    Lemma state_from_table_P a m c r :
      app_ok a -> fst (state_from_table a m c) = Val r -> P r.
    Proof.
      intros (_ & _ & Hs & _). unfold Dispatch.state_from_table.
      destruct (assoc2 (c, m) (shandlers a)) as [h|] eqn:Ea.
      - pose proof (assoc2_ok _ _ _ Hs Ea) as Hh. cbn [fst].
        destruct (call h None) as [v|e] eqn:Ec.
        + pose proof (call_ok h None v Hh I Ec) as Hv.
          destruct (to_response v) eqn:Et; intros H; injection H as <-.
          * eapply to_response_P; eauto.
          * apply P_page.
        + pose proof (call_exn_ok h None e Hh Ec) as He.
          destruct (is_http e).
          * destruct (exc_response e) eqn:Ex; intros H; injection H as <-.
            -- eapply exc_response_P; eauto.
            -- apply P_page.
          * intros H; injection H as <-. apply P_page.
      - destruct (builtin c); cbn [fst].
        + unfold builtin_page. destruct ((c =? 401) && digest_auth a);
            intros H; injection H as <-; apply P_page.
        + intros H; injection H as <-. apply P_page.
    Qed.

    Lemma find_ehandler_ok e m l cls h :
      Forall (fun ch => Forall (fun mh => beh_ok (snd mh)) (snd ch)) l ->
      find_ehandler isinst e m l = Some (cls, h) -> beh_ok h.
    Proof.
      induction l as [|[c hd] l IH]; cbn; intros Hl H; [discriminate|].
      inversion Hl as [|? ? Hhd Hl']; subst. cbn in Hhd.
      destruct (isinst e c); [|auto].
      destruct (assoc1 m hd) eqn:Ea; [|auto].
      injection H as _ <-. eapply assoc1_ok; eauto.
    Qed.

    Lemma error_from_table_P a m e r :
      app_ok a -> fst (error_from_table a m e) = Val (Some r) -> P r.
    Proof.
      intros Ha. pose proof Ha as (_ & _ & _ & He). unfold Dispatch.error_from_table.
      destruct (find_ehandler isinst e m (ehandlers a)) as [[cls h]|] eqn:Ef;
        [|cbn; discriminate].
      pose proof (find_ehandler_ok _ _ _ _ _ He Ef) as Hh.
      destruct (call h None) as [v|e'] eqn:Ec.
      - pose proof (call_ok h None v Hh I Ec) as Hv. cbn [fst].
        destruct (to_response v) eqn:Et; intros H; injection H as <-.
        + eapply to_response_P; eauto.
        + apply P_page.
      - pose proof (call_exn_ok h None e' Hh Ec) as He'.
        destruct (is_http e'); [|cbn; intros H; injection H as <-; apply P_page].
        destruct (exc_response e') eqn:Ex.
        + cbn. intros H; injection H as <-. eapply exc_response_P; eauto.
        + destruct e'; try (cbn; intros H; injection H as <-; apply P_page).
          destruct (state_from_table a m code) as [x ev] eqn:Es.
          destruct x; cbn; intros H; [|discriminate]. injection H as <-.
          eapply state_from_table_P; eauto. rewrite Es. reflexivity.
    Qed.

    Lemma run_before_exn hooks : forall i e,
      Forall beh_ok hooks -> fst (run_before hooks i) = Exc e -> exn_ok e.
    Proof.
      induction hooks as [|b hooks IH]; intros i e Hh; cbn; [discriminate|].
      inversion Hh; subst. destruct (call b None) eqn:Ec.
      - destruct (run_before hooks (S i)) eqn:Er. cbn. intros ->.
        eapply IH; eauto. rewrite Er. reflexivity.
      - cbn. intros H; injection H as <-. eapply call_exn_ok; eauto.
    Qed.

    Lemma try_body_P a f :
      app_ok a -> facts_ok f ->
      match fst (try_body a f) with Val r => P r | Exc e => exn_ok e end.
    Proof.
      intros (Hb & _) (Hc & Hl). unfold Dispatch.try_body.
      destruct (fconstruct f); [exact Hc|].
      destruct (fleaf f) as [b|e|v|e] eqn:El; try exact Hl;
        destruct (run_before (before a) 0) as [rb evb] eqn:Er;
        (destruct rb as [u|e'];
         [|cbn; eapply run_before_exn; eauto; rewrite Er; reflexivity]).
      - cbn [fst]. destruct (call b None) eqn:Ec.
        + destruct (to_response a0) eqn:Et; [|eapply to_response_exn_ok; eauto].
          eapply to_response_P; eauto. eapply call_ok; eauto. exact I.
        + eapply call_exn_ok; eauto.
      - exact Hl.
      - cbn [fst]. destruct (to_response v) eqn:Et; [|eapply to_response_exn_ok; eauto].
        eapply to_response_P; eauto.
    Qed.

    Lemma ladder_P a f r :
      app_ok a -> facts_ok f -> fst (ladder a f) = P1Resp r -> P r.
    Proof.
      intros Ha Hf. pose proof (try_body_P a f Ha Hf) as Ht.
      unfold Dispatch.ladder. destruct (try_body a f) as [tb ev]. cbn [fst] in Ht.
      destruct tb as [x|e]; [cbn; intros H; injection H as <-; exact Ht|].
      destruct (is_http e) eqn:Eh.
      - destruct (exc_response e) eqn:Ex.
        + cbn. intros H; injection H as <-. eapply exc_response_P; eauto.
        + destruct e; try (cbn; discriminate).
          destruct (state_from_table a (fmethod f) code) as [y ev2] eqn:Es.
          destruct y; cbn; intros H; [|discriminate]. injection H as <-.
          eapply state_from_table_P; eauto. rewrite Es. reflexivity.
      - assert (G500 : forall ev0 x,
                  (let '(r3, ev3) := state_from_table a (fmethod f) 500 in
                   (match r3 with Val x => P1Resp x | Exc _ => P1Resp ise end,
                    ev0 ++ ev3)) = x -> forall r0, fst x = P1Resp r0 -> P r0).
        { intros ev0 x Hx r0. subst x.
          destruct (state_from_table a (fmethod f) 500) as [z ev3] eqn:Es.
          destruct z; cbn; intros H; injection H as <-.
          - eapply state_from_table_P; eauto. rewrite Es. reflexivity.
          - apply P_page. }
        destruct e; try discriminate Eh; try (cbn; discriminate).
        + destruct (error_from_table a (fmethod f) (EUser cls)) as [y ev2] eqn:Ee.
          destruct y as [[o|]|].
          * cbn. intros H; injection H as <-.
            eapply error_from_table_P; eauto. rewrite Ee. reflexivity.
          * destruct (state_from_table a (fmethod f) 500) as [z ev3] eqn:Es.
            destruct z; cbn; intros H; injection H as <-.
            -- eapply state_from_table_P; eauto. rewrite Es. reflexivity.
            -- apply P_page.
          * cbn. intros H; injection H as <-. apply P_page.
        + destruct (state_from_table a (fmethod f) 500) as [z ev3] eqn:Es.
          destruct z; cbn; intros H; injection H as <-.
          * eapply state_from_table_P; eauto. rewrite Es. reflexivity.
          * apply P_page.
        + destruct (error_from_table a (fmethod f) ETypeErr) as [y ev2] eqn:Ee.
          destruct y as [[o|]|].
          * cbn. intros H; injection H as <-.
            eapply error_from_table_P; eauto. rewrite Ee. reflexivity.
          * destruct (state_from_table a (fmethod f) 500) as [z ev3] eqn:Es.
            destruct z; cbn; intros H; injection H as <-.
            -- eapply state_from_table_P; eauto. rewrite Es. reflexivity.
            -- apply P_page.
          * cbn. intros H; injection H as <-. apply P_page.
    Qed.

    Lemma run_after_P hooks : forall i r,
      Forall beh_ok hooks -> P r ->
      match fst (run_after hooks i r) with Val r' => P r' | Exc e => exn_ok e end.
    Proof.
      induction hooks as [|b hooks IH]; intros i r Hh Hr; cbn; [exact Hr|].
      inversion Hh; subst.
      destruct (call b (Some r)) eqn:Ec.
      - pose proof (call_ok b (Some r) a H1 Hr Ec) as Hv.
        destruct (to_response a) eqn:Et; [|cbn; eapply to_response_exn_ok; eauto].
        pose proof (to_response_P _ _ Hv Et) as Pa.
        specialize (IH (S i) a0 H2 Pa).
        destruct (run_after hooks (S i) a0). exact IH.
      - cbn. eapply call_exn_ok; eauto.
    Qed.

    Lemma after_phase_P a m r r' :
      app_ok a -> P r -> fst (after_phase a m r) = Val r' -> P r'.
    Proof.
      intros Ha Hr. pose proof Ha as (_ & Haf & _).
      pose proof (run_after_P (after a) 0 r Haf Hr) as Hra.
      unfold Dispatch.after_phase. destruct (run_after (after a) 0 r) as [x ev].
      cbn [fst] in Hra. destruct x as [y|e]; [cbn; intros H; injection H as <-; exact Hra|].
      destruct (error_from_table a m e) as [z ev2] eqn:Ee.
      destruct z as [[o|]|].
      - cbn. intros H; injection H as <-.
        eapply error_from_table_P; eauto. rewrite Ee. reflexivity.
      - destruct (state_from_table a m 500) as [w ev3] eqn:Es. cbn. intros ->.
        eapply state_from_table_P; eauto. rewrite Es. reflexivity.
      - cbn. discriminate.
    Qed.

    Theorem final_response_invariant a f r :
      app_ok a -> facts_ok f -> final_response a f = Some r -> P r.
    Proof.
      intros Ha Hf. unfold final_response.
      destruct (fst (ladder a f)) eqn:El; try discriminate.
      destruct (fst (after_phase a (fmethod f) r0)) eqn:Ea; [|discriminate].
      intros H; injection H as <-.
      exact (after_phase_P a (fmethod f) r0 a0 Ha (ladder_P a f r0 Ha Hf El) Ea).
    Qed.
  End Inv.
End P.
