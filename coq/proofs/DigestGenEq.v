(* The hand model of check_response / check_credentials (model/Digest.v)
   equals the definitions generated from the current poorwsgi/digest.py
   (gen/DigestGen.v, harness/py2v_digest.py) over the Python semantics of
   lib/Py.v + lib/PyDigest.v, for every authorization dictionary (any fields
   present or missing), every algorithm / qop / realm / username setting and
   every password map.

   Domain: header field values, map entries, method, path, query, host name,
   algorithm, realm, password are Python str; app.auth_qop is a str or None
   ([qop_ok]); username is a str or None. *)
From Coq Require Import ZArith List Bool Lia String.
Require Import PW.lib.Val PW.lib.ValFacts PW.lib.Dec PW.lib.Py PW.lib.PyDigest
        PW.model.Token PW.model.Digest PW.gen.TokenGen PW.proofs.TokenGenEq
        PW.gen.DigestGen.
Import ListNotations.
Open Scope list_scope.
Open Scope Z_scope.

(* ------------------------------------------------------------ injections *)
Definition inj_items (d : dict) : list pv :=
  map (fun kv => PTuple [PStr (fst kv); PStr (snd kv)]) d.
Definition inj_dict (d : dict) : pv := PDict (inj_items d).
Definition inj_map (m : list (str * dict)) : pv :=
  PDict (map (fun kv => PTuple [PStr (fst kv); inj_dict (snd kv)]) m).
Definition inj_opt (o : option str) : pv :=
  match o with Some v => PStr v | None => PNone end.
(* check_digest(realm, username=None) *)
Definition inj_user (o : option str) : pv := inj_opt o.
Definition inj_cr (r : cr) : res pv :=
  match r with
  | CR b => Ok (PBool b)
  | CRKeyError k => Err (Raised "KeyError" (PStr k))
  end.
(* app.auth_qop: the model's [] stands for '' and for None *)
Definition qop_ok (qv : pv) (q : str) : Prop :=
  qv = PStr q \/ (q = [] /\ qv = PNone).

(* ------------------------------------------------------------ dict lemmas *)
Lemma as_dict_PDict items : as_dict (PDict items) = Some items.
Proof. reflexivity. Qed.

Lemma items_get_inj k d :
  items_get (PStr k) (inj_items d) = option_map PStr (dget k d).
Proof.
  induction d as [|[k' v] d IH]; [reflexivity|].
  cbn [inj_items map items_get dget fst snd pv_eqb].
  destruct (lz_eqb k k'); [reflexivity|exact IH].
Qed.

Lemma items_get_none d : items_get PNone (inj_items d) = None.
Proof.
  induction d as [|[k' v] d IH]; [reflexivity|].
  cbn [inj_items map items_get fst snd pv_eqb as_int]. exact IH.
Qed.

Lemma pdict_copy_inj d : pdict_copy (inj_dict d) = Ok (inj_dict d).
Proof. reflexivity. Qed.

Lemma pdict_set_inj d k v :
  pdict_set (inj_dict d) (PStr k) (PStr v) = Ok (inj_dict (dset k v d)).
Proof. reflexivity. Qed.

Lemma pdict_get_dflt d k dflt :
  pdict_get (inj_dict d) (PStr k) dflt
  = Ok (match dget k d with Some v => PStr v | None => dflt end).
Proof.
  unfold pdict_get, inj_dict. rewrite as_dict_PDict, items_get_inj.
  destruct (dget k d); reflexivity.
Qed.

Lemma pdict_get_inj d k :
  pdict_get (inj_dict d) (PStr k) PNone = Ok (inj_opt (dget k d)).
Proof. rewrite pdict_get_dflt. destruct (dget k d); reflexivity. Qed.

Lemma pdict_get_str d k :
  pdict_get (inj_dict d) (PStr k) (PStr []) = Ok (PStr (dgetd k d)).
Proof. rewrite pdict_get_dflt. unfold dgetd. destruct (dget k d); reflexivity. Qed.

Lemma pdict_get_opt d o :
  pdict_get (inj_dict d) (inj_opt o) PNone
  = Ok (inj_opt (match o with Some u => dget u d | None => None end)).
Proof.
  destruct o as [u|]; cbn [inj_opt]; [apply pdict_get_inj|].
  unfold pdict_get, inj_dict. rewrite as_dict_PDict, items_get_none. reflexivity.
Qed.

Lemma pdict_get_map m k :
  pdict_get (inj_map m) (PStr k) (PDict [])
  = Ok (inj_dict (match mget k m with Some us => us | None => [] end)).
Proof.
  unfold pdict_get, inj_map. rewrite as_dict_PDict. f_equal.
  induction m as [|[k' us] m IH]; [reflexivity|].
  cbn [map items_get mget fst snd pv_eqb].
  destruct (lz_eqb k k'); [reflexivity|exact IH].
Qed.

Lemma pgetitem_inj d k :
  pgetitem (inj_dict d) (PStr k)
  = match dget k d with
    | Some v => Ok (PStr v)
    | None => Err (Raised "KeyError" (PStr k))
    end.
Proof.
  unfold pgetitem, inj_dict. rewrite as_dict_PDict, items_get_inj.
  destruct (dget k d); reflexivity.
Qed.

Lemma pnot_contains_inj k d :
  pnot_contains (PStr k) (inj_dict d)
  = Ok (PBool (negb (is_some (dget k d)))).
Proof.
  unfold pnot_contains, pcontains, inj_dict.
  rewrite as_dict_PDict, items_get_inj. destruct (dget k d); reflexivity.
Qed.

(* ---------------------------------------------------------------- format *)
Fixpoint interleave (keys : list str) : list fpiece :=
  match keys with
  | [] => []
  | k :: ks =>
      FField k :: match ks with [] => [] | _ => FLit [58] :: interleave ks end
  end.
Definition fmt_res (r : str + str) : res pv :=
  match r with
  | inl t => Ok (PStr t)
  | inr k => Err (Raised "KeyError" (PStr k))
  end.

Lemma format_go_inj keys d :
  format_go (interleave keys) (inj_items d)
  = match fmt keys d with
    | inl t => Ok t
    | inr k => Err (Raised "KeyError" (PStr k))
    end.
Proof.
  induction keys as [|k ks IH]; [reflexivity|].
  cbn [interleave format_go fmt]. rewrite items_get_inj.
  destruct (dget k d) as [v|]; cbn [option_map]; [|reflexivity].
  cbn [fmt_value pstr bind].
  destruct ks as [|k2 ks2].
  - cbn [format_go bind]. rewrite app_nil_r. reflexivity.
  - cbn [format_go]. rewrite IH.
    destruct (fmt (k2 :: ks2) d) as [t|m]; cbn [bind app]; reflexivity.
Qed.

Lemma pformat_inj keys d :
  pformat_kw (interleave keys) (inj_dict d) = fmt_res (fmt keys d).
Proof.
  unfold pformat_kw, inj_dict. rewrite as_dict_PDict, format_go_inj.
  destruct (fmt keys d); reflexivity.
Qed.

Lemma pformat2 (a b : str) d :
  pformat_kw [FField a; FLit [58]; FField b] (inj_dict d)
  = fmt_res (fmt [a; b] d).
Proof. exact (pformat_inj [a; b] d). Qed.
Lemma pformat3 (a b c : str) d :
  pformat_kw [FField a; FLit [58]; FField b; FLit [58]; FField c] (inj_dict d)
  = fmt_res (fmt [a; b; c] d).
Proof. exact (pformat_inj [a; b; c] d). Qed.
Lemma pformat6 (a b c x y z : str) d :
  pformat_kw [FField a; FLit [58]; FField b; FLit [58]; FField c; FLit [58];
              FField x; FLit [58]; FField y; FLit [58]; FField z] (inj_dict d)
  = fmt_res (fmt [a; b; c; x; y; z] d).
Proof. exact (pformat_inj [a; b; c; x; y; z] d). Qed.

(* ------------------------------------------------------------- str lemmas *)
Lemma is_prefix_starts p : forall s, is_prefix p s = starts_with p s.
Proof.
  (* the two Fixpoints have the same body *)
  induction p as [|a p IH]; intros [|b s]; reflexivity.
Qed.

Lemma pendswith_str s suf :
  pendswith (PStr s) (PStr suf) = Ok (PBool (ends_with s suf)).
Proof. unfold pendswith, ends_with. rewrite is_prefix_starts. reflexivity. Qed.

Lemma find_sub_after sub s : option_map snd (find_sub sub s) = after_sub sub s.
Proof.
  induction s as [|c s IH].
  - cbn [find_sub after_sub]. rewrite is_prefix_starts.
    destruct (starts_with sub []); reflexivity.
  - cbn [find_sub after_sub]. rewrite is_prefix_starts.
    destruct (starts_with sub (c :: s)); [reflexivity|].
    rewrite <- IH. destruct (find_sub sub s) as [[a b]|]; reflexivity.
Qed.

Lemma find_sub_char c s :
  find_sub [c] s
  = match snd (span (fun x => negb (x =? c)) s) with
    | [] => None
    | _ :: b' => Some (fst (span (fun x => negb (x =? c)) s), b')
    end.
Proof.
  induction s as [|x s IH]; [reflexivity|].
  cbn [find_sub is_prefix span List.length skipn].
  rewrite (Z.eqb_sym x c).
  destruct (c =? x); cbn [andb negb].
  - destruct s; reflexivity.
  - rewrite IH. destruct (span (fun x0 => negb (x0 =? c)) s) as [a b].
    cbn [fst snd]. destruct b; reflexivity.
Qed.

Definition mid (c : Z) (s : str) : str :=
  match find_sub [c] s with Some _ => [c] | None => [] end.

Lemma span_all p : forall s, snd (span p s) = [] -> fst (span p s) = s.
Proof.
  induction s as [|x s IH]; [reflexivity|].
  cbn [span]. destruct (p x); [|discriminate].
  destruct (span p s) as [a b]. cbn [fst snd] in *.
  intros E. rewrite (IH E). reflexivity.
Qed.

Lemma ppartition_char s c :
  ppartition (PStr s) (PStr [c])
  = Ok (PTuple [PStr (fst (partition_at c s)); PStr (mid c s);
                PStr (snd (partition_at c s))]).
Proof.
  unfold ppartition, mid, partition_at. rewrite find_sub_char.
  pose proof (span_all (fun x => negb (x =? c)) s) as A.
  destruct (span (fun x => negb (x =? c)) s) as [a b]. cbn [fst snd] in *.
  destruct b as [|y b'].
  - rewrite (A eq_refl). reflexivity.
  - reflexivity.
Qed.

(* ------------------------------------------------------- value lemmas *)
Lemma truthy_bool b : truthy (PBool b) = b.
Proof. reflexivity. Qed.
Lemma truthy_str s : truthy (PStr s) = nonempty s.
Proof. reflexivity. Qed.
Lemma truthy_qop qv q : qop_ok qv q -> truthy qv = nonempty q.
Proof. intros [->|[-> ->]]; reflexivity. Qed.
Lemma qop_str qv q : qop_ok qv q -> nonempty q = true -> qv = PStr q.
Proof. intros [->|[-> ->]]; [reflexivity|discriminate]. Qed.
Lemma phash_str H s : phash H (PStr s) = Ok (PStr (H s)).
Proof. reflexivity. Qed.
Lemma peq_str a b : peq (PStr a) (PStr b) = Ok (PBool (lz_eqb a b)).
Proof. reflexivity. Qed.
Lemma pne_str a b : pne (PStr a) (PStr b) = Ok (PBool (negb (lz_eqb a b))).
Proof. reflexivity. Qed.
Lemma pne_opt o s : pne (inj_opt o) (PStr s) = Ok (PBool (negb (opt_eqb o s))).
Proof. destruct o; reflexivity. Qed.

Lemma pcontains_str sub s :
  pcontains (PStr sub) (PStr s) = Ok (PBool (is_some (find_sub sub s))).
Proof. unfold pcontains. cbn [as_dict]. destruct (find_sub sub s); reflexivity. Qed.
Lemma psplit1_str s c sep :
  psplit1 (PStr s) (PStr (c :: sep))
  = Ok (match find_sub (c :: sep) s with
        | Some (h, t) => PList [PStr h; PStr t]
        | None => PList [PStr s]
        end).
Proof. unfold psplit1. destruct (find_sub (c :: sep) s) as [[h t]|]; reflexivity. Qed.
Lemma pgetitem_list1 a b : pgetitem (PList [a; b]) (PInt 1) = Ok b.
Proof. reflexivity. Qed.
Lemma pgetitem_tuple2 a b c : pgetitem (PTuple [PStr a; b; c]) (PInt 2) = Ok c.
Proof. reflexivity. Qed.
Lemma padd_str a b : padd (PStr a) (PStr b) = Ok (PStr (a ++ b)).
Proof. reflexivity. Qed.
Lemma pstrfun_str f s : pstrfun f (PStr s) = Ok (PStr (f s)).
Proof. reflexivity. Qed.
Lemma pnot_opt o : pnot (inj_opt o)
  = Ok (PBool (match o with Some p => negb (nonempty p) | None => true end)).
Proof. destruct o as [[|c p]|]; reflexivity. Qed.

(* check_token(None, ...) -- a header without nonce: the generated
   check_token (gen/TokenGen.v) compares None with the token, the model a
   value unequal to every token (proofs/TokenGenEq.v covers str tokens) *)
Lemma gen_check_token_none H s c timeout t :
  0 <= t -> (forall T, timeout = Some T -> 0 <= T) ->
  gen_check_token H PNone (PStr s) (PStr c) (inj_to timeout) (clock t)
  = inj_ob (option_map (fun _ => false) (check_token H [] s c timeout t)).
Proof.
  intros Ht HT.
  unfold gen_check_token, check_token, has_timeout, aligned, tok_eqb.
  destruct timeout as [T|]; cbn [inj_to].
  - pose proof (HT T eq_refl) as HT0.
    unfold Py.pnot, Py.truthy. cbn [bind]. destruct (T =? 0) eqn:E0; cbn [negb].
    + change (gen_get_token H (PStr s) (PStr c) PNone (PInt 0) (clock t))
        with (gen_get_token H (PStr s) (PStr c) (inj_to None) (PInt 0) (clock t)).
      rewrite gen_get_token_eq by (try assumption; intros ? [=]).
      cbn [bind inj_ol get_token token_text has_timeout option_map inj_ob].
      unfold Py.peq. cbn [pv_eqb as_int bind]. reflexivity.
    + apply Z.eqb_neq in E0.
      unfold clock at 1, pdiv. cbn [as_int bind].
      replace (T =? 0) with false by (symmetry; apply Z.eqb_neq; lia).
      unfold pint, pmul, padd, arith. cbn [as_int bind].
      rewrite quot_floor by lia.
      change (PInt T) with (inj_to (Some T)).
      rewrite !gen_get_token_eq by (try assumption; intros ? [= <-]; assumption).
      unfold get_token, token_text, has_timeout.
      replace (T =? 0) with false by (symmetry; apply Z.eqb_neq; lia).
      cbn [negb].
      set (now := t / (T * usec) * T).
      destruct (now + T =? 0) eqn:E1; destruct (now + T + T =? 0) eqn:E2;
        unfold aligned; replace (T =? 0) with false by (symmetry; apply Z.eqb_neq; lia);
        cbn [option_map inj_ol bind inj_ob]; unfold Py.peq;
        cbn [pv_eqb as_int bind Py.truthy inj_ob];
        repeat match goal with
               | |- context [lz_eqb ?a ?b] => destruct (lz_eqb a b)
               end; reflexivity.
  - unfold Py.pnot, Py.truthy. cbn [bind negb].
    change (gen_get_token H (PStr s) (PStr c) PNone (PInt 0) (clock t))
      with (gen_get_token H (PStr s) (PStr c) (inj_to None) (PInt 0) (clock t)).
    rewrite gen_get_token_eq by (try assumption; intros ? [=]).
    cbn [bind inj_ol get_token token_text has_timeout option_map inj_ob].
    unfold Py.peq. cbn [pv_eqb as_int bind]. reflexivity.
Qed.

(* one step of the generated code on injected values *)
Ltac fmt_case :=
  match goal with
  | |- context [fmt_res (fmt ?ks ?kw)] =>
      destruct (fmt ks kw); cbn [fmt_res bind inj_cr]; [|reflexivity]
  end.
Ltac response_tail Q :=
  rewrite pdict_set_inj; cbn [bind]; rewrite pformat2; fmt_case;
  rewrite phash_str; cbn [bind]; rewrite pdict_set_inj; cbn [bind];
  rewrite (truthy_qop _ _ Q);
  destruct (nonempty (c_qop _));
    [rewrite pformat6|rewrite pformat3];
    fmt_case; rewrite phash_str; cbn [bind]; rewrite pgetitem_inj;
    match goal with
    | |- context [bind (match dget ?k ?kw with _ => _ end)] =>
        destruct (dget k kw); cbn [bind inj_cr]; [|reflexivity]
    end;
    rewrite peq_str; reflexivity.

Ltac get_ne :=
  rewrite pdict_get_inj; cbn [bind]; rewrite pne_opt; cbn [bind];
  rewrite truthy_bool;
  match goal with
  | |- context [if negb (opt_eqb ?o ?s) then Ok (PBool false) else _] =>
      destruct (negb (opt_eqb o s)); [reflexivity|]
  end.

(* from the qop check to the end of check_credentials *)
Ltac cred_final Hresp Q :=
  rewrite pnot_contains_inj; cbn [bind]; rewrite truthy_bool;
  match goal with
  | |- context [if negb (is_some ?o) then Ok (PBool false) else _] =>
      destruct (negb (is_some o)); [reflexivity|]
  end;
  rewrite pdict_get_map; cbn [bind]; rewrite ?pdict_get_inj; cbn [bind];
  rewrite pdict_get_opt; cbn [bind]; rewrite pnot_opt; cbn [bind];
  rewrite truthy_bool; unfold lookup_password;
  match goal with
  | |- context [inj_opt (match dget ?k ?d with _ => _ end)] =>
      destruct (dget k d) as [?|]; [|reflexivity]
  end;
  match goal with
  | |- context [mget ?r ?m] => destruct (mget r m) as [?|]; [|reflexivity]
  end;
  match goal with
  | |- context [inj_opt (dget ?u ?us)] =>
      destruct (dget u us) as [?|]; [|reflexivity]
  end;
  cbn [inj_opt];
  match goal with
  | |- context [negb (nonempty ?p)] =>
      destruct (negb (nonempty p)); [reflexivity|]
  end;
  rewrite Hresp by (first [exact Q | left; reflexivity]);
  match goal with
  | |- context [check_response ?H ?d ?e ?p] =>
      destruct (check_response H d e p) as [[|]|?]; reflexivity
  end.

Ltac cred_user Hresp Q :=
  get_ne;
  unfold inj_user;
  destruct (c_user _) as [[|? ?]|]; cbn [inj_opt];
  rewrite ?truthy_str; cbn [nonempty andb];
  [ cred_final Hresp Q
  | get_ne; cred_final Hresp Q
  | change (truthy PNone) with false; cbv iota; cred_final Hresp Q ].

Ltac cred_rest Hresp Q :=
  rewrite (truthy_qop _ _ Q);
  let NQ := fresh "NQ" in
  destruct (nonempty (c_qop _)) eqn:NQ; cbn [andb];
  [ rewrite (qop_str _ _ Q NQ); get_ne; cred_user Hresp Q
  | cred_user Hresp Q ].

(* from the comparison of the uri with the request to the end *)
Ltac cred_uri Hresp Q :=
  rewrite pstrfun_str; cbn [bind]; rewrite pne_str; cbn [bind];
  rewrite !truthy_bool;
  match goal with
  | |- context [negb (lz_eqb (?U ?x) (req_path ?e))] =>
      destruct (lz_eqb (U x) (req_path e)); cbn [negb orb]; [|reflexivity]
  end;
  rewrite pne_str; cbn [bind]; rewrite truthy_bool;
  match goal with
  | |- context [negb (lz_eqb ?q (req_query ?e))] =>
      destruct (lz_eqb q (req_query e)); cbn [negb]; [|reflexivity]
  end;
  cred_rest Hresp Q.

Section Eq.
  Variable Hh Ho Unq : str -> str.

  Theorem gen_check_response_eq d e qv pw vpath vquery vhost vmap :
    qop_ok qv (c_qop e) ->
    gen_check_response Hh (inj_dict d) (PStr (r_method e)) vpath vquery vhost
                       (PStr (c_algorithm e)) qv vmap (PStr pw)
    = inj_cr (check_response Hh d e pw).
  Proof.
    intros Q. unfold gen_check_response, check_response, is_sess.
    unfold k_hash1, k_nonce, k_cnonce, k_method, k_uri, k_hash2, k_nc, k_qop,
      k_response, s_sess.
    cbv beta zeta.
    rewrite pdict_copy_inj. cbn [bind].
    rewrite pdict_set_inj. cbn [bind].
    rewrite pendswith_str. cbn [bind]. rewrite truthy_bool.
    destruct (ends_with (c_algorithm e) [45; 115; 101; 115; 115]).
    - rewrite pformat3. fmt_case.
      rewrite phash_str. cbn [bind]. rewrite pdict_set_inj. cbn [bind].
      response_tail Q.
    - response_tail Q.
  Qed.


  Theorem gen_check_credentials_eq d e qv :
    qop_ok qv (c_qop e) ->
    gen_check_credentials Hh Ho Unq (inj_dict d) (PStr (r_method e))
      (PStr (req_path e)) (PStr (req_query e)) (PStr (r_host e))
      (PStr (c_algorithm e)) qv (inj_map (c_map e))
      (PStr (c_realm e)) (inj_user (c_user e))
    = Ok (PBool (check_credentials Hh Ho Unq d e)).
  Proof.
    intros Q. unfold gen_check_credentials, check_credentials.
    unfold uri_mismatch, split_uri, s_scheme.
    unfold k_algorithm, k_opaque, k_uri, k_qop, k_realm, k_username,
      k_response.
    cbv beta zeta.
    rewrite phash_str. cbn [bind].
    rewrite pdict_get_inj. cbn [bind]. rewrite pne_opt. cbn [bind].
    rewrite truthy_bool.
    destruct (negb (opt_eqb (dget _ d) (c_algorithm e))); [reflexivity|].
    rewrite pdict_get_inj. cbn [bind]. rewrite pne_opt. cbn [bind].
    rewrite truthy_bool.
    destruct (negb (opt_eqb (dget _ d) (Ho (r_host e)))); [reflexivity|].
    rewrite pdict_get_str. cbn [bind].
    rewrite ppartition_char. cbn [bind punpack3 as_dict].
    destruct (partition_at 63 (dgetd [117; 114; 105] d)) as [p q].
    cbn [fst snd].
    rewrite pcontains_str. cbn [bind]. rewrite truthy_bool.
    pose proof (find_sub_after [58; 47; 47] p) as A.
    destruct (find_sub [58; 47; 47] p) as [[h t]|] eqn:F;
      cbn [option_map snd] in A; rewrite <- A; cbn [is_some].
    - rewrite psplit1_str, F. cbn [bind]. rewrite pgetitem_list1. cbn [bind].
      rewrite ppartition_char. cbn [bind]. rewrite pgetitem_tuple2. cbn [bind].
      rewrite padd_str. cbn [bind app].
      cred_uri gen_check_response_eq Q.
    - cred_uri gen_check_response_eq Q.
  Qed.

  (* ---- the request gate: the innermost function of check_digest.
     [hdr] = None: no Authorization header; Some d: req.authorization = d.
     check_token is the Section variable CT of the generated code: any
     function that computes the model's [check_nonce] (for a present nonce
     this is C16_generated_check_token_is_model with
     CT a b c d := gen_check_token Ht a b c d (clock t)). *)
  Variable Ht : str -> str.

  Definition s_Authorization : str :=
    [65;117;116;104;111;114;105;122;97;116;105;111;110].
  Definition deny (realm : str) (stale : bool) : res pv :=
    Err (Raised "HTTPException"
           (PTuple (PInt 401 :: PTuple [PStr [114;101;97;108;109]; PStr realm]
                    :: if stale
                       then [PTuple [PStr [115;116;97;108;101]; PBool true]]
                       else []))).
  (* the key of the KeyError: 'type', else 'username' *)
  Definition missing_key (hdr : option dict) : str :=
    match hdr with
    | Some d => match dget k_type d with None => k_type | Some _ => k_username end
    | None => []
    end.
  Definition inj_result (realm : str) (hdr : option dict) (r : result) : res pv :=
    match r with
    | Run u => pcall_endpoint (PStr u)
    | Deny401 stale => deny realm stale
    | Crash x =>
        if String.eqb x "KeyError"
        then Err (Raised "KeyError" (PStr (missing_key hdr)))
        else Err ZeroDivisionError
    end.

  Theorem gen_digest_handler_eq hdr e qv hv authv CT :
    qop_ok qv (c_qop e) ->
    pnot_contains (PStr s_Authorization) hv
    = Ok (PBool (negb (is_some hdr))) ->
    (forall d, hdr = Some d -> authv = inj_dict d) ->
    (forall d, CT (inj_opt (dget k_nonce d)) (PStr (c_secret e))
                  (PStr (r_client e)) (inj_to (c_timeout e))
               = inj_ob (check_nonce Ht d e)) ->
    gen_digest_handler Hh Ho Unq CT authv (PStr (r_method e))
      (PStr (req_path e)) (PStr (req_query e)) (PStr (r_host e))
      (PStr (c_algorithm e)) qv (inj_map (c_map e))
      hv (PStr (c_secret e)) (PStr (r_client e)) (inj_to (c_timeout e))
      (PStr (c_realm e)) (inj_user (c_user e))
    = inj_result (c_realm e) hdr (gate Ht Hh Ho Unq hdr e).
  Proof.
    intros Q Hhv Hauth HCT. unfold gen_digest_handler, gate.
    unfold s_Authorization in Hhv.
    cbv beta zeta. rewrite Hhv. cbn [bind]. rewrite truthy_bool.
    destruct hdr as [d|]; cbn [is_some negb]; [|reflexivity].
    rewrite (Hauth d eq_refl). rewrite pgetitem_inj.
    change [116; 121; 112; 101] with k_type.
    destruct (dget k_type d) as [ty|] eqn:Ety; cbn [bind].
    2: { cbn [inj_result String.eqb missing_key]. rewrite Ety. reflexivity. }
    rewrite pne_str. cbn [bind]. rewrite truthy_bool.
    change [68; 105; 103; 101; 115; 116] with s_Digest.
    destruct (negb (lz_eqb ty s_Digest)); [reflexivity|].
    rewrite pdict_get_inj. cbn [bind].
    change [110; 111; 110; 99; 101] with k_nonce. rewrite HCT.
    destruct (check_nonce Ht d e) as [[|]|]; cbn [inj_ob bind];
      [|reflexivity|reflexivity].
    change (pnot (PBool true)) with (Ok (PBool false)). cbn [bind].
    rewrite truthy_bool.
    rewrite (gen_check_credentials_eq d e qv Q). cbn [bind].
    destruct (check_credentials Hh Ho Unq d e); [|reflexivity].
    change (pnot (PBool true)) with (Ok (PBool false)). cbn [bind negb].
    rewrite truthy_bool. rewrite pgetitem_inj.
    change [117; 115; 101; 114; 110; 97; 109; 101] with k_username.
    destruct (dget k_username d) as [u|]; cbn [bind]; [reflexivity|].
    cbn [inj_result String.eqb missing_key]. rewrite Ety. reflexivity.
  Qed.

  (* ... in particular with the check_token generated from session.py
     (gen/TokenGen.v), time the exact rational [clock (r_time e)] *)
  Theorem gen_digest_handler_token_eq hdr e qv hv authv :
    qop_ok qv (c_qop e) ->
    pnot_contains (PStr s_Authorization) hv
    = Ok (PBool (negb (is_some hdr))) ->
    (forall d, hdr = Some d -> authv = inj_dict d) ->
    0 <= r_time e -> (forall T, c_timeout e = Some T -> 0 <= T) ->
    gen_digest_handler Hh Ho Unq
      (fun a b c d => gen_check_token Ht a b c d (clock (r_time e)))
      authv (PStr (r_method e))
      (PStr (req_path e)) (PStr (req_query e)) (PStr (r_host e))
      (PStr (c_algorithm e)) qv (inj_map (c_map e))
      hv (PStr (c_secret e)) (PStr (r_client e)) (inj_to (c_timeout e))
      (PStr (c_realm e)) (inj_user (c_user e))
    = inj_result (c_realm e) hdr (gate Ht Hh Ho Unq hdr e).
  Proof.
    intros Q Hhv Hauth Ht0 HT. apply gen_digest_handler_eq; try assumption.
    intros d. unfold check_nonce.
    destruct (dget k_nonce d) as [n|]; cbn [inj_opt];
      [apply gen_check_token_eq|apply gen_check_token_none]; assumption.
  Qed.
End Eq.
