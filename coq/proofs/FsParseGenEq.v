(* The entry part of the form parser (model/Multipart.v: part_meta,
   parse_part, parse) equals the definitions generated from the current
   poorwsgi/fieldstorage.py (gen/FsParseGen.v: FieldStorageParser.
   _parse_content_type, parse, __init__) over the Python semantics of
   lib/Py.v, lib/PyMultipart.v, lib/PyMulti.v and lib/PyFsParse.v.

   New definitions of this file (not in the hand model; each is proved
   equal to the generated code and then related to the model):
     [clen_of]     the content-length of parse() (int() is a parameter),
     [parse_spec]  parse() in one piece, over the three readers,
     [init_state]  the attributes __init__ leaves. *)
From Coq Require Import String.
From Coq Require Import ZArith List Bool Lia.
Require Import PW.lib.Val PW.lib.ValFacts PW.lib.Py PW.lib.PyMultipart
  PW.lib.PyMulti PW.lib.PyFsParse.
Require Import PW.model.Multipart PW.proofs.MultipartProofs
  PW.gen.MultipartGen PW.proofs.MultipartGenEq PW.gen.MultiGen
  PW.proofs.MultiGenEq PW.gen.FsParseGen.
Import ListNotations.
Open Scope list_scope.
Open Scope Z_scope.

Definition k_ctype : list Z := s2l "content-type".
Definition k_cdisp : list Z := s2l "content-disposition".
Definition k_clen : list Z := s2l "content-length".
Definition t_urlenc : list Z := s2l "application/x-www-form-urlencoded".
Definition t_plain : list Z := s2l "text/plain".
Definition t_multi : list Z := s2l "multipart/".
Definition k_boundary : list Z := s2l "boundary".
(* the reasons the model gives for what it does not follow *)
Definition w_urlencoded_part : string := "urlencoded part"%string.
Definition w_nested_multipart : string := "nested multipart"%string.
Definition w_urlencoded : string := "urlencoded"%string.
Definition w_single_at_top : string := "read_single at top level"%string.

(* ------------------------------------------------------------------ *)
(* the header mapping *)

Lemma lower_l1_eq n : lower_l1 n = lower n.
Proof. reflexivity. Qed.

Lemma msg_name_is_key k nv :
  lower_l1 k = k -> msg_name_is k (enc_hdr nv) = lz_eqb (lower (fst nv)) k.
Proof.
  intros Hk. unfold msg_name_is, enc_hdr. rewrite Hk, lower_l1_eq.
  reflexivity.
Qed.

Definition has {A} (o : option A) : bool :=
  match o with Some _ => true | None => false end.

Lemma contains_key k hs : lower_l1 k = k ->
  pmsg_contains (enc_hdrs hs) (PStr k) = Py.Ok (PBool (has (hdr_get hs k))).
Proof.
  intros Hk. unfold pmsg_contains, enc_hdrs. do 2 f_equal.
  induction hs as [|[n v] hs IH]; [reflexivity|].
  cbn [map existsb hdr_get]. rewrite msg_name_is_key by exact Hk.
  cbn [fst]. destruct (lz_eqb (lower n) k); [reflexivity|exact IH].
Qed.

Lemma msg_find_key k hs : lower_l1 k = k ->
  msg_find k (map enc_hdr hs) = option_map PStr (hdr_get hs k).
Proof.
  intros Hk. induction hs as [|[n v] hs IH]; [reflexivity|].
  cbn [map msg_find hdr_get]. rewrite msg_name_is_key by exact Hk.
  cbn [fst]. destruct (lz_eqb (lower n) k); [reflexivity|exact IH].
Qed.

Lemma get_key k hs v : lower_l1 k = k -> hdr_get hs k = Some v ->
  pmsg_get (enc_hdrs hs) (PStr k) = Py.Ok (PStr v).
Proof.
  intros Hk Hv. unfold pmsg_get, enc_hdrs.
  rewrite msg_find_key by exact Hk. rewrite Hv. reflexivity.
Qed.

(* ------------------------------------------------------------------ *)
(* parameter dictionaries *)

Lemma pd_find_eq k d :
  pd_find k (map (fun kv : list Z * list Z =>
                    PTuple [PStr (fst kv); PStr (snd kv)]) d)
  = option_map PStr (pd_get d k).
Proof.
  induction d as [|[n v] d IH]; [reflexivity|].
  cbn [map pd_find pd_get]. rewrite IH.
  destruct (pd_get d k); [reflexivity|].
  cbn [option_map pd_key_is fst snd].
  destruct (lz_eqb n k); reflexivity.
Qed.

Lemma pdict_get_eq d k :
  pdict_get (enc_pdict d) (PStr k) = Py.Ok (inj_name (pd_get d k)).
Proof.
  unfold pdict_get, enc_pdict. rewrite pd_find_eq.
  destruct (pd_get d k); reflexivity.
Qed.
Lemma pdict_contains_eq d k :
  pdict_contains (enc_pdict d) (PStr k) = Py.Ok (PBool (has (pd_get d k))).
Proof.
  unfold pdict_contains, enc_pdict. rewrite pd_find_eq.
  destruct (pd_get d k); reflexivity.
Qed.
Lemma pdict_item_eq d k v : pd_get d k = Some v ->
  pdict_item (enc_pdict d) (PStr k) = Py.Ok (PStr v).
Proof.
  intros H. unfold pdict_item, enc_pdict. rewrite pd_find_eq, H. reflexivity.
Qed.

Lemma peq_str a b : peq (PStr a) (PStr b) = Py.Ok (PBool (lz_eqb a b)).
Proof. reflexivity. Qed.

(* s[:k] for 0 <= k *)
Lemma pslice_head_str b k : 0 <= k ->
  pslice (PStr b) PNone (PInt k) = Py.Ok (PStr (slice_to b k)).
Proof.
  intros Hk. unfold pslice, slice_list, slice_to. cbn [as_int bind].
  unfold Py.norm_idx. change (0 <? 0) with false.
  replace (k <? 0) with false by (symmetry; apply Z.ltb_ge; lia).
  pose proof (slice_bounds b).
  rewrite (Z.min_l 0) by lia. cbn [Z.to_nat skipn]. rewrite Z.sub_0_r.
  f_equal. f_equal.
  destruct (Z_le_gt_dec k (Z.of_nat (List.length b))).
  - rewrite Z.min_l by lia. reflexivity.
  - rewrite Z.min_r by lia. rewrite Nat2Z.id, firstn_all, firstn_all2 by lia.
    reflexivity.
Qed.

Lemma truthy_pbytes b : Py.truthy (PBytes b) = negb (is_nil b).
Proof. destruct b; reflexivity. Qed.

(* ------------------------------------------------------------------ *)
(* (1) _parse_content_type *)

(* the parameter dictionary of the Content-Type header *)
Definition ctype_params (hs : list (list Z * list Z)) : pdict :=
  match hdr_get hs k_ctype with
  | Some v => snd (parse_header v)
  | None => []
  end.
Definition meta_type (hs : list (list Z * list Z)) (ob : bytes) : list Z :=
  snd (part_meta hs ob).

Theorem gen_parse_content_type_eq hs ob :
  gen_parse_content_type parse_header (enc_hdrs hs) (PBytes ob)
  = Py.Ok (PTuple [PStr (meta_type hs ob); enc_pdict (ctype_params hs)]).
Proof.
  unfold gen_parse_content_type, meta_type, ctype_params, part_meta.
  change (s2l "content-type") with k_ctype. cbn [snd].
  change [99;111;110;116;101;110;116;45;116;121;112;101] with k_ctype.
  rewrite contains_key by reflexivity. cbn [bind].
  destruct (hdr_get hs k_ctype) as [v|] eqn:Hv; cbn [has Py.truthy].
  - rewrite (get_key k_ctype hs v) by (reflexivity || exact Hv). cbn [bind].
    unfold pparse_header. destruct (parse_header v) as [key d].
    cbn [bind punpack2 fst snd]. reflexivity.
  - destruct ob; reflexivity.
Qed.

(* ------------------------------------------------------------------ *)
(* (2) parse *)

Section Parse.
  Variable St : Type.
  Variable E : list Z -> list Z.               (* str.encode(enc, errors) *)
  Variable INT : list Z -> option Z.           (* int(str) *)
  Variables RU RM RS : pv -> St -> nat -> res (pv * pv * pv * St).

  (* clen of parse(): -1 when the header is absent or int() refuses it *)
  Definition clen_of (hs : list (list Z * list Z)) : Z :=
    match hdr_get hs k_clen with
    | Some v => match INT v with Some n => n | None => -1 end
    | None => -1
    end.
  (* if self.limit is None and clen >= 0: self.limit = clen *)
  Definition limit_of (limit : option Z) (clen : Z) : option Z :=
    match limit with
    | Some L => Some L
    | None => if 0 <=? clen then Some clen else None
    end.
  Definition cdisp_of (hs : list (list Z * list Z)) : list Z * pdict :=
    match hdr_get hs k_cdisp with
    | Some v => parse_header v
    | None => ([], [])
    end.
  (* self.innerboundary after parse() *)
  Definition ib_of (hs : list (list Z * list Z)) (ib0 : pv) : pv :=
    match pd_get (ctype_params hs) k_boundary with
    | Some b => PBytes (E b)
    | None => ib0
    end.

  (* the returned FieldStorage: attributes in the order FIELD_ATTRS of the
     translator *)
  Definition field_obj (hs : list (list Z * list Z)) (ob : bytes)
             (lst file : pv) : pv :=
    PTuple [PStr (s2l "FieldStorage"); lst;
            inj_name (pd_get (snd (cdisp_of hs)) (s2l "name"));
            inj_name (pd_get (snd (cdisp_of hs)) (s2l "filename"));
            PStr (meta_type hs ob); file;
            PStr (fst (cdisp_of hs)); enc_pdict (snd (cdisp_of hs));
            enc_pdict (ctype_params hs); PInt (clen_of hs)].

  (* the parser object the readers see: SELF_FIELDS of the translator *)
  Definition self_obj (hs : list (list Z * list Z)) (ob : bytes)
             (kbv sp : pv) (limit : option Z) (enc errs mnf sep cb br done
              ib0 : pv) : pv :=
    PTuple [enc_hdrs hs; PBytes ob; kbv; sp;
            inj_lim (limit_of limit (clen_of hs)); enc; errs; mnf; sep; cb;
            br; done;
            inj_name (pd_get (snd (cdisp_of hs)) (s2l "filename"));
            ib_of hs ib0; PInt (clen_of hs)].

  Definition parse_spec (hs : list (list Z * list Z)) (ob : bytes)
             (kbv sp : pv) (limit : option Z)
             (enc errs mnf sep cb br done ib0 : pv) (s : St) (fuel : nat)
    : res (pv * pv * pv * St) :=
    let self := self_obj hs ob kbv sp limit enc errs mnf sep cb br done ib0 in
    if lz_eqb (meta_type hs ob) t_urlenc then
      pr <- RU self s fuel ;;
      let '(v, d, n, s') := pr in
      Py.Ok (field_obj hs ob v PNone, d, n, s')
    else if lz_eqb (slice_to (meta_type hs ob) 10) t_multi then
      pr <- RM self s fuel ;;
      let '(v, d, n, s') := pr in
      Py.Ok (field_obj hs ob v PNone, d, n, s')
    else
      pr <- RS self s fuel ;;
      let '(v, d, n, s') := pr in
      Py.Ok (field_obj hs ob (PList []) v, d, n, s').

  Lemma pge0 c : pge (PInt c) (PInt 0) = Py.Ok (PBool (0 <=? c)).
  Proof.
    unfold pge, pcmp. cbn [as_int]. rewrite Z.geb_leb. reflexivity.
  Qed.

  (* generated parse = parse_spec, for every header list, outer boundary,
     limit (None or an int) and any values of the other attributes;
     fn0 and len0 (self.filename, self.length before the call) are
     overwritten *)
  Ltac leaf :=
    match goal with |- context [pis_none (inj_lim ?l)] => destruct l end;
    cbn [inj_lim pis_none bind Py.truthy limit_of];
    try rewrite pge0; cbn [bind Py.truthy];
    try (destruct (0 <=? _));
    (destruct (lz_eqb (meta_type _ _) t_urlenc); [reflexivity|]);
    destruct (lz_eqb (slice_to (meta_type _ _) 10) t_multi); reflexivity.

  Theorem gen_parse_eq hs ob kbv sp limit enc errs mnf sep cb br done fn0 ib0
          len0 s fuel :
    gen_parse St parse_header E INT RU RM RS (enc_hdrs hs) (PBytes ob) kbv sp
      (inj_lim limit) enc errs mnf sep cb br done fn0 ib0 len0 s fuel
    = parse_spec hs ob kbv sp limit enc errs mnf sep cb br done ib0 s fuel.
  Proof.
    unfold gen_parse, parse_spec, self_obj, field_obj.
    change [99;111;110;116;101;110;116;45;100;105;115;112;111;115;105;116;105;111;110]
      with k_cdisp.
    change [99;111;110;116;101;110;116;45;108;101;110;103;116;104] with k_clen.
    change [98;111;117;110;100;97;114;121] with k_boundary.
    change [97;112;112;108;105;99;97;116;105;111;110;47;120;45;119;119;119;45;102;111;114;109;45;117;114;108;101;110;99;111;100;101;100] with t_urlenc.
    change [109;117;108;116;105;112;97;114;116;47] with t_multi.
    rewrite gen_parse_content_type_eq.
    rewrite !contains_key by reflexivity. cbn [bind punpack2].
    rewrite !peq_str, pslice_head_str by lia. cbn [bind].
    rewrite peq_str. cbn [bind Py.truthy].
    rewrite !pdict_contains_eq. cbn [bind Py.truthy].
    unfold cdisp_of, clen_of, ib_of.
    destruct (hdr_get hs k_cdisp) as [cd|] eqn:Hcd; cbn [has Py.truthy].
    - rewrite (get_key k_cdisp hs cd) by (reflexivity || exact Hcd).
      cbn [bind]. unfold pparse_header.
      destruct (parse_header cd) as [ckey cpd]. cbn [bind punpack2 fst snd].
      rewrite !pdict_get_eq. cbn [bind].
      destruct (pd_get (ctype_params hs) k_boundary) as [b|] eqn:Hb;
        cbn [has Py.truthy].
      + rewrite (pdict_item_eq _ _ b) by exact Hb. cbn [bind pencode].
        destruct (hdr_get hs k_clen) as [cl|] eqn:Hcl; cbn [has Py.truthy].
        * rewrite (get_key k_clen hs cl) by (reflexivity || exact Hcl).
          cbn [bind pint_s].
          destruct (INT cl) as [n|]; cbn [bind];
            [rewrite pindex_0; cbn [bind]
            |change (perr_is "ValueError"%string ValueError) with true;
             cbn [bind]]; leaf.
        * leaf.
      + destruct (hdr_get hs k_clen) as [cl|] eqn:Hcl; cbn [has Py.truthy].
        * rewrite (get_key k_clen hs cl) by (reflexivity || exact Hcl).
          cbn [bind pint_s].
          destruct (INT cl) as [n|]; cbn [bind];
            [rewrite pindex_0; cbn [bind]
            |change (perr_is "ValueError"%string ValueError) with true;
             cbn [bind]]; leaf.
        * leaf.
    - cbn [bind fst snd]. change (PList []) with (enc_pdict []) at 1.
      rewrite !pdict_get_eq. cbn [bind pd_get inj_name].
      destruct (pd_get (ctype_params hs) k_boundary) as [b|] eqn:Hb;
        cbn [has Py.truthy].
      + rewrite (pdict_item_eq _ _ b) by exact Hb. cbn [bind pencode].
        destruct (hdr_get hs k_clen) as [cl|] eqn:Hcl; cbn [has Py.truthy].
        * rewrite (get_key k_clen hs cl) by (reflexivity || exact Hcl).
          cbn [bind pint_s].
          destruct (INT cl) as [n|]; cbn [bind];
            [rewrite pindex_0; cbn [bind]
            |change (perr_is "ValueError"%string ValueError) with true;
             cbn [bind]]; leaf.
        * leaf.
      + destruct (hdr_get hs k_clen) as [cl|] eqn:Hcl; cbn [has Py.truthy].
        * rewrite (get_key k_clen hs cl) by (reflexivity || exact Hcl).
          cbn [bind pint_s].
          destruct (INT cl) as [n|]; cbn [bind];
            [rewrite pindex_0; cbn [bind]
            |change (perr_is "ValueError"%string ValueError) with true;
             cbn [bind]]; leaf.
        * leaf.
  Qed.
End Parse.

(* ------------------------------------------------------------------ *)
(* (2a) parse() of the parser of one part = the model's parse_part *)

(* the attributes the model keeps of the returned FieldStorage: the
   encoding [enc_field] of proofs/MultiGenEq.v (class, no list, name,
   filename, type, the pieces written to the file) *)
Definition part_view {St} (r : res (pv * pv * pv * St))
  : res (pv * pv * pv * St) :=
  match r with
  | Py.Ok (PTuple [c; _; n; f; t; file; _; _; _; _], d, nr, s) =>
      Py.Ok (PTuple [c; PNone; n; f; t; file], d, nr, s)
  | Py.Ok _ => Err TypeError
  | Err e => Err e
  end.

Section Part.
  Variable St : Type.
  Variable rl : Z -> St -> bytes * St.
  Variable E : list Z -> list Z.
  Variable INT : list Z -> option Z.
  Variables RU RM RS : pv -> St -> nat -> res (pv * pv * pv * St).
  Variable hs : list (list Z * list Z).       (* the headers of the part *)
  Variable ob : bytes.                        (* its outer boundary *)
  Variable plimit : option Z.                 (* the limit it is given *)
  Variables kbv sp enc errs mnf sep cb : pv.
  Variable fuel : nat.

  (* read_multi has deleted the Content-Length of the part *)
  Hypothesis no_clen : hdr_get hs k_clen = None.
  (* the model does not follow parts of these two types *)
  Hypothesis RU_spec : forall self s,
    RU self s fuel = unmodelled "urlencoded part".
  Hypothesis RM_spec : forall self s,
    RM self s fuel = unmodelled "nested multipart".
  (* read_single of a parser that has read nothing (bytes_read = 0, done = 0,
     length = -1, any filename and inner boundary): read_lines ->
     read_lines_to_outerboundary; the file is seen as the pieces written *)
  Definition single_model (s : St) : res (pv * pv * pv * St) :=
    if is_nil ob then unmodelled "read_lines_to_eof"
    else match rlob St rl 65536 fuel (45 :: 45 :: ob)
                    (45 :: 45 :: ob ++ [45; 45]) plimit [] [] true 0 s with
         | RFuel => out_of_fuel
         | RDone pieces done nread s' =>
             Py.Ok (PList (map PBytes pieces), PInt done, PInt nread, s')
         end.
  Hypothesis RS_spec : forall fn ib s,
    RS (PTuple [enc_hdrs hs; PBytes ob; kbv; sp; inj_lim plimit; enc; errs;
                mnf; sep; cb; PInt 0; PInt 0; inj_name fn; ib; PInt (-1)])
       s fuel
    = single_model s.

  Lemma part_meta_eq :
    part_meta hs ob
    = (pd_get (snd (cdisp_of hs)) (s2l "name"),
       pd_get (snd (cdisp_of hs)) (s2l "filename"), meta_type hs ob).
  Proof.
    unfold meta_type, part_meta, cdisp_of.
    change (s2l "content-disposition") with k_cdisp.
    destruct (hdr_get hs k_cdisp); reflexivity.
  Qed.
  Lemma clen_none : clen_of INT hs = -1.
  Proof. unfold clen_of. rewrite no_clen. reflexivity. Qed.
  Lemma limit_part : limit_of plimit (-1) = plimit.
  Proof. destruct plimit; reflexivity. Qed.

  Theorem parse_spec_part ib0 s :
    part_view
      (parse_spec St E INT RU RM RS hs ob kbv sp plimit enc errs mnf sep cb
         (PInt 0) (PInt 0) ib0 s fuel)
    = inj_out (inj_part St) (parse_part St rl 65536 fuel hs ob plimit s).
  Proof.
    unfold parse_spec, self_obj, field_obj, parse_part.
    rewrite clen_none, limit_part, part_meta_eq.
    change (s2l "application/x-www-form-urlencoded") with t_urlenc.
    change (s2l "multipart/") with t_multi.
    set (ct := meta_type hs ob).
    destruct (lz_eqb ct t_urlenc).
    { rewrite RU_spec. reflexivity. }
    destruct (lz_eqb (slice_to ct 10) t_multi).
    { rewrite RM_spec. reflexivity. }
    rewrite RS_spec. unfold single_model.
    destruct (is_nil ob); [reflexivity|].
    destruct (rlob St rl 65536 fuel _ _ plimit [] [] true 0 s)
      as [pieces done nread s'|]; [|reflexivity].
    reflexivity.
  Qed.
End Part.

(* ------------------------------------------------------------------ *)
(* (2b) parse() of the top-level parser = the model's parse, with the
   generated read_multi (gen/MultiGen.v) as the multipart reader *)

(* field.list and the input object *)
Definition top_view {St} (r : res (pv * pv * pv * St)) : res (pv * St) :=
  match r with
  | Py.Ok (PTuple (_ :: l :: _), _, _, s) => Py.Ok (l, s)
  | Py.Ok _ => Err TypeError
  | Err e => Err e
  end.

(* pdict['boundary'].encode('utf-8', 'replace') as the model has it: a code
   point above 127 gives bytes above 127, which valid_boundary refuses *)
Definition enc_model (b : list Z) : list Z :=
  map (fun c => if c <? 128 then c else 255) b.

Section Top.
  Variable St : Type.
  Variable rl : Z -> St -> bytes * St.
  Variable INT : list Z -> option Z.
  Variable PARSE : nat -> pv -> St -> res (pv * pv * pv * St).
  Variables RU RS : pv -> St -> nat -> res (pv * pv * pv * St).
  Variable hs : list (list Z * list Z).       (* the request headers *)
  Variables kbv sp enc errs sep cb : pv.
  Variable fuel : nat.

  (* self.read_multi() on the parser object: the generated read_multi on
     the attributes it takes, in the order MULTI_FIELDS of py2v_multi.py *)
  Definition RM_gen (self : pv) (s : St) (fuel : nat)
    : res (pv * pv * pv * St) :=
    match self with
    | PTuple [_; obv; kbv'; sp'; lim; enc'; errs'; mnf; sep'; cb'; br; done;
              _; ibv; len] =>
        pr <- gen_read_multi St rl utf8_decode FPm PARSE ibv s br mnf enc'
                errs' lim kbv' sp' sep' cb' len obv done fuel ;;
        match pr with
        | (PTuple [v; d; n], s') => Py.Ok (v, d, n, s')
        | _ => Err TypeError
        end
    | _ => Err TypeError
    end.

  Definition top_ib : bytes :=
    match pd_get (ctype_params hs) k_boundary with
    | Some b => enc_model b
    | None => []
    end.

  Hypothesis PARSE_spec : forall hdrs plimit mnf s,
    PARSE fuel
      (PTuple [enc_hdrs hdrs; PBytes top_ib; kbv; sp; inj_lim plimit; enc;
               errs; inj_lim mnf; sep; cb]) s
    = inj_out (inj_part St) (parse_part St rl 65536 fuel hdrs top_ib plimit s).
  Hypothesis RU_spec : forall self s,
    RU self s fuel = unmodelled "urlencoded".
  Hypothesis RS_spec : forall self s,
    RS self s fuel = unmodelled "read_single at top level".

  Lemma view_read_multi (r : res (pv * St)) (c : pv) (F : pv -> list pv) :
    top_view
      (pr <- (pr' <- r ;;
              match pr' with
              | (PTuple [v; d; n], s') => Py.Ok (v, d, n, s')
              | _ => Err TypeError
              end) ;;
       let '(v, d, n, s') := pr in
       Py.Ok (PTuple (c :: v :: F v), d, n, s'))
    = list_view St r.
  Proof.
    destruct r as [[p s']|e]; [|reflexivity].
    destruct p as [| | | | |l|l|]; try reflexivity.
    destruct l as [|x1 [|x2 [|x3 [|x4 l]]]]; reflexivity.
  Qed.

  (* a parser as the constructor leaves it with the defaults of its
     signature (see gen_init_eq below) *)
  Theorem gen_parse_top_is_model s :
    skip_to_boundary St rl fuel (dashb top_ib) 0 s <> None ->
    top_view
      (gen_parse St parse_header enc_model INT RU RM_gen RS (enc_hdrs hs)
         (PBytes []) kbv sp PNone enc errs PNone sep cb (PInt 0) (PInt 0)
         PNone (PBytes []) (PInt (-1)) s fuel)
    = inj_out (inj_fields St)
        (parse St rl 65536 fuel (hdr_get hs k_ctype) (clen_of INT hs) s).
  Proof.
    intros Hskip.
    change PNone with (inj_lim None) at 1.
    rewrite gen_parse_eq.
    unfold parse_spec, self_obj, field_obj, parse, meta_type, part_meta,
      ib_of.
    change (s2l "content-type") with k_ctype.
    change (s2l "application/x-www-form-urlencoded") with t_urlenc.
    change (s2l "multipart/") with t_multi.
    change (s2l "boundary") with k_boundary.
    pose proof Hskip as Hskip'. unfold top_ib in Hskip'.
    pose proof PARSE_spec as HP. unfold top_ib in HP.
    unfold ctype_params in *.
    destruct (hdr_get hs k_ctype) as [v|]; cbn [snd is_nil].
    - destruct (parse_header v) as [ct pd]. cbn [fst snd] in *.
      destruct (lz_eqb ct t_urlenc).
      { rewrite RU_spec. reflexivity. }
      destruct (lz_eqb (slice_to ct 10) t_multi).
      2:{ rewrite RS_spec. reflexivity. }
      unfold RM_gen, limit_of.
      change (if 0 <=? clen_of INT hs then Some (clen_of INT hs) else None)
        with (limit_of None (clen_of INT hs)).
      set (lim := limit_of None (clen_of INT hs)).
      assert (Hib : (match pd_get pd k_boundary with
                     | Some b => PBytes (enc_model b)
                     | None => PBytes []
                     end) =
                    PBytes (match pd_get pd k_boundary with
                            | Some b => enc_model b
                            | None => []
                            end)) by (destruct (pd_get pd k_boundary); reflexivity).
      rewrite Hib. clear Hib.
      match goal with
      | |- top_view (pr <- (pr' <- ?r ;; _) ;; _) = _ =>
          rewrite (view_read_multi r _ (fun _ => _))
      end.
      fold enc_model.
      apply gen_read_multi_is_model; [exact HP|exact Hskip'].
    - change (lz_eqb t_urlenc t_urlenc) with true. cbn iota.
      rewrite RU_spec. reflexivity.
  Qed.
End Top.

(* ------------------------------------------------------------------ *)
(* (3) __init__ *)

(* the attributes the constructor leaves, in the order SELF_FIELDS of the
   translator: the ten arguments, then bytes_read = 0, done = 0,
   filename = None, innerboundary = b"", length = -1 -- the values the
   model's parse_part / read_multi start from (rlob ... [] [] true 0 s,
   skip_to_boundary ... 0 s) and parse_spec_part / gen_parse_top_is_model
   above are stated for *)
Definition init_state (h ob kbv sp lim enc errs mnf sep cb : pv) : pv :=
  PTuple [h; ob; kbv; sp; lim; enc; errs; mnf; sep; cb;
          PInt 0; PInt 0; PNone; PBytes []; PInt (-1)].
(* the defaults of the signature behind input_: headers=None,
   outerboundary=b'', keep_blank_values=0, strict_parsing=0, limit=None,
   encoding='utf-8', errors='replace', max_num_fields=None, separator='&',
   file_callback=None *)
Definition init_defaults : list pv :=
  [PNone; PBytes []; PInt 0; PInt 0; PNone; PStr (s2l "utf-8");
   PStr (s2l "replace"); PNone; PStr (s2l "&"); PNone].

Section Init.
  Variable St : Type.
  Variable IS_TEXTIO : St -> bool.         (* isinstance(x, TextIOWrapper) *)
  Variable BUFFER : St -> St.              (* x.buffer *)

  Theorem gen_init_eq s h ob kbv sp lim enc errs mnf sep cb :
    gen_init St IS_TEXTIO BUFFER s h ob kbv sp lim enc errs mnf sep cb
    = Py.Ok (init_state h ob kbv sp lim enc errs mnf sep cb,
             if IS_TEXTIO s then BUFFER s else s).
  Proof. reflexivity. Qed.

  Theorem gen_init_defaults_eq : gen_init_defaults = init_defaults.
  Proof. reflexivity. Qed.

  (* the sub-parser of read_multi: the class called with the arguments in
     the order CTOR_PARAMS of py2v_multi.py, then parse() *)
  Variable rl : Z -> St -> bytes * St.
  Variable E : list Z -> list Z.
  Variable INT : list Z -> option Z.
  Variables RU RM RS : pv -> St -> nat -> res (pv * pv * pv * St).

  Definition PARSE_gen (fuel : nat) (args : pv) (s : St)
    : res (pv * pv * pv * St) :=
    match args with
    | PTuple [h; ob; kbv; sp; lim; enc; errs; mnf; sep; cb] =>
        pr <- gen_init St IS_TEXTIO BUFFER s h ob kbv sp lim enc errs mnf
                sep cb ;;
        match pr with
        | (PTuple [f1; f2; f3; f4; f5; f6; f7; f8; f9; f10; f11; f12; f13;
                   f14; f15], s') =>
            gen_parse St parse_header E INT RU RM RS f1 f2 f3 f4 f5 f6 f7 f8
              f9 f10 f11 f12 f13 f14 f15 s' fuel
        | _ => Err TypeError
        end
    | _ => Err TypeError
    end.

  (* constructor + parse() of a part = the model's parse_part: what
     proofs/MultiGenEq.v assumes of its variable PARSE (PARSE_spec), up to
     the attributes the model keeps (part_view) *)
  Theorem PARSE_gen_is_parse_part
          (hs : list (list Z * list Z)) (ob : bytes) (plimit : option Z)
          (kbv sp enc errs mnf sep cb : pv) (fuel : nat) (s : St) :
    IS_TEXTIO s = false ->
    hdr_get hs k_clen = None ->
    (forall self s, RU self s fuel = unmodelled "urlencoded part") ->
    (forall self s, RM self s fuel = unmodelled "nested multipart") ->
    (forall fn ib s,
        RS (PTuple [enc_hdrs hs; PBytes ob; kbv; sp; inj_lim plimit; enc;
                    errs; mnf; sep; cb; PInt 0; PInt 0; inj_name fn; ib;
                    PInt (-1)]) s fuel
        = single_model St rl ob plimit fuel s) ->
    part_view
      (PARSE_gen fuel
         (PTuple [enc_hdrs hs; PBytes ob; kbv; sp; inj_lim plimit; enc; errs;
                  mnf; sep; cb]) s)
    = inj_out (inj_part St) (parse_part St rl 65536 fuel hs ob plimit s).
  Proof.
    intros Ht Hcl HU HM HS. unfold PARSE_gen.
    rewrite gen_init_eq, Ht. unfold init_state. cbn [bind].
    rewrite gen_parse_eq.
    apply parse_spec_part; assumption.
  Qed.
End Init.

(* ------------------------------------------------------------------ *)
(* (4) read_lines and read_single.  The hand model has no separate
   definitions for them: parse_part goes straight to rlob ("read_single:
   self.length = -1 -> read_lines -> read_lines_to_outerboundary"), and the
   file model of proofs/MultipartGenEq.v starts from [start fn cb]
   ("read_lines: make_file() if filename and file_callback, else a fresh
   BytesIO / StringIO").  Both comments are theorems here.  read_binary,
   skip_lines and read_lines_to_eof stay parameters. *)

(* the triple a generated method returns -> (value, done, bytes_read, input) *)
Definition unpack {St} (r : res (pv * St)) : res (pv * pv * pv * St) :=
  pr <- r ;;
  let '(t, inp) := pr in
  v <- pindex t 0 ;; d <- pindex t 1 ;; n <- pindex t 2 ;;
  Py.Ok (v, d, n, inp).

Lemma make_file_prod fn cb enc :
  named fn = true -> Py.truthy cb = true ->
  gen_make_file (inj_name fn) cb enc
  = Py.Ok (pnewfile (PTuple [PStr (s2l "Product"); inj_name fn])).
Proof.
  intros Hn Hc. unfold gen_make_file. rewrite !truthy_name, Hn.
  cbv beta zeta iota. rewrite Hc. unfold pcall_factory. rewrite Hc.
  reflexivity.
Qed.

Lemma pseek_file D fn enc st :
  pseek (inj_file D fn enc st) (PInt 0) = Py.Ok (inj_file D fn enc st).
Proof. destruct st; reflexivity. Qed.

Section Single.
  Variable St : Type.
  Variable rl : Z -> St -> bytes * St.
  Variable D : list Z -> list Z.
  Variables READ_BINARY SKIP_LINES : pv -> St -> nat -> res (pv * pv * pv * St).
  Variable READ_EOF : pv -> pv -> St -> nat -> res (pv * pv * pv * St).
  Variables hs kbv sp mnf sep ib : pv.        (* attributes not looked at *)
  Variable fn : option (list Z).              (* self.filename *)
  Variables cb enc errs : pv.
  Variable ob : bytes.
  Variable limit : option Z.
  Variable B0 : Z.                            (* self.bytes_read *)
  Variable fuel : nat.
  Hypothesis ob_nonempty : ob <> [].

  Ltac as_model FN ST :=
    match goal with
    | |- context [gen_read_lines_to_outerboundary _ _ _ _ _ _ _ _ ?f _ _ _
                    ?file _] =>
        change file with (inj_file D FN enc ST);
        change f with (inj_name FN)
    end.

  (* read_lines inside a multipart body: the file is created as the file
     model's [start] says, then read_lines_to_outerboundary *)
  Theorem gen_read_lines_eq len s :
    gen_read_lines St rl D READ_EOF hs (PBytes ob) kbv sp (inj_lim limit) enc
      errs mnf sep cb (PInt B0) (PInt 0) (inj_name fn) ib len s fuel
    = unpack
        (inj_res St D fn enc B0
           (rlob St rl 65536 fuel (dashb ob) (dashb ob ++ [45; 45]) limit
                 [] [] true 0 s) (start fn cb)).
  Proof.
    assert (Hob : Py.truthy (PBytes ob) = true)
      by (destruct ob; [congruence|reflexivity]).
    unfold gen_read_lines. rewrite Hob. unfold start, prod, isfile, unpack.
    destruct fn as [[|c n]|]; cbn [named andb inj_name Py.truthy].
    - as_model (Some (@nil Z)) (FMem []).
      rewrite gen_read_lines_to_outerboundary_eq by reflexivity.
      reflexivity.
    - destruct (Py.truthy cb) eqn:Hcb.
      + change (PStr (c :: n)) with (inj_name (Some (c :: n))).
        rewrite (make_file_prod (Some (c :: n)) cb enc) by
          (reflexivity || exact Hcb).
        cbn [bind inj_name].
        as_model (Some (c :: n)) (FProd []).
        rewrite gen_read_lines_to_outerboundary_eq
          by (unfold wf, prod, isfile; cbn [named andb]; exact Hcb).
        reflexivity.
      + as_model (Some (c :: n)) (FMem []).
        rewrite gen_read_lines_to_outerboundary_eq
          by (unfold wf, prod, isfile; cbn [named andb]; exact Hcb).
        reflexivity.
    - as_model (@None (list Z)) (FMem []).
      rewrite gen_read_lines_to_outerboundary_eq by reflexivity.
      reflexivity.
  Qed.

  (* ... and outside one (no outer boundary): the same file, handed to
     read_lines_to_eof *)
  Theorem gen_read_lines_eof_eq len br done s :
    gen_read_lines St rl D READ_EOF hs (PBytes []) kbv sp (inj_lim limit) enc
      errs mnf sep cb br done (inj_name fn) ib len s fuel
    = READ_EOF
        (PTuple [hs; PBytes []; kbv; sp; inj_lim limit; enc; errs; mnf; sep;
                 cb; br; done; inj_name fn; ib; len])
        (inj_file D fn enc (start fn cb)) s fuel.
  Proof.
    unfold gen_read_lines, start, prod, isfile.
    destruct fn as [[|c n]|]; cbn [named andb inj_name Py.truthy].
    - destruct (READ_EOF _ _ s fuel) as [[[[v d] n] s']|]; reflexivity.
    - destruct (Py.truthy cb) eqn:Hcb.
      + change (PStr (c :: n)) with (inj_name (Some (c :: n))).
        rewrite (make_file_prod (Some (c :: n)) cb enc) by
          (reflexivity || exact Hcb).
        cbn [bind inj_name].
        change (pnewfile (PTuple [PStr (s2l "Product"); PStr (c :: n)]))
          with (inj_file D (Some (c :: n)) enc (FProd [])).
        destruct (READ_EOF _ _ s fuel) as [[[[v d] n'] s']|]; reflexivity.
      + destruct (READ_EOF _ _ s fuel) as [[[[v d] n'] s']|]; reflexivity.
    - destruct (READ_EOF _ _ s fuel) as [[[[v d] n] s']|]; reflexivity.
  Qed.

  (* the parser object read_binary / skip_lines see *)
  Definition self_of (br done : pv) (L : Z) : pv :=
    PTuple [hs; PBytes ob; kbv; sp; inj_lim limit; enc; errs; mnf; sep; cb;
            br; done; inj_name fn; ib; PInt L].

  (* read_single for every int self.length: with a declared length
     (length >= 0) read_binary, skip_lines (on the bytes_read / done
     read_binary left), file.seek(0); without (a part: length = -1)
     read_lines, file.seek(0) *)
  Theorem gen_read_single_eq L s :
    gen_read_single St rl D READ_BINARY SKIP_LINES READ_EOF hs (PBytes ob)
      kbv sp (inj_lim limit) enc errs mnf sep cb (PInt B0) (PInt 0)
      (inj_name fn) ib (PInt L) s fuel
    = if 0 <=? L then
        pr <- READ_BINARY (self_of (PInt B0) (PInt 0) L) s fuel ;;
        let '(f, d, n, s1) := pr in
        pr2 <- SKIP_LINES (self_of n d L) s1 fuel ;;
        let '(_, d2, n2, s2) := pr2 in
        f' <- pseek f (PInt 0) ;;
        Py.Ok (f', d2, n2, s2)
      else
        match rlob St rl 65536 fuel (dashb ob) (dashb ob ++ [45; 45]) limit
                   [] [] true 0 s with
        | RFuel => out_of_fuel
        | RDone ps d n s' =>
            Py.Ok (inj_file D fn enc
                     (fold_left (mwrite D fn) ps (start fn cb)),
                   PInt d, PInt (B0 + n), s')
        end.
  Proof.
    unfold gen_read_single. rewrite pge0. cbn [bind Py.truthy].
    destruct (0 <=? L).
    - unfold self_of.
      destruct (READ_BINARY _ s fuel) as [[[[f d] n] s1]|]; [|reflexivity].
      cbn [bind].
      destruct (SKIP_LINES _ s1 fuel) as [[[[x d2] n2] s2]|]; reflexivity.
    - rewrite gen_read_lines_eq.
      destruct (rlob St rl 65536 fuel (dashb ob) (dashb ob ++ [45; 45]) limit
                     [] [] true 0 s) as [ps d n s'|]; [|reflexivity].
      unfold unpack, inj_res. cbn [bind]. rewrite !pindex_0, pindex_1.
      cbn [bind].
      change (pindex (PTuple [?a; ?b; ?c]) 2) with (@Py.Ok pv c).
      cbn [bind]. rewrite pseek_file. reflexivity.
  Qed.
End Single.
