(* Translator tie for C10: the definitions generated from
   poorwsgi/request.py and poorwsgi/fieldstorage.py (gen/FormGen.v, by
   harness/py2v_form.py over lib/PyForm.v) equal the hand model
   model/QueryForm.v, for all inputs of the model's types.

   For the accessors two statements each: [*_spec] for every conversion
   callback [func] / [fce] and every default (which values the callback is
   applied to, in which order, where the default is answered), and
   [*_is_model]: called the way the correspondence calls them (the
   generated default values of the parameters) they answer the model's
   result. *)
From Coq Require Import ZArith List Bool String Lia.
Require Import PW.lib.Val PW.lib.ValFacts PW.model.QueryForm
               PW.proofs.QueryFormProofs PW.lib.PyForm PW.gen.FormGen.
Import ListNotations.
Open Scope string_scope.
Open Scope list_scope.
Open Scope Z_scope.

(* ---------------------------------------------------------------- basics *)
Lemma bind_ok {A} (r : res A) : bind r (fun x => Ok x) = r.
Proof. destruct r; reflexivity. Qed.

(* func(x) for every x of a list, left to right *)
Fixpoint map_res (f : fv -> res fv) (l : list fv) : res (list fv) :=
  match l with
  | [] => Ok []
  | x :: r => v <- f x ;; vs <- map_res f r ;; Ok (v :: vs)
  end.

Lemma collect_map_res (f : fv -> res fv) l :
  collect l (fun x => v <- f x ;; Ok (Some v)) = map_res f l.
Proof.
  induction l as [|x l IH]; [reflexivity|].
  cbn [collect map_res]. destruct (f x) as [v|e]; [|reflexivity].
  cbn [bind]. rewrite IH. reflexivity.
Qed.

Lemma map_res_ok l : map_res (fun x => Ok x) l = Ok l.
Proof.
  induction l as [|x l IH]; [reflexivity|].
  cbn [map_res bind]. rewrite IH. reflexivity.
Qed.

Lemma seq_index_0_cons {A} (x : A) r : seq_index (x :: r) 0 = Some x.
Proof.
  unfold seq_index. cbn [List.length].
  replace (0 <? Z.of_nat (S (List.length r))) with true
    by (symmetry; apply Z.ltb_lt; lia).
  reflexivity.
Qed.

Lemma getitem_0_cons c x r : p_getitem (FList c (x :: r)) (FInt 0) = Ok x.
Proof. unfold p_getitem. rewrite seq_index_0_cons. reflexivity. Qed.

Lemma getitem_0_nil c : p_getitem (FList c []) (FInt 0) = Err index_error.
Proof. reflexivity. Qed.

(* the callback chosen by `if fce: func = fce` *)
Definition pick (b : bool) (fce func : fv) : fv := if b then fce else func.
(* `default or []` *)
Definition or_empty (b : bool) (dflt : fv) : fv :=
  if b then dflt else FList LPlain [].

(* -------------------------------------------------- dicts with str keys *)
Lemma lookup_emb_items {T} (f : T -> fv) k (d : list (K * T)) :
  dict_lookup (FStr k) (emb_items f d) = option_map f (lookup k d).
Proof.
  induction d as [|[k' x] d IH]; [reflexivity|].
  cbn [emb_items map dict_lookup lookup fst snd fv_eqb].
  destruct (lz_eqb k' k); [reflexivity|exact IH].
Qed.

Lemma contains_str_dict c k items :
  builtin_contains (FDict c items) (FStr k) =
  Ok (FBool match dict_lookup (FStr k) items with
            | Some _ => true | None => false end).
Proof. reflexivity. Qed.

Lemma getitem_str_dict c k items :
  builtin_getitem (FDict c items) (FStr k) =
  match dict_lookup (FStr k) items with
  | Some x => Ok x
  | None => Err (Raised "KeyError")
  end.
Proof. reflexivity. Qed.

(* ================================================================ (1) *)
(* FieldStorageInterface over a dict with str keys, any callback/default *)
Section Iface.
Variable apply : nat -> fv -> res fv.
Notation call := (p_call apply).

Lemma iface_getvalue_dict c items k dflt f :
  gen_iface_getvalue apply builtin_contains builtin_getitem
    (FDict c items) (FStr k) dflt f =
  match dict_lookup (FStr k) items with
  | None => Ok dflt
  | Some x => call f x
  end.
Proof.
  unfold gen_iface_getvalue. rewrite contains_str_dict, getitem_str_dict.
  destruct (dict_lookup (FStr k) items) as [x|]; cbn [bind p_truth];
    [|reflexivity].
  apply bind_ok.
Qed.

(* what getfirst answers for the stored value x *)
Definition first_of (fn dflt x : fv) : res fv :=
  match x with
  | FList _ [] => Ok dflt
  | FList _ (y :: _) => call fn y
  | _ => call fn x
  end.

Lemma iface_getfirst_dict c items k dflt f fce b :
  p_truth fce = Ok b ->
  gen_iface_getfirst apply builtin_contains builtin_getitem
    (FDict c items) (FStr k) dflt f fce =
  match dict_lookup (FStr k) items with
  | None => Ok dflt
  | Some x => first_of (pick b fce f) dflt x
  end.
Proof.
  intros Hb. unfold gen_iface_getfirst. rewrite Hb. cbn [bind].
  assert (H : forall fn,
    (v3 <- builtin_contains (FDict c items) (FStr k) ;;
     v15 <- p_truth v3 ;;
     if v15 then
       (v5 <- builtin_getitem (FDict c items) (FStr k) ;;
        v6 <- p_isinstance v5 [Clist] ;;
        v14 <- p_truth v6 ;;
        if v14 then
          (v13 <- p_truth v5 ;;
           if v13 then (v11 <- p_getitem v5 (FInt 0) ;;
                        v12 <- call fn v11 ;; Ok v12)
           else Ok dflt)
        else (v8 <- call fn v5 ;; Ok v8))
     else Ok dflt) =
    match dict_lookup (FStr k) items with
    | None => Ok dflt
    | Some x => first_of fn dflt x
    end).
  { intros fn. rewrite contains_str_dict, getitem_str_dict.
    destruct (dict_lookup (FStr k) items) as [x|]; cbn [bind p_truth];
      [|reflexivity].
    destruct x as [| | | | | |cl l| | | | |];
      try (cbn [p_isinstance existsb isinstance1 orb bind p_truth first_of];
           apply bind_ok).
    destruct l as [|y l].
    - reflexivity.
    - cbn [p_isinstance existsb isinstance1 orb bind p_truth first_of is_nil
           negb].
      rewrite getitem_0_cons. cbn [bind]. apply bind_ok. }
  destruct b; cbn [pick]; apply H.
Qed.

(* what getlist answers for the stored value x *)
Definition list_of (fn x : fv) : res fv :=
  match x with
  | FList _ l => vs <- map_res (call fn) l ;; Ok (FList LPlain vs)
  | _ => v <- call fn x ;; Ok (FList LPlain [v])
  end.

Lemma iface_getlist_dict c items k dflt f fce b bd :
  p_truth fce = Ok b -> p_truth dflt = Ok bd ->
  gen_iface_getlist apply builtin_contains builtin_getitem
    (FDict c items) (FStr k) dflt f fce =
  match dict_lookup (FStr k) items with
  | None => Ok (or_empty bd dflt)
  | Some x => list_of (pick b fce f) x
  end.
Proof.
  intros Hb Hd. unfold gen_iface_getlist. rewrite Hb. cbn [bind].
  assert (H : forall fn,
    (v3 <- builtin_contains (FDict c items) (FStr k) ;;
     v17 <- p_truth v3 ;;
     if v17 then
       (v8 <- builtin_getitem (FDict c items) (FStr k) ;;
        v9 <- p_isinstance v8 [Clist] ;;
        v16 <- p_truth v9 ;;
        if v16 then
          (v12 <- p_iter v8 ;;
           v15 <- collect v12 (fun v13 => v14 <- call fn v13 ;; Ok (Some v14)) ;;
           Ok (FList LPlain v15))
        else (v11 <- call fn v8 ;; Ok (FList LPlain [v11])))
     else (v7 <- p_truth dflt ;;
           if v7 then Ok dflt else Ok (FList LPlain []))) =
    match dict_lookup (FStr k) items with
    | None => Ok (or_empty bd dflt)
    | Some x => list_of fn x
    end).
  { intros fn. rewrite contains_str_dict, getitem_str_dict.
    destruct (dict_lookup (FStr k) items) as [x|]; cbn [bind p_truth].
    - destruct x as [| | | | | |cl l| | | | |];
        try reflexivity.
      cbn [p_isinstance existsb isinstance1 orb bind p_truth p_iter list_of].
      rewrite collect_map_res. reflexivity.
    - rewrite Hd. cbn [bind]. destruct bd; reflexivity. }
  destruct b; cbn [pick]; apply H.
Qed.
End Iface.

(* ------------------------------------------------------------- Args *)
Section Args.
Variable apply : nat -> fv -> res fv.
Notation call := (p_call apply).

Lemma lookup_args k d :
  dict_lookup (FStr k) (emb_items emb_aval d) = option_map emb_aval (lookup k d).
Proof. apply lookup_emb_items. Qed.

(* Args.getvalue: the stored scalar or list goes through func as a whole *)
Theorem args_getvalue_spec d k dflt f :
  gen_Args_getvalue apply (emb_args d) (FStr k) dflt f =
  match lookup k d with
  | None => Ok dflt
  | Some a => call f (emb_aval a)
  end.
Proof.
  unfold gen_Args_getvalue, emb_args. rewrite iface_getvalue_dict, lookup_args.
  destruct (lookup k d); reflexivity.
Qed.

(* Args.getfirst: func on the scalar / on the first element; the default
   for a missing key and for an empty list *)
Theorem args_getfirst_spec d k dflt f fce b :
  p_truth fce = Ok b ->
  gen_Args_getfirst apply (emb_args d) (FStr k) dflt f fce =
  match lookup k d with
  | None => Ok dflt
  | Some (AS s) => call (pick b fce f) (FStr s)
  | Some (AL []) => Ok dflt
  | Some (AL (x :: _)) => call (pick b fce f) (FStr x)
  end.
Proof.
  intros Hb. unfold gen_Args_getfirst, emb_args.
  rewrite (iface_getfirst_dict _ _ _ _ _ _ _ _ Hb), lookup_args.
  destruct (lookup k d) as [[s|[|x l]]|]; reflexivity.
Qed.

(* Args.getlist: func on every value in order; `default or []` *)
Theorem args_getlist_spec d k dflt f fce b bd :
  p_truth fce = Ok b -> p_truth dflt = Ok bd ->
  gen_Args_getlist apply (emb_args d) (FStr k) dflt f fce =
  match lookup k d with
  | None => Ok (or_empty bd dflt)
  | Some (AS s) => v <- call (pick b fce f) (FStr s) ;; Ok (FList LPlain [v])
  | Some (AL l) => vs <- map_res (call (pick b fce f)) (map FStr l) ;;
                   Ok (FList LPlain vs)
  end.
Proof.
  intros Hb Hd. unfold gen_Args_getlist, emb_args.
  rewrite (iface_getlist_dict _ _ _ _ _ _ _ _ _ Hb Hd), lookup_args.
  destruct (lookup k d) as [[s|l]|]; reflexivity.
Qed.

Lemma map_okz_some l : map emb_okz (map Some l) = map FStr l.
Proof. rewrite map_map. reflexivity. Qed.

Theorem args_getvalue_is_model d k :
  gen_Args_getvalue apply (emb_args d) (FStr k)
    gen_iface_getvalue_default_2 gen_iface_getvalue_default_3 =
  emb_tres (a_getvalue d k).
Proof.
  rewrite args_getvalue_spec. unfold a_getvalue.
  destruct (lookup k d) as [[s|l]|]; cbn [emb_tres]; try reflexivity.
  rewrite map_okz_some. reflexivity.
Qed.

Theorem args_getfirst_is_model d k :
  gen_Args_getfirst apply (emb_args d) (FStr k)
    gen_iface_getfirst_default_2 gen_iface_getfirst_default_3
    gen_iface_getfirst_default_4 =
  emb_tres (a_getfirst d k).
Proof.
  rewrite (args_getfirst_spec _ _ _ _ _ false) by reflexivity.
  unfold a_getfirst. destruct (lookup k d) as [[s|[|x l]]|]; reflexivity.
Qed.

Theorem args_getlist_is_model d k :
  gen_Args_getlist apply (emb_args d) (FStr k)
    gen_iface_getlist_default_2 gen_iface_getlist_default_3
    gen_iface_getlist_default_4 =
  emb_tres (a_getlist d k).
Proof.
  rewrite (args_getlist_spec _ _ _ _ _ false false) by reflexivity.
  unfold a_getlist. destruct (lookup k d) as [[s|l]|]; cbn [emb_tres];
    try reflexivity.
  cbn [pick gen_iface_getlist_default_3].
  change (p_call apply FIdent) with (fun x : fv => Ok x).
  rewrite map_res_ok, map_okz_some. reflexivity.
Qed.
End Args.

(* ------------------------------------------------------- Args.__init__ *)
(* dict(pairs) for pairs with distinct str keys is the list of the pairs *)
Definition pair_of {T} (f : T -> fv) (kv : K * T) : fv :=
  FTuple [FStr (fst kv); f (snd kv)].

Lemma dict_set_new {T} (f : T -> fv) k v (d : list (K * T)) :
  ~ In k (map fst d) ->
  dict_set (emb_items f d) (FStr k) v = emb_items f d ++ [(FStr k, v)].
Proof.
  induction d as [|[k' x] d IH]; intros Hn; [reflexivity|].
  cbn [emb_items map dict_set fst snd fv_eqb app].
  destruct (lz_eqb k' k) eqn:E.
  - apply lz_eqb_eq in E. subst k'. exfalso. apply Hn. left. reflexivity.
  - f_equal. apply IH. intros Hi. apply Hn. right. exact Hi.
Qed.

Lemma emb_items_app {T} (f : T -> fv) (a b : list (K * T)) :
  emb_items f (a ++ b) = emb_items f a ++ emb_items f b.
Proof. apply map_app. Qed.

Lemma update_pairs_distinct {T} (f : T -> fv) (d : list (K * T)) :
  forall d0, NoDup (map fst (d0 ++ d)) ->
  update_pairs (emb_items f d0) (map (pair_of f) d) =
  Ok (emb_items f (d0 ++ d)).
Proof.
  induction d as [|[k x] d IH]; intros d0 Hn.
  - rewrite app_nil_r. reflexivity.
  - cbn [map update_pairs pair_of p_unpack2 bind fst snd simple].
    rewrite dict_set_new.
    + change [(FStr k, f x)] with (emb_items f [(k, x)]).
      rewrite <- emb_items_app, IH.
      * rewrite <- app_assoc. reflexivity.
      * rewrite <- app_assoc. exact Hn.
    + rewrite map_app in Hn. apply NoDup_remove_2 in Hn.
      intros Hi. apply Hn. apply in_or_app. left. exact Hi.
Qed.

Lemma new_dict_distinct {T} (f : T -> fv) c (d : list (K * T)) :
  NoDup (map fst d) ->
  p_dict_update (FDict c []) (FList LPlain (map (pair_of f) d)) =
  Ok (FDict c (emb_items f d)).
Proof.
  intros Hn. unfold p_dict_update. cbn [p_iter bind].
  change (@nil (fv * fv)) with (emb_items f []).
  rewrite update_pairs_distinct by exact Hn. reflexivity.
Qed.

(* keys of parse_qs are distinct *)
Lemma existsb_lz_in k l :
  existsb (fun k' => lz_eqb k' k) l = false -> ~ In k l.
Proof.
  induction l as [|a l IH]; intros H Hi; [exact Hi|].
  cbn [existsb] in H. apply orb_false_iff in H. destruct H as [Ha Hl].
  destruct Hi as [->|Hi].
  - rewrite lz_eqb_refl in Ha. discriminate.
  - exact (IH Hl Hi).
Qed.

Lemma NoDup_app_one {A} (l : list A) x :
  NoDup l -> ~ In x l -> NoDup (l ++ [x]).
Proof.
  induction 1 as [|a l Ha Hl IH]; intros Hx.
  - repeat constructor. intros [].
  - cbn [app]. constructor.
    + intros Hi. apply in_app_or in Hi. destruct Hi as [Hi|[->|[]]].
      * exact (Ha Hi).
      * apply Hx. left. reflexivity.
    + apply IH. intros Hi. apply Hx. right. exact Hi.
Qed.

Lemma first_occ_nodup ks : forall seen,
  NoDup seen -> NoDup (seen ++ first_occ seen ks).
Proof.
  induction ks as [|k ks IH]; intros seen Hs.
  - cbn [first_occ]. rewrite app_nil_r. exact Hs.
  - cbn [first_occ].
    destruct (existsb (fun k' => lz_eqb k' k) seen) eqn:E; [apply IH, Hs|].
    change (k :: first_occ (seen ++ [k]) ks)
      with ([k] ++ first_occ (seen ++ [k]) ks).
    rewrite app_assoc. apply IH.
    apply NoDup_app_one; [exact Hs|apply existsb_lz_in, E].
Qed.

Lemma group_keys_nodup ps : NoDup (map fst (group ps)).
Proof.
  unfold group.
  change (fun d kv => dict_add d (fst kv) (snd kv)) with add_pair.
  rewrite fold_keys. cbn [map app].
  apply (first_occ_nodup (map fst ps) [] (NoDup_nil _)).
Qed.

Lemma group_nonempty ps : nonempty_lists (group ps).
Proof.
  unfold group.
  change (fun d kv => dict_add d (fst kv) (snd kv)) with add_pair.
  apply fold_nonempty. constructor.
Qed.

(* one element of the generator expression of Args.__init__ *)
Definition collapse_elt (v6 : fv) : res (option fv) :=
  v7 <- p_unpack2 v6 ;;
  let '(v8, v9) := v7 in
  let v10 := fun (v11 : fv) => (Ok (Some (FTuple [v8; v11]))) in
  v12 <- p_len v9 ;;
  v13 <- p_lt v12 (FInt 2) ;;
  v15 <- p_truth v13 ;;
  if v15 then (v14 <- p_getitem v9 (FInt 0) ;; v10 v14) else (v10 v9).

Lemma collapse_elt_ok k vs :
  vs <> [] ->
  collapse_elt (FTuple [FStr k; FList LPlain (map FStr vs)]) =
  Ok (Some (pair_of emb_aval (k, collapse1 vs))).
Proof.
  intros Hne. unfold collapse_elt. cbn [p_unpack2 bind p_len].
  rewrite map_length. destruct vs as [|v [|v2 r]]; [contradiction| |].
  - cbn [List.length p_lt p_cmp bind p_truth map].
    replace (Z.of_nat 1 <? 2) with true by reflexivity.
    rewrite getitem_0_cons. reflexivity.
  - cbn [List.length p_lt p_cmp bind p_truth].
    replace (Z.of_nat (S (S (List.length r))) <? 2) with false
      by (symmetry; apply Z.ltb_ge; lia).
    reflexivity.
Qed.

Lemma collect_collapse g :
  nonempty_lists g ->
  collect (map (fun kv => FTuple [fst kv; snd kv])
             (map (fun kv : K * list K =>
                     (FStr (fst kv), FList LPlain (map FStr (snd kv)))) g))
          collapse_elt =
  Ok (map (pair_of emb_aval)
          (map (fun kv => (fst kv, collapse1 (snd kv))) g)).
Proof.
  induction 1 as [|[k vs] g Hkv Hg IH]; [reflexivity|].
  cbn [map collect fst snd]. cbn [snd] in Hkv.
  rewrite (collapse_elt_ok k vs Hkv). cbn [bind].
  rewrite IH. reflexivity.
Qed.

Definition QUERY_STRING : list Z :=
  [81; 85; 69; 82; 89; 95; 83; 84; 82; 73; 78; 71].

(* SimpleRequest.query = environ.get('QUERY_STRING', '').strip() *)
Theorem query_is_model c env qs :
  dict_lookup (FStr QUERY_STRING) env = Some (FStr qs) \/
  (dict_lookup (FStr QUERY_STRING) env = None /\ qs = []) ->
  gen_SimpleRequest_query (FDict c env) = Ok (FStr (strip qs)).
Proof.
  unfold gen_SimpleRequest_query, p_dict_get. cbn [simple].
  fold QUERY_STRING.
  intros [H|[H ->]]; rewrite H; reflexivity.
Qed.

(* Args(req, keep_blank_values, strict_parsing=0) on a new (empty) Args
   object: the model's [args_of], for every environ dictionary and every
   value given for keep_blank_values *)
Theorem args_init_is_model c env qs keep kb :
  dict_lookup (FStr QUERY_STRING) env = Some (FStr qs) \/
  (dict_lookup (FStr QUERY_STRING) env = None /\ qs = []) ->
  p_truth keep = Ok kb ->
  gen_Args_init (FDict DArgs []) (FDict c env) keep gen_Args_init_default_3 =
  Ok (emb_args (args_of kb qs)).
Proof.
  intros Hq Hk. unfold gen_Args_init.
  rewrite (query_is_model _ _ _ Hq). cbn [bind p_truth].
  unfold args_of. destruct (is_nil (strip qs)) eqn:En; cbn [negb].
  - reflexivity.
  - unfold p_parse_qs, gen_Args_init_default_3. cbn [p_truth bind].
    replace (0 =? 0) with true by reflexivity. cbn [negb].
    rewrite Hk. cbn [bind emb_qs p_items p_iter].
    fold collapse_elt. unfold parse_qs.
    rewrite (collect_collapse _ (group_nonempty _)). cbn [bind].
    fold (args_dict (parse_qsl kb (strip qs))).
    rewrite new_dict_distinct; [reflexivity|].
    unfold args_dict. rewrite map_map. cbn [fst].
    apply group_keys_nodup.
Qed.

(* ================================================================ (3) *)
Section Json.
Variable apply : nat -> fv -> res fv.
Notation call := (p_call apply).

(* ------------------------------------------------------------ EmptyForm *)
Theorem empty_getvalue_spec self k dflt f :
  gen_EmptyForm_getvalue self k dflt f = Ok dflt.
Proof. reflexivity. Qed.

Theorem empty_getfirst_spec self k dflt f fce b :
  p_truth fce = Ok b -> gen_EmptyForm_getfirst self k dflt f fce = Ok dflt.
Proof.
  intros Hb. unfold gen_EmptyForm_getfirst. rewrite Hb.
  destruct b; reflexivity.
Qed.

Theorem empty_getlist_spec self k dflt f fce b bd :
  p_truth fce = Ok b -> p_truth dflt = Ok bd ->
  gen_EmptyForm_getlist self k dflt f fce = Ok (or_empty bd dflt).
Proof.
  intros Hb Hd. unfold gen_EmptyForm_getlist. rewrite Hb.
  destruct b; cbn [bind]; rewrite Hd; destruct bd; reflexivity.
Qed.

Theorem empty_getvalue_is_model self k :
  gen_EmptyForm_getvalue self (FStr k) gen_EmptyForm_getvalue_default_2
    gen_EmptyForm_getvalue_default_3 = emb_tres (e_getvalue k).
Proof. reflexivity. Qed.

Theorem empty_getfirst_is_model self k :
  gen_EmptyForm_getfirst self (FStr k) gen_EmptyForm_getfirst_default_2
    gen_EmptyForm_getfirst_default_3 gen_EmptyForm_getfirst_default_4 =
  emb_tres (e_getfirst k).
Proof. reflexivity. Qed.

Theorem empty_getlist_is_model self k :
  gen_EmptyForm_getlist self (FStr k) gen_EmptyForm_getlist_default_2
    gen_EmptyForm_getlist_default_3 gen_EmptyForm_getlist_default_4 =
  emb_tres (e_getlist k).
Proof. reflexivity. Qed.

(* ------------------------------------------------------------- JsonDict *)
(* req.json when the body is a JSON object *)
Definition emb_jsondict (d : list (K * J)) : fv :=
  FDict DJsonDict (emb_items emb_j d).

Lemma lookup_json k d :
  dict_lookup (FStr k) (emb_items emb_j d) = option_map emb_j (lookup k d).
Proof. apply lookup_emb_items. Qed.

Theorem jsondict_getvalue_spec d k dflt f :
  gen_JsonDict_getvalue apply (emb_jsondict d) (FStr k) dflt f =
  match lookup k d with
  | None => Ok dflt
  | Some j => call f (emb_j j)
  end.
Proof.
  unfold gen_JsonDict_getvalue, emb_jsondict.
  rewrite iface_getvalue_dict, lookup_json.
  destruct (lookup k d); reflexivity.
Qed.

Theorem jsondict_getfirst_spec d k dflt f fce b :
  p_truth fce = Ok b ->
  gen_JsonDict_getfirst apply (emb_jsondict d) (FStr k) dflt f fce =
  match lookup k d with
  | None => Ok dflt
  | Some (JArr []) => Ok dflt
  | Some (JArr (x :: _)) => call (pick b fce f) (emb_j x)
  | Some j => call (pick b fce f) (emb_j j)
  end.
Proof.
  intros Hb. unfold gen_JsonDict_getfirst, emb_jsondict.
  rewrite (iface_getfirst_dict _ _ _ _ _ _ _ _ Hb), lookup_json.
  destruct (lookup k d) as [[| | | | |[|x l]|]|]; reflexivity.
Qed.

Theorem jsondict_getlist_spec d k dflt f fce b bd :
  p_truth fce = Ok b -> p_truth dflt = Ok bd ->
  gen_JsonDict_getlist apply (emb_jsondict d) (FStr k) dflt f fce =
  match lookup k d with
  | None => Ok (or_empty bd dflt)
  | Some (JArr l) => vs <- map_res (call (pick b fce f)) (map emb_j l) ;;
                     Ok (FList LPlain vs)
  | Some j => v <- call (pick b fce f) (emb_j j) ;; Ok (FList LPlain [v])
  end.
Proof.
  intros Hb Hd. unfold gen_JsonDict_getlist, emb_jsondict.
  rewrite (iface_getlist_dict _ _ _ _ _ _ _ _ _ Hb Hd), lookup_json.
  destruct (lookup k d) as [[| | | | |l|]|]; reflexivity.
Qed.

(* with the default callback, for every default handed in *)
Theorem jsondict_getvalue_is_model d k dflt :
  gen_JsonDict_getvalue apply (emb_jsondict d) (FStr k) dflt
    gen_iface_getvalue_default_3 = emb_jres dflt (jd_getvalue d k).
Proof.
  rewrite jsondict_getvalue_spec. unfold jd_getvalue.
  destruct (lookup k d); reflexivity.
Qed.

Theorem jsondict_getfirst_is_model d k dflt :
  gen_JsonDict_getfirst apply (emb_jsondict d) (FStr k) dflt
    gen_iface_getfirst_default_3 gen_iface_getfirst_default_4 =
  emb_jres dflt (jd_getfirst d k).
Proof.
  rewrite (jsondict_getfirst_spec _ _ _ _ _ false) by reflexivity.
  unfold jd_getfirst.
  destruct (lookup k d) as [[| | | | |[|x l]|]|]; reflexivity.
Qed.

(* getlist is called without a default *)
Theorem jsondict_getlist_is_model d k :
  gen_JsonDict_getlist apply (emb_jsondict d) (FStr k)
    gen_iface_getlist_default_2 gen_iface_getlist_default_3
    gen_iface_getlist_default_4 =
  emb_jres gen_iface_getlist_default_2 (jd_getlist d k).
Proof.
  rewrite (jsondict_getlist_spec _ _ _ _ _ false false) by reflexivity.
  unfold jd_getlist.
  destruct (lookup k d) as [[| | | | |l|]|]; try reflexivity.
  cbn [pick gen_iface_getlist_default_3].
  change (p_call apply FIdent) with (fun x : fv => Ok x).
  rewrite map_res_ok. reflexivity.
Qed.

(* ------------------------------------------------------------- JsonList *)
Definition emb_jsonlist (l : list J) : fv := FList LJsonList (map emb_j l).

Theorem jsonlist_getvalue_spec l k dflt f :
  gen_JsonList_getvalue apply (emb_jsonlist l) k dflt f =
  match l with
  | [] => Ok dflt
  | x :: _ => call f (emb_j x)
  end.
Proof.
  unfold gen_JsonList_getvalue, emb_jsonlist, builtin_getitem.
  destruct l as [|x l]; [reflexivity|].
  cbn [map p_truth is_nil negb bind]. rewrite getitem_0_cons. cbn [bind].
  apply bind_ok.
Qed.

Theorem jsonlist_getfirst_spec l k dflt f fce b :
  p_truth fce = Ok b ->
  gen_JsonList_getfirst apply (emb_jsonlist l) k dflt f fce =
  match l with
  | [] => Ok dflt
  | x :: _ => call (pick b fce f) (emb_j x)
  end.
Proof.
  intros Hb. unfold gen_JsonList_getfirst. rewrite Hb.
  destruct b; cbn [bind pick]; rewrite bind_ok; apply jsonlist_getvalue_spec.
Qed.

Theorem jsonlist_getlist_spec l k dflt f fce b bd :
  p_truth fce = Ok b -> p_truth dflt = Ok bd ->
  gen_JsonList_getlist apply (emb_jsonlist l) k dflt f fce =
  match l with
  | [] => Ok (or_empty bd dflt)
  | _ => vs <- map_res (call (pick b fce f)) (map emb_j l) ;;
         Ok (FList LPlain vs)
  end.
Proof.
  intros Hb Hd. unfold gen_JsonList_getlist. rewrite Hb.
  assert (H : forall fn,
    (v3 <- p_not (emb_jsonlist l) ;;
     v12 <- p_truth v3 ;;
     if v12 then (v11 <- p_truth dflt ;;
                  if v11 then Ok dflt else Ok (FList LPlain []))
     else (v5 <- p_iter (emb_jsonlist l) ;;
           v8 <- collect v5 (fun v6 => v7 <- call fn v6 ;; Ok (Some v7)) ;;
           Ok (FList LPlain v8))) =
    match l with
    | [] => Ok (or_empty bd dflt)
    | _ => vs <- map_res (call fn) (map emb_j l) ;; Ok (FList LPlain vs)
    end).
  { intros fn. unfold emb_jsonlist, p_not. destruct l as [|x l].
    - cbn [map p_truth is_nil negb bind]. rewrite Hd. destruct bd; reflexivity.
    - cbn [p_truth is_nil map negb bind p_iter]. rewrite collect_map_res.
      reflexivity. }
  destruct b; cbn [bind pick]; apply H.
Qed.

Theorem jsonlist_getvalue_is_model l k dflt :
  gen_JsonList_getvalue apply (emb_jsonlist l) k dflt
    gen_JsonList_getvalue_default_3 = emb_jres dflt (jl_getvalue l).
Proof. rewrite jsonlist_getvalue_spec. destruct l; reflexivity. Qed.

Theorem jsonlist_getfirst_is_model l k dflt :
  gen_JsonList_getfirst apply (emb_jsonlist l) k dflt
    gen_JsonList_getfirst_default_3 gen_JsonList_getfirst_default_4 =
  emb_jres dflt (jl_getfirst l).
Proof.
  rewrite (jsonlist_getfirst_spec _ _ _ _ _ false) by reflexivity.
  destruct l; reflexivity.
Qed.

Theorem jsonlist_getlist_is_model l k :
  gen_JsonList_getlist apply (emb_jsonlist l) k
    gen_JsonList_getlist_default_2 gen_JsonList_getlist_default_3
    gen_JsonList_getlist_default_4 =
  emb_jres gen_JsonList_getlist_default_2 (jl_getlist l).
Proof.
  rewrite (jsonlist_getlist_spec _ _ _ _ _ false false) by reflexivity.
  destruct l as [|x l]; [reflexivity|].
  cbn [pick gen_JsonList_getlist_default_3].
  change (p_call apply FIdent) with (fun x : fv => Ok x).
  rewrite map_res_ok. reflexivity.
Qed.
End Json.

(* ================================================================ (2) *)
Section Form.
Variable apply : nat -> fv -> res fv.
Notation call := (p_call apply).

Lemma attr_list n v l : p_getattr (FFs n v l) "list" = Ok (FList LPlain l).
Proof. reflexivity. Qed.
Lemma attr_name n v l : p_getattr (FFs n v l) "name" = Ok n.
Proof. reflexivity. Qed.
Lemma attr_value n v l : p_getattr (FFs n v l) "_value" = Ok v.
Proof. reflexivity. Qed.
Lemma attr_file n v l : p_getattr (FFs n v l) "file" = Ok FNone.
Proof. reflexivity. Qed.

(* FieldStorage.value of a leaf: its string, also when it is '' *)
Theorem form_value_is_model f :
  gen_FieldStorage_value (emb_field f) = Ok (emb_okz (fval (snd f))).
Proof. reflexivity. Qed.

(* ... and for every object without a file: the `is not None` test *)
Theorem form_value_spec n v l :
  gen_FieldStorage_value (FFs n v l) =
  match v with
  | FNone => Ok (match l with [] => FNone | _ => FList LPlain l end)
  | _ => Ok v
  end.
Proof. destruct v; try reflexivity. destruct l; reflexivity. Qed.

Lemma any_name_eq k fs :
  any_gen (map emb_field fs)
    (fun v6 => v7 <- p_getattr v6 "name" ;; v8 <- p_eq v7 (FStr k) ;;
               Ok (Some v8)) =
  Ok (FBool (existsb (fun f : K * K => lz_eqb (fst f) k) fs)).
Proof.
  induction fs as [|f fs IH]; [reflexivity|].
  cbn [map any_gen existsb]. unfold emb_field at 1. rewrite attr_name.
  cbn [bind p_eq simple andb fv_eqb p_truth].
  destruct (lz_eqb (fst f) k); cbn [orb]; [reflexivity|exact IH].
Qed.

(* key in form *)
Theorem form_contains_is_model fs k :
  gen_FieldStorage_contains (emb_form fs) (FStr k) =
  Ok (FBool (f_contains fs k)).
Proof.
  unfold gen_FieldStorage_contains, emb_form, f_contains.
  rewrite attr_list. cbn [bind]. unfold p_not. cbn [p_truth bind].
  destruct fs as [|f fs]; [reflexivity|].
  cbn [map is_nil negb bind p_iter].
  change (emb_field f :: map emb_field fs) with (map emb_field (f :: fs)).
  rewrite any_name_eq. reflexivity.
Qed.

Definition emb_fitem (o : option fitem) : res fv :=
  match o with
  | None => Err (Raised "KeyError")
  | Some (FOne f) => Ok (emb_field f)
  | Some (FMany l) => Ok (FList LPlain (map emb_field l))
  end.

Lemma f_found_cons (f : K * K) fs k :
  f_found (f :: fs) k =
  if lz_eqb (fst f) k then f :: f_found fs k else f_found fs k.
Proof. reflexivity. Qed.

Lemma found_loop k fs : forall acc,
  for_loop (map emb_field fs)
    (fun (v6 v7 : fv) =>
       let v8 := v7 in
       v9 <- p_getattr v6 "name" ;;
       v10 <- p_eq v9 (FStr k) ;;
       let v11 := fun v12 : fv => Ok (Next v12) in
       v14 <- p_truth v10 ;;
       if v14 then (v13 <- p_append v8 v6 ;; v11 v13) else v11 v8)
    (FList LPlain (map emb_field acc)) =
  Ok (Next (FList LPlain (map emb_field (acc ++ f_found fs k)))).
Proof.
  induction fs as [|f fs IH]; intros acc.
  - cbn [map for_loop f_found filter]. rewrite app_nil_r. reflexivity.
  - cbn [map for_loop]. rewrite f_found_cons. unfold emb_field at 1.
    rewrite attr_name. cbn [bind p_eq simple andb fv_eqb p_truth].
    destruct (lz_eqb (fst f) k).
    + cbn [p_append bind].
      replace (map emb_field acc ++ [emb_field f])
        with (map emb_field (acc ++ [f])) by (rewrite map_app; reflexivity).
      rewrite IH, <- app_assoc. reflexivity.
    + cbn [bind]. apply IH.
Qed.

(* form[key]: the field, the list of fields, or KeyError *)
Theorem form_getitem_is_model fs k :
  gen_FieldStorage_getitem (emb_form fs) (FStr k) = emb_fitem (f_getitem fs k).
Proof.
  unfold gen_FieldStorage_getitem, emb_form, f_getitem.
  rewrite attr_list. cbn [bind]. unfold p_not at 1. cbn [p_truth bind].
  destruct fs as [|f0 fs0]; [reflexivity|].
  set (fs := f0 :: fs0).
  replace (is_nil (map emb_field fs)) with false by reflexivity.
  replace (is_nil fs) with false by reflexivity.
  cbn [negb bind p_iter].
  change (FList LPlain []) with (FList LPlain (map emb_field [])).
  rewrite found_loop. cbn [bind app].
  destruct (f_found fs k) as [|f [|f2 r]].
  - reflexivity.
  - unfold p_not. cbn [map p_truth is_nil negb bind p_len List.length p_eq
                       simple andb fv_eqb].
    replace (Z.of_nat 1 =? 1) with true by reflexivity.
    rewrite getitem_0_cons. reflexivity.
  - unfold p_not. cbn [map p_truth is_nil negb bind p_len List.length p_eq
                       simple andb fv_eqb].
    rewrite map_length.
    replace (Z.of_nat (S (S (List.length r))) =? 1) with false
      by (symmetry; apply Z.eqb_neq; lia).
    reflexivity.
Qed.

Lemma collect_values fn l :
  collect (map emb_field l)
    (fun v9 => v10 <- gen_FieldStorage_value v9 ;; v11 <- call fn v10 ;;
               Ok (Some v11)) =
  map_res (call fn) (map (fun f : K * K => FStr (snd f)) l).
Proof.
  induction l as [|f l IH]; [reflexivity|].
  cbn [map collect map_res]. rewrite form_value_is_model.
  cbn [bind fval emb_okz].
  destruct (call fn (FStr (snd f))); [|reflexivity].
  cbn [bind]. rewrite IH. reflexivity.
Qed.

(* FieldStorage.getvalue: func on the value of the single field / of every
   field in order; the default only for a missing key *)
Theorem form_getvalue_spec fs k dflt f :
  gen_FieldStorage_getvalue apply (emb_form fs) (FStr k) dflt f =
  if f_contains fs k then
    match f_getitem fs k with
    | None => Err (Raised "KeyError")
    | Some (FOne x) => call f (FStr (snd x))
    | Some (FMany l) =>
        vs <- map_res (call f) (map (fun x : K * K => FStr (snd x)) l) ;;
        Ok (FList LPlain vs)
    end
  else Ok dflt.
Proof.
  unfold gen_FieldStorage_getvalue.
  rewrite form_contains_is_model. cbn [bind p_truth].
  destruct (f_contains fs k); [|reflexivity].
  rewrite form_getitem_is_model.
  destruct (f_getitem fs k) as [[x|l]|]; cbn [emb_fitem bind].
  - cbn [emb_field p_isinstance existsb isinstance1 orb bind p_truth].
    change (FFs (FStr (fst x)) (FStr (snd x)) []) with (emb_field x).
    rewrite form_value_is_model. cbn [bind fval emb_okz]. apply bind_ok.
  - cbn [p_isinstance existsb isinstance1 orb bind p_truth p_iter].
    rewrite collect_values. reflexivity.
  - reflexivity.
Qed.

(* FieldStorage.getfirst: func on the value of the single / the first field *)
Theorem form_getfirst_spec fs k dflt f fce b :
  p_truth fce = Ok b ->
  gen_FieldStorage_getfirst apply (emb_form fs) (FStr k) dflt f fce =
  if f_contains fs k then
    match f_getitem fs k with
    | None => Err (Raised "KeyError")
    | Some (FOne x) => call (pick b fce f) (FStr (snd x))
    | Some (FMany []) => Err (Raised "IndexError")
    | Some (FMany (x :: _)) => call (pick b fce f) (FStr (snd x))
    end
  else Ok dflt.
Proof.
  intros Hb. unfold gen_FieldStorage_getfirst. rewrite Hb.
  assert (H : forall fn,
    (v3 <- gen_FieldStorage_contains (emb_form fs) (FStr k) ;;
     v14 <- p_truth v3 ;;
     if v14 then
       (v5 <- gen_FieldStorage_getitem (emb_form fs) (FStr k) ;;
        v6 <- p_isinstance v5 [Clist] ;;
        v13 <- p_truth v6 ;;
        if v13 then (v10 <- p_getitem v5 (FInt 0) ;;
                     v11 <- gen_FieldStorage_value v10 ;;
                     v12 <- call fn v11 ;; Ok v12)
        else (v8 <- gen_FieldStorage_value v5 ;; v9 <- call fn v8 ;; Ok v9))
     else Ok dflt) =
    if f_contains fs k then
      match f_getitem fs k with
      | None => Err (Raised "KeyError")
      | Some (FOne x) => call fn (FStr (snd x))
      | Some (FMany []) => Err (Raised "IndexError")
      | Some (FMany (x :: _)) => call fn (FStr (snd x))
      end
    else Ok dflt).
  { intros fn. rewrite form_contains_is_model. cbn [bind p_truth].
    destruct (f_contains fs k); [|reflexivity].
    rewrite form_getitem_is_model.
    destruct (f_getitem fs k) as [[x|[|x l]]|]; cbn [emb_fitem bind].
    - cbn [emb_field p_isinstance existsb isinstance1 orb bind p_truth].
      change (FFs (FStr (fst x)) (FStr (snd x)) []) with (emb_field x).
      rewrite form_value_is_model. cbn [bind fval emb_okz]. apply bind_ok.
    - reflexivity.
    - cbn [map p_isinstance existsb isinstance1 orb bind p_truth].
      rewrite getitem_0_cons. cbn [bind]. rewrite form_value_is_model.
      cbn [bind fval emb_okz]. apply bind_ok.
    - reflexivity. }
  destruct b; cbn [bind pick]; apply H.
Qed.

(* what getlist makes of the answer of getvalue(key, func=func) *)
Definition listify (bd : bool) (dflt v : fv) : fv :=
  match v with
  | FList _ _ => v
  | FNone => or_empty bd dflt
  | _ => FList LPlain [v]
  end.

(* FieldStorage.getlist: getvalue with default None and the callback, then
   a list stays, None (only None: '' is a value) gives `default or []`,
   anything else is wrapped *)
Theorem form_getlist_spec self k dflt f fce b bd :
  p_truth fce = Ok b -> p_truth dflt = Ok bd ->
  gen_FieldStorage_getlist apply self k dflt f fce =
  v <- gen_FieldStorage_getvalue apply self k FNone (pick b fce f) ;;
  Ok (listify bd dflt v).
Proof.
  intros Hb Hd. unfold gen_FieldStorage_getlist. rewrite Hb.
  assert (H : forall fn,
    (v3 <- gen_FieldStorage_getvalue apply self k FNone fn ;;
     v4 <- p_isinstance v3 [Clist] ;;
     v12 <- p_truth v4 ;;
     if v12 then Ok v3
     else (v6 <- p_is_none v3 ;;
           v11 <- p_truth v6 ;;
           if v11 then (v10 <- p_truth dflt ;;
                        if v10 then Ok dflt else Ok (FList LPlain []))
           else Ok (FList LPlain [v3]))) =
    (v <- gen_FieldStorage_getvalue apply self k FNone fn ;;
     Ok (listify bd dflt v))).
  { intros fn.
    destruct (gen_FieldStorage_getvalue apply self k FNone fn) as [v|e];
      [|reflexivity].
    cbn [bind].
    destruct v; try reflexivity.
    cbn [p_isinstance existsb isinstance1 orb bind p_truth p_is_none listify].
    rewrite Hd. destruct bd; reflexivity. }
  destruct b; cbn [bind pick]; apply H.
Qed.

Lemma map_okz_fval (l : list (K * K)) :
  map emb_okz (map (fun f => fval (snd f)) l) = map (fun x : K * K => FStr (snd x)) l.
Proof. rewrite map_map. reflexivity. Qed.

Theorem form_getvalue_is_model fs k :
  gen_FieldStorage_getvalue apply (emb_form fs) (FStr k)
    gen_FieldStorage_getvalue_default_2 gen_FieldStorage_getvalue_default_3 =
  emb_tres (f_getvalue fs k).
Proof.
  rewrite form_getvalue_spec. unfold f_getvalue.
  destruct (f_contains fs k); [|reflexivity].
  destruct (f_getitem fs k) as [[x|l]|]; try reflexivity.
  cbn [emb_tres gen_FieldStorage_getvalue_default_3].
  change (p_call apply FIdent) with (fun x : fv => Ok x).
  rewrite map_res_ok, map_okz_fval. reflexivity.
Qed.

Theorem form_getfirst_is_model fs k :
  gen_FieldStorage_getfirst apply (emb_form fs) (FStr k)
    gen_FieldStorage_getfirst_default_2 gen_FieldStorage_getfirst_default_3
    gen_FieldStorage_getfirst_default_4 =
  emb_tres (f_getfirst fs k).
Proof.
  rewrite (form_getfirst_spec _ _ _ _ _ false) by reflexivity.
  unfold f_getfirst.
  destruct (f_contains fs k); [|reflexivity].
  destruct (f_getitem fs k) as [[x|[|x l]]|]; reflexivity.
Qed.

Theorem form_getlist_is_model fs k :
  gen_FieldStorage_getlist apply (emb_form fs) (FStr k)
    gen_FieldStorage_getlist_default_2 gen_FieldStorage_getlist_default_3
    gen_FieldStorage_getlist_default_4 =
  emb_tres (f_getlist fs k).
Proof.
  rewrite (form_getlist_spec _ _ _ _ _ false false) by reflexivity.
  cbn [pick].
  change FNone with gen_FieldStorage_getvalue_default_2 at 1.
  change gen_FieldStorage_getlist_default_3
    with gen_FieldStorage_getvalue_default_3.
  rewrite form_getvalue_is_model. unfold f_getlist.
  destruct (f_getvalue fs k) as [|s|l|e]; reflexivity.
Qed.
End Form.

(* FieldStorage.keys(): the names in order of first occurrence *)
Definition none_item (k : K) : fv * fv := (FStr k, FNone).

Lemma dict_set_none seen k :
  dict_set (map none_item seen) (FStr k) FNone =
  if existsb (fun k' => lz_eqb k' k) seen then map none_item seen
  else map none_item (seen ++ [k]).
Proof.
  induction seen as [|a seen IH]; [reflexivity|].
  cbn [map dict_set existsb app]. unfold none_item at 1. cbn [fv_eqb].
  destruct (lz_eqb a k); cbn [orb]; [reflexivity|].
  rewrite IH. destruct (existsb (fun k' => lz_eqb k' k) seen); reflexivity.
Qed.

Lemma fromkeys_first_occ ks : forall seen,
  fromkeys (map none_item seen) (map FStr ks) =
  Ok (map none_item (seen ++ first_occ seen ks)).
Proof.
  induction ks as [|k ks IH]; intros seen.
  - cbn [map fromkeys first_occ]. rewrite app_nil_r. reflexivity.
  - cbn [map fromkeys first_occ simple]. rewrite dict_set_none.
    destruct (existsb (fun k' => lz_eqb k' k) seen).
    + apply IH.
    + rewrite IH, <- app_assoc. reflexivity.
Qed.

Theorem form_keys_is_model fs :
  gen_FieldStorage_keys (emb_form fs) =
  Ok (FList LPlain (map FStr (first_occ [] (map fst fs)))).
Proof.
  unfold gen_FieldStorage_keys, emb_form. rewrite attr_list. cbn [bind p_iter].
  replace (collect (map emb_field fs)
             (fun v3 => v4 <- p_getattr v3 "name" ;; Ok (Some v4)))
    with (Ok (A:=list fv) (map FStr (map fst fs))).
  - cbn [bind]. unfold p_dict_fromkeys.
    change (@nil (fv * fv)) with (map none_item []).
    rewrite fromkeys_first_occ. cbn [bind app p_keys].
    rewrite map_map. reflexivity.
  - induction fs as [|f fs IH]; [reflexivity|].
    cbn [map collect]. rewrite <- IH. unfold emb_field at 1.
    rewrite attr_name. reflexivity.
Qed.

(* ================================================================ (4) *)
(* json.loads builds dicts: the keys of an object are distinct *)
Definition loads_dicts (loads : list Z -> option J) : Prop :=
  forall t l, loads t = Some (JObj l) -> NoDup (map fst l).

Lemma items_pairs (d : list (K * J)) :
  map (fun kv : fv * fv => FTuple [fst kv; snd kv]) (emb_items emb_j d) =
  map (pair_of emb_j) d.
Proof. unfold emb_items. rewrite map_map. reflexivity. Qed.

(* parse_json_request(raw, charset): every failure of decode / loads is
   HTTPException(400); dict -> JsonDict, list -> JsonList, others as is *)
Theorem parse_json_is_model decode loads raw charset :
  loads_dicts loads ->
  gen_parse_json_request decode loads (FBytes raw) (FStr charset) =
  emb_json_out (parse_json_request decode loads raw charset).
Proof.
  intros Hd. unfold gen_parse_json_request, parse_json_request, p_decode.
  destruct (decode charset raw) as [t|]; [|reflexivity].
  cbn [bind]. unfold p_json_loads.
  destruct (loads t) as [j|] eqn:El; [|reflexivity].
  cbn [bind]. destruct j as [| | | | |l|l]; try reflexivity.
  (* scalars and list -> JsonList by computation; dict -> JsonDict: *)
  cbn [emb_j p_isinstance existsb isinstance1 orb bind p_truth p_items].
  fold (emb_items emb_j l). rewrite items_pairs. unfold p_new_dict.
  rewrite new_dict_distinct by exact (Hd _ _ El). reflexivity.
Qed.

(* ================================================================ (5) *)
Theorem is_body_request_is_model c :
  gen_is_body_request c = is_body_request c.
Proof. unfold gen_is_body_request, is_body_request. apply Z.gtb_ltb. Qed.

(* app.auto_data and 0 <= content_length <= app.data_size *)
Theorem init_buffered_is_model c : gen_init_buffered c = buffered c.
Proof. unfold gen_init_buffered, buffered. apply andb_assoc. Qed.

(* app.auto_json and (is_body_request or protocol == "HTTP/0.9") and
   mime_type in app.json_mime_types *)
Theorem init_json_branch_is_model c : gen_init_json_branch c = json_branch c.
Proof.
  unfold gen_init_json_branch, gen_init_json_test, json_branch, body_expected.
  rewrite is_body_request_is_model. reflexivity.
Qed.

(* elif app.auto_form and (...) and mime_type in app.form_mime_types *)
Theorem init_form_branch_is_model c : gen_init_form_branch c = form_branch c.
Proof.
  unfold gen_init_form_branch, form_branch. rewrite <- init_json_branch_is_model.
  unfold gen_init_json_branch, gen_init_form_test, body_expected.
  rewrite is_body_request_is_model.
  destruct (gen_init_json_test c), (auto_form c), (is_body_request c),
    (http09 c), (in_form c); reflexivity.
Qed.

(* the stream is buffered before the body is parsed (the model's body_plan
   asks [buffered] first) *)
Theorem init_steps_is_model :
  gen_init_steps = [SBuffer; SArgs; SBody; SCookies].
Proof. reflexivity. Qed.
