(* generated HTML_ESCAPE_TABLE / html_escape (gen/EscapeGen.v, regenerated from
   poorwsgi/results.py by harness/py2v_escape.py) = the hand model of
   model/Pages.v ([escape_table], [esc1], [html_escape]). *)
From Coq Require Import ZArith List Bool Lia.
Require Import PW.lib.Val PW.model.Pages PW.lib.PyEscape PW.gen.EscapeGen.
Import ListNotations.
Open Scope Z_scope.

(* the table: same items in the same order (list equality).  The order is
   NOT semantically relevant here (the keys are pairwise distinct, so the
   first-match lookup of the model and the last-match lookup of a Python dict
   display agree, next lemma); the theorem states the stronger, ordered
   equality because it holds. *)
Theorem gen_escape_table_eq : gen_html_escape_table = escape_table.
Proof. reflexivity. Qed.

(* as a map: Python's display lookup (last equal key wins) on the generated
   table = the model's first-match [table_get] on [escape_table], for every
   character *)
Theorem gen_escape_lookup_eq :
  forall c, py_dict_get_d gen_html_escape_table c [c] = esc1 c.
Proof.
  intro c. unfold esc1, gen_html_escape_table, escape_table.
  cbn [py_dict_get_d table_get].
  destruct (c =? 38) eqn:E1; destruct (c =? 34) eqn:E2;
  destruct (c =? 39) eqn:E3; destruct (c =? 62) eqn:E4;
  destruct (c =? 60) eqn:E5; try reflexivity;
  rewrite ?Z.eqb_eq in *; lia.
Qed.

Theorem gen_html_escape_eq :
  forall text, gen_html_escape text = html_escape text.
Proof.
  intro text. unfold gen_html_escape. rewrite py_join_empty_sep.
  unfold py_genexp.
  induction text as [|c s IH]; [reflexivity|].
  cbn [map concat html_escape]. rewrite IH, gen_escape_lookup_eq. reflexivity.
Qed.
