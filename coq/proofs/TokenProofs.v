From Coq Require Import ZArith List Bool Lia.
Require Import PW.lib.Val PW.lib.ValFacts PW.lib.Dec PW.model.Token.
Import ListNotations.
Open Scope Z_scope.

Ltac Zify.zify_post_hook ::= Z.to_euclidean_division_equations.

Section Proofs.
  Variable H : list Z -> list Z.
  Hypothesis H_inj : forall a b, H a = H b -> a = b.

  Definition window (t T : Z) : Z := t / (T * usec).

  Lemma window_nonneg t T : 0 < T -> 0 <= t -> 0 <= window t T.
  Proof. intros HT Ht. unfold window, usec. apply Z.div_pos; lia. Qed.

  Lemma text_eq_iff s c a b :
    0 <= a -> 0 <= b -> (s ++ dec a ++ c = s ++ dec b ++ c <-> a = b).
  Proof.
    intros Ha Hb. split; [|intros ->; reflexivity].
    intros E. apply app_inv_head in E. apply app_inv_tail in E.
    apply dec_inj; assumption.
  Qed.

  Lemma tok_cmp s c a b :
    0 <= a -> 0 <= b ->
    lz_eqb (H (s ++ dec a ++ c)) (H (s ++ dec b ++ c)) = (a =? b).
  Proof.
    intros Ha Hb. destruct (a =? b) eqn:E.
    - apply Z.eqb_eq in E. subst. apply lz_eqb_refl.
    - apply lz_eqb_neq. intros E'. apply H_inj in E'.
      apply text_eq_iff in E'; try assumption. apply Z.eqb_neq in E. contradiction.
  Qed.

  Lemma get_token_explicit s c T e t :
    T <> 0 -> e <> 0 ->
    get_token H s c (Some T) e t = Some (H (s ++ dec e ++ c)).
  Proof.
    intros HT He. unfold get_token, token_text, has_timeout.
    replace (T =? 0) with false by (symmetry; apply Z.eqb_neq; lia).
    replace (e =? 0) with false by (symmetry; apply Z.eqb_neq; lia).
    reflexivity.
  Qed.

  (* the whole computation for a positive timeout, in closed form *)
  Lemma verify_positive s c T t0 t1 :
    0 < T -> 0 <= t0 -> 0 <= t1 ->
    verify H s c s c (Some T) t0 t1 =
    Some ((window t1 T =? window t0 T + 1) || (window t1 T =? window t0 T)).
  Proof.
    intros HT H0 H1.
    pose proof (window_nonneg t0 T HT H0) as W0.
    pose proof (window_nonneg t1 T HT H1) as W1.
    unfold verify, get_token, check_token, token_text, has_timeout, aligned, tok_eqb.
    replace (T =? 0) with false by (symmetry; apply Z.eqb_neq; lia).
    cbn [negb option_map]. rewrite Z.eqb_refl. cbn [option_map].
    fold (window t0 T). fold (window t1 T).
    rewrite !get_token_explicit by nia. cbn [option_map].
    rewrite !tok_cmp by nia.
    replace (window t0 T * T + 2 * T =? window t1 T * T + T)
      with (window t1 T =? window t0 T + 1)
      by (apply Bool.eq_true_iff_eq; rewrite !Z.eqb_eq; nia).
    replace (window t0 T * T + 2 * T =? window t1 T * T + T + T)
      with (window t1 T =? window t0 T)
      by (apply Bool.eq_true_iff_eq; rewrite !Z.eqb_eq; nia).
    destruct (window t1 T =? window t0 T + 1); reflexivity.
  Qed.

  Theorem verify_iff_windows s c T t0 t1 :
    0 < T -> 0 <= t0 -> 0 <= t1 ->
    (verify H s c s c (Some T) t0 t1 = Some true <->
     window t1 T = window t0 T \/ window t1 T = window t0 T + 1).
  Proof.
    intros HT H0 H1. rewrite verify_positive by assumption.
    split.
    - intros E. injection E as E. apply orb_true_iff in E.
      destruct E as [E|E]; apply Z.eqb_eq in E; auto.
    - intros [E|E]; f_equal; apply orb_true_iff; [right|left]; apply Z.eqb_eq; exact E.
  Qed.

  Theorem fresh_verifies s c T t0 t1 :
    0 < T -> 0 <= t0 <= t1 -> t1 - t0 < T * usec ->
    verify H s c s c (Some T) t0 t1 = Some true.
  Proof.
    intros HT H01 Hd. apply verify_iff_windows; try lia.
    unfold window, usec in *. nia.
  Qed.

  Theorem old_rejected s c T t0 t1 :
    0 < T -> 0 <= t0 <= t1 -> 2 * T * usec <= t1 - t0 ->
    verify H s c s c (Some T) t0 t1 = Some false.
  Proof.
    intros HT H01 Hd. rewrite verify_positive by lia. f_equal.
    apply orb_false_iff. split; apply Z.eqb_neq; unfold window, usec in *; nia.
  Qed.

  Theorem no_timeout_never_expires s c timeout t0 t1 :
    has_timeout timeout = false ->
    verify H s c s c timeout t0 t1 = Some true.
  Proof.
    intros Hn. unfold verify, check_token, get_token, token_text, tok_eqb.
    rewrite !Hn. cbn [has_timeout option_map].
    rewrite lz_eqb_refl. reflexivity.
  Qed.

  (* totality at the level of Python exceptions: None, 0 and every non-zero
     timeout give a value, never ZeroDivisionError *)
  Theorem token_never_raises s c s' c' timeout t0 t1 :
    verify H s c s' c' timeout t0 t1 <> None.
  Proof.
    unfold verify, check_token, tok_eqb, get_token, token_text, has_timeout, aligned.
    destruct timeout as [T|]; [|cbn; discriminate].
    destruct (T =? 0) eqn:E; cbn [negb option_map]; [discriminate|].
    rewrite Z.eqb_refl. cbn [option_map].
    repeat match goal with
           | |- context [if ?b then _ else _] => destruct b; cbn [option_map]
           end; discriminate.
  Qed.

  (* a different secret or client is rejected exactly when the hashed texts
     differ (the texts are unseparated concatenations, see the refutation) *)
  Theorem other_pair_no_timeout s c s' c' t0 t1 :
    verify H s c s' c' None t0 t1 = Some true <-> s ++ c = s' ++ c'.
  Proof.
    unfold verify, check_token, tok_eqb, get_token, token_text.
    cbn [has_timeout option_map]. split.
    - intros E. injection E as E. apply lz_eqb_eq in E. apply H_inj in E. exact E.
    - intros E. f_equal. apply lz_eqb_eq. rewrite E. reflexivity.
  Qed.
End Proofs.

(* The full "never verifies under a different secret or client" is false of
   the faithful model (and of the code): known finding. *)
Theorem other_secret_or_client_rejected_refuted :
  exists s c s' c', (s <> s' \/ c <> c') /\
    verify idH s c s' c' None 0 0 = Some true.
Proof.
  exists [97; 98], [99], [97], [98; 99]. split.
  - left. discriminate.
  - vm_compute. reflexivity.
Qed.

(* non-vacuity: a concrete state meeting the hypotheses of the window
   theorems *)
Example windows_example :
  verify idH [115] [99] [115] [99] (Some 300) 1000000000 1299999999 = Some true /\
  verify idH [115] [99] [115] [99] (Some 300) 1000000000 1600000000 = Some false.
Proof. split; vm_compute; reflexivity. Qed.
