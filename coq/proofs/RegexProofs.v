(* Proofs about model/Regex.v:
   - [nullable_correct], [deriv_correct], [accepts_correct],
     [accepts_prefix_correct]: the derivative matchers decide the relational
     semantics (whole string / some prefix), for every expression, every
     text and every classification of the non-ASCII code points;
   - [bt_sound] / [bt_complete], [re_match_sound], [re_match_some_iff]: the
     backtracking matcher reports only valid parses (with exactly the
     captures that parse writes) and finds one whenever one exists;
   - [matches_ctx_indep]: without end anchors a match does not depend on
     what follows. *)
From Coq Require Import ZArith List Bool Lia.
Require Import PW.lib.Val PW.lib.ValFacts PW.model.Regex.
Import ListNotations.
Open Scope list_scope.
Open Scope Z_scope.

Section P.
  Variable U : uclass.
  Notation Matches := (Matches U).
  Notation MatchesC := (MatchesC U).

  (* ------------------------------------------------------- inversions *)
  Lemma fail_inv s rest : ~ Matches Fail s rest.
  Proof. intros H. inversion H; subst. discriminate. Qed.

  Lemma eps_inv s rest : Matches Eps s rest -> s = [].
  Proof. intros H. inversion H; reflexivity. Qed.

  Lemma cls_inv neg items s rest :
    Matches (Cls neg items) s rest ->
    exists c, s = [c] /\ cls_match U neg items c = true.
  Proof. intros H. inversion H; subst. eauto. Qed.

  Lemma seq_inv a b s rest :
    Matches (Seq a b) s rest ->
    exists s1 s2, s = s1 ++ s2 /\ Matches a s1 (s2 ++ rest) /\ Matches b s2 rest.
  Proof. intros H. inversion H; subst. eauto. Qed.

  Lemma alt_inv a b s rest :
    Matches (Alt a b) s rest -> Matches a s rest \/ Matches b s rest.
  Proof. intros H. inversion H; subst; auto. Qed.

  Lemma group_inv i nm a s rest :
    Matches (Group i nm a) s rest -> Matches a s rest.
  Proof. intros H. inversion H; subst; auto. Qed.

  Lemma endz_inv s rest : Matches EndZ s rest -> s = [] /\ rest = [].
  Proof. intros H. inversion H; auto. Qed.

  Lemma eol_inv s rest :
    Matches Eol s rest -> s = [] /\ (rest = [] \/ rest = [10]).
  Proof. intros H. inversion H; auto. Qed.

  Lemma star_cons_inv a c s rest :
    Matches (Star a) (c :: s) rest ->
    exists s1 s2, s = s1 ++ s2 /\ Matches a (c :: s1) (s2 ++ rest) /\
                  Matches (Star a) s2 rest.
  Proof.
    intros H. remember (Star a) as r eqn:Er. remember (c :: s) as cs eqn:Es.
    revert c s Es.
    induction H; intros c0 s0 Es; try discriminate.
    injection Er as ->.
    destruct s1 as [|x s1].
    - simpl in Es. apply IHMatches2; auto.
    - simpl in Es. injection Es as -> <-. exists s1, s2. auto.
  Qed.

  (* -------------------------------------------------- smart constructors *)
  Lemma is_fail_eq r : is_fail r = true -> r = Fail.
  Proof.
    destruct r; try discriminate. destruct neg; try discriminate.
    destruct items; try discriminate. reflexivity.
  Qed.
  Lemma is_eps_eq r : is_eps r = true -> r = Eps.
  Proof. destruct r; try discriminate. reflexivity. Qed.

  Lemma mkSeq_ok a b s rest :
    Matches (mkSeq a b) s rest <-> Matches (Seq a b) s rest.
  Proof.
    unfold mkSeq. destruct (is_fail a) eqn:F.
    - apply is_fail_eq in F. subst a. split; intros H.
      + exfalso. exact (fail_inv _ _ H).
      + apply seq_inv in H as (s1 & s2 & _ & H & _). exfalso.
        exact (fail_inv _ _ H).
    - destruct (is_eps a) eqn:E; [|reflexivity].
      apply is_eps_eq in E. subst a. split; intros H.
      + apply (MSeq U Eps b [] s rest); [constructor|assumption].
      + apply seq_inv in H as (s1 & s2 & -> & H1 & H2).
        apply eps_inv in H1. subst s1. exact H2.
  Qed.

  Lemma mkAlt_ok a b s rest :
    Matches (mkAlt a b) s rest <-> Matches (Alt a b) s rest.
  Proof.
    unfold mkAlt. destruct (is_fail a) eqn:F.
    - apply is_fail_eq in F. subst a. split; intros H.
      + apply MAltR. assumption.
      + apply alt_inv in H as [H|H]; [exfalso; exact (fail_inv _ _ H)|assumption].
    - destruct (is_fail b) eqn:G; [|reflexivity].
      apply is_fail_eq in G. subst b. split; intros H.
      + apply MAltL. assumption.
      + apply alt_inv in H as [H|H]; [assumption|exfalso; exact (fail_inv _ _ H)].
  Qed.

  (* ------------------------------------------------------------ nullable *)
  Lemma nullable_correct r : forall rest,
    nullable rest r = true <-> Matches r [] rest.
  Proof.
    induction r; intros rest; cbn [nullable].
    - split; intros; [constructor|reflexivity].
    - split; intros H; [discriminate|]. apply cls_inv in H as (c & H & _).
      discriminate.
    - rewrite andb_true_iff, IHr1, IHr2. split.
      + intros [H1 H2]. apply (MSeq U r1 r2 [] [] rest); assumption.
      + intros H. apply seq_inv in H as (s1 & s2 & E & H1 & H2).
        symmetry in E. apply app_eq_nil in E as [-> ->]. auto.
    - rewrite orb_true_iff, IHr1, IHr2. split.
      + intros [H|H]; [apply MAltL|apply MAltR]; assumption.
      + apply alt_inv.
    - split; intros; [constructor|reflexivity].
    - rewrite IHr. split; [apply MGroup|apply group_inv].
    - destruct rest; split; intros H; try constructor; try discriminate.
      apply endz_inv in H as [_ H]. discriminate.
    - destruct rest as [|c [|d rest]]; split; intros H; try constructor;
        try discriminate.
      + apply Z.eqb_eq in H. subst c. constructor.
      + apply eol_inv in H as [_ [H|H]]; [discriminate|].
        injection H as ->. reflexivity.
      + apply eol_inv in H as [_ [H|H]]; discriminate.
  Qed.

  (* ---------------------------------------------------------- derivative *)
  Lemma deriv_correct r : forall c s rest,
    Matches (deriv U c (s ++ rest) r) s rest <-> Matches r (c :: s) rest.
  Proof.
    induction r; intros c s rest; cbn [deriv].
    - split; intros H; [exfalso; exact (fail_inv _ _ H)|].
      apply eps_inv in H. discriminate.
    - destruct (cls_match U neg items c) eqn:E; split; intros H.
      + apply eps_inv in H. subst s. constructor. assumption.
      + apply cls_inv in H as (c' & H & _). injection H as <- ->. constructor.
      + exfalso. exact (fail_inv _ _ H).
      + apply cls_inv in H as (c' & H & H'). injection H as <- ->. congruence.
    - rewrite mkAlt_ok. split; intros H.
      + apply alt_inv in H as [H|H].
        * apply mkSeq_ok in H. apply seq_inv in H as (s1 & s2 & -> & H1 & H2).
          rewrite <- app_assoc in H1. apply IHr1 in H1.
          apply (MSeq U r1 r2 (c :: s1) s2 rest); assumption.
        * destruct (nullable (c :: s ++ rest) r1) eqn:N;
            [|exfalso; exact (fail_inv _ _ H)].
          apply IHr2 in H. apply nullable_correct in N.
          apply (MSeq U r1 r2 [] (c :: s) rest); assumption.
      + apply seq_inv in H as (s1 & s2 & E & H1 & H2).
        destruct s1 as [|x s1].
        * simpl in E. subst s2. apply MAltR.
          apply nullable_correct in H1. simpl in H1. rewrite H1.
          apply IHr2. assumption.
        * simpl in E. injection E as <- ->. apply MAltL. apply mkSeq_ok.
          apply (MSeq U _ r2 s1 s2 rest); [|assumption].
          rewrite <- app_assoc. apply IHr1. assumption.
    - rewrite mkAlt_ok. split; intros H.
      + apply alt_inv in H as [H|H]; [apply MAltL, IHr1|apply MAltR, IHr2];
          assumption.
      + apply alt_inv in H as [H|H]; [apply MAltL, IHr1|apply MAltR, IHr2];
          assumption.
    - rewrite mkSeq_ok. split; intros H.
      + apply seq_inv in H as (s1 & s2 & -> & H1 & H2).
        rewrite <- app_assoc in H1. apply IHr in H1.
        apply (MStarS U r (c :: s1) s2 rest); assumption.
      + apply star_cons_inv in H as (s1 & s2 & -> & H1 & H2).
        apply (MSeq U _ (Star r) s1 s2 rest); [|assumption].
        rewrite <- app_assoc. apply IHr. assumption.
    - split; intros H.
      + apply MGroup. apply IHr. assumption.
      + apply group_inv in H. apply IHr. assumption.
    - split; intros H; [exfalso; exact (fail_inv _ _ H)|].
      apply endz_inv in H as [H _]. discriminate.
    - split; intros H; [exfalso; exact (fail_inv _ _ H)|].
      apply eol_inv in H as [H _]. discriminate.
  Qed.

  Theorem accepts_correct : forall s r,
    accepts U r s = true <-> Matches r s [].
  Proof.
    induction s as [|c s IH]; intros r; cbn [accepts].
    - apply nullable_correct.
    - rewrite IH. pose proof (deriv_correct r c s []) as D.
      rewrite app_nil_r in D. exact D.
  Qed.

  Theorem accepts_prefix_correct : forall s r,
    accepts_prefix U r s = true <-> MatchesPrefix U r s.
  Proof.
    unfold MatchesPrefix.
    induction s as [|c s IH]; intros r; cbn [accepts_prefix];
      rewrite orb_true_iff.
    - split.
      + intros [H|H]; [|discriminate]. exists [], []. split; [reflexivity|].
        apply nullable_correct. assumption.
      + intros (s1 & s2 & E & H). symmetry in E.
        apply app_eq_nil in E as [-> ->]. left. apply nullable_correct.
        assumption.
    - rewrite IH. split.
      + intros [H|(s1 & s2 & -> & H)].
        * exists [], (c :: s). split; [reflexivity|].
          apply nullable_correct. assumption.
        * exists (c :: s1), s2. split; [reflexivity|].
          apply deriv_correct. assumption.
      + intros (s1 & s2 & E & H). destruct s1 as [|x s1].
        * simpl in E. subst s2. left. apply nullable_correct. assumption.
        * simpl in E. injection E as <- ->. right. exists s1, s2.
          split; [reflexivity|]. apply deriv_correct. assumption.
  Qed.

  (* ------------------------------------------- captures-annotated parses *)
  Lemma matchesC_erase r s rest c c' :
    MatchesC r s rest c c' -> Matches r s rest.
  Proof.
    induction 1; try (econstructor; eauto; fail).
  Qed.

  Lemma matches_annotate r s rest :
    Matches r s rest -> forall c, exists c', MatchesC r s rest c c'.
  Proof.
    induction 1; intros c0.
    - eexists; constructor.
    - eexists; constructor; assumption.
    - destruct (IHMatches1 c0) as (c1 & H1). destruct (IHMatches2 c1) as (c2 & H2).
      exists c2. econstructor; eauto.
    - destruct (IHMatches c0) as (c1 & H1). exists c1. apply CAltL. assumption.
    - destruct (IHMatches c0) as (c1 & H1). exists c1. apply CAltR. assumption.
    - eexists; constructor.
    - destruct (IHMatches1 c0) as (c1 & H1). destruct (IHMatches2 c1) as (c2 & H2).
      exists c2. econstructor; eauto.
    - destruct (IHMatches c0) as (c1 & H1). eexists. constructor. eassumption.
    - eexists; constructor.
    - eexists; constructor.
    - eexists; constructor.
  Qed.

  (* --------------------------------------------------- context independence *)
  Lemma matches_ctx_indep r s rest :
    Matches r s rest -> anchor_free r = true -> forall rest', Matches r s rest'.
  Proof.
    induction 1; cbn [anchor_free]; intros AF rest'; try discriminate.
    - constructor.
    - constructor. assumption.
    - apply andb_true_iff in AF as [A1 A2]. constructor; auto.
    - apply andb_true_iff in AF as [A1 A2]. apply MAltL. auto.
    - apply andb_true_iff in AF as [A1 A2]. apply MAltR. auto.
    - constructor.
    - constructor; auto.
    - constructor. auto.
  Qed.

  (* -------------------------------------------------- backtracking matcher *)
  Section BTProofs.
    Variable R : Type.
    Notation kont := (@kont R).

    Lemma firstn_split (s1 s2 : list Z) :
      firstn (length (s1 ++ s2) - length s2) (s1 ++ s2) = s1.
    Proof.
      rewrite app_length, Nat.add_sub, firstn_app, firstn_all, Nat.sub_diag.
      cbn [firstn]. apply app_nil_r.
    Qed.

    Definition sound_at (a : re) (m : list Z -> caps -> kont -> option R) :=
      forall s c k x, m s c k = Some x ->
        exists s1 s2 c', s = s1 ++ s2 /\ MatchesC a s1 s2 c c' /\
                         k s2 c' = Some x.

    Lemma star_loop_sound a m : sound_at a m ->
      forall n s c k x, star_loop m n s c k = Some x ->
        exists s1 s2 c', s = s1 ++ s2 /\ MatchesC (Star a) s1 s2 c c' /\
                         k s2 c' = Some x.
    Proof.
      intros Hm. induction n as [|n IH]; intros s c k x H; cbn [star_loop] in H.
      - exists [], s, c. repeat split; [constructor|assumption].
      - destruct (m s c _) as [y|] eqn:E.
        + injection H as ->. apply Hm in E as (s1 & s2 & c1 & -> & H1 & H2).
          destruct (Nat.ltb _ _); [|discriminate].
          apply IH in H2 as (s3 & s4 & c2 & -> & H3 & H4).
          exists (s1 ++ s3), s4, c2. split; [apply app_assoc|].
          split; [|assumption]. econstructor; eauto.
        + exists [], s, c. repeat split; [constructor|assumption].
    Qed.

    Theorem bt_sound r : sound_at r (bt U r).
    Proof.
      unfold sound_at. induction r; intros s c k x H; cbn [bt] in H.
      - exists [], s, c. repeat split; [constructor|assumption].
      - destruct s as [|ch s]; [discriminate|].
        destruct (cls_match U neg items ch) eqn:E; [|discriminate].
        exists [ch], s, c. repeat split; [constructor|]; assumption.
      - apply IHr1 in H as (s1 & s2 & c1 & -> & H1 & H2).
        apply IHr2 in H2 as (s3 & s4 & c2 & -> & H3 & H4).
        exists (s1 ++ s3), s4, c2. split; [apply app_assoc|].
        split; [|assumption]. econstructor; eauto.
      - destruct (bt U r1 s c k) as [y|] eqn:E.
        + injection H as ->. apply IHr1 in E as (s1 & s2 & c1 & -> & H1 & H2).
          exists s1, s2, c1. repeat split; [apply CAltL|]; assumption.
        + apply IHr2 in H as (s1 & s2 & c1 & -> & H1 & H2).
          exists s1, s2, c1. repeat split; [apply CAltR|]; assumption.
      - eapply star_loop_sound; [exact IHr|exact H].
      - apply IHr in H as (s1 & s2 & c1 & -> & H1 & H2).
        rewrite firstn_split in H2.
        exists s1, s2, ((i, s1) :: c1). repeat split; [constructor|]; assumption.
      - destruct s; [|discriminate].
        exists [], [], c. repeat split; [constructor|assumption].
      - destruct s as [|ch [|d s]]; try discriminate.
        + exists [], [], c. repeat split; [constructor|assumption].
        + destruct (ch =? 10) eqn:E; [|discriminate]. apply Z.eqb_eq in E.
          subst ch. exists [], [10], c. repeat split; [constructor|assumption].
    Qed.

    Lemma star_loop_exit m n s c (k : kont) :
      k s c <> None -> star_loop m n s c k <> None.
    Proof.
      intros H. destruct n; cbn [star_loop]; [assumption|].
      destruct (m s c _); [discriminate|assumption].
    Qed.

    Lemma bt_complete_gen r s1 s2 :
      Matches r s1 s2 ->
      (forall c (k : kont), (forall c', k s2 c' <> None) ->
                            bt U r (s1 ++ s2) c k <> None) /\
      (forall a, r = Star a -> forall n c (k : kont),
           (length (s1 ++ s2) <= n)%nat -> (forall c', k s2 c' <> None) ->
           star_loop (bt U a) n (s1 ++ s2) c k <> None).
    Proof.
      induction 1.
      - split; [|discriminate]. intros c k Hk. cbn [bt app]. apply Hk.
      - split; [|discriminate]. intros c0 k Hk. cbn [bt app]. rewrite H. apply Hk.
      - split; [|discriminate]. intros c k Hk. cbn [bt]. rewrite <- app_assoc.
        apply IHMatches1. intros c'. apply IHMatches2. assumption.
      - split; [|discriminate]. intros c k Hk. cbn [bt].
        destruct (bt U a (s ++ rest) c k) eqn:E; [discriminate|].
        exfalso. revert E. apply IHMatches. assumption.
      - split; [|discriminate]. intros c k Hk. cbn [bt].
        destruct (bt U a (s ++ rest) c k) eqn:E; [discriminate|].
        apply IHMatches. assumption.
      - split.
        + intros c k Hk. cbn [bt]. apply star_loop_exit. apply Hk.
        + intros a0 _ n c k _ Hk. apply star_loop_exit. apply Hk.
      - assert (G : forall n c (k : kont),
                   (length ((s1 ++ s2) ++ rest) <= n)%nat ->
                   (forall c', k rest c' <> None) ->
                   star_loop (bt U a) n ((s1 ++ s2) ++ rest) c k <> None).
        { intros n c k Hn Hk. destruct s1 as [|x s1].
          - cbn [app]. apply (proj2 IHMatches2 a eq_refl); assumption.
          - destruct n as [|n]; [cbn in Hn; lia|]. cbn [star_loop].
            match goal with
            | |- match ?e with _ => _ end <> None => destruct e eqn:E
            end; [discriminate|].
            exfalso. revert E. rewrite <- app_assoc.
            apply (proj1 IHMatches1). intros c'.
            replace (Nat.ltb (length (s2 ++ rest))
                             (length ((x :: s1) ++ s2 ++ rest))) with true.
            + apply (proj2 IHMatches2 a eq_refl); [|assumption].
              rewrite <- app_assoc in Hn. cbn [app length] in Hn.
              rewrite app_length in Hn. lia.
            + symmetry. apply Nat.ltb_lt. cbn [app length].
              rewrite (app_length s1). lia. }
        split.
        + intros c k Hk. cbn [bt]. apply G; [lia|assumption].
        + intros a0 E n c k Hn Hk. injection E as <-. apply G; assumption.
      - split; [|discriminate]. intros c k Hk. cbn [bt].
        apply IHMatches. intros c'. apply Hk.
      - split; [|discriminate]. intros c k Hk. cbn [bt app]. apply Hk.
      - split; [|discriminate]. intros c k Hk. cbn [bt app]. apply Hk.
      - split; [|discriminate]. intros c k Hk. cbn [bt app].
        rewrite Z.eqb_refl. apply Hk.
    Qed.

    Theorem bt_complete r s1 s2 c (k : kont) :
      Matches r s1 s2 -> (forall c', k s2 c' <> None) ->
      bt U r (s1 ++ s2) c k <> None.
    Proof. intros H. apply (proj1 (bt_complete_gen r s1 s2 H)). Qed.
  End BTProofs.

  (* pattern.match: what is reported is a parse of a prefix, with exactly
     the captures that this parse writes *)
  Theorem re_match_sound r s c rest :
    re_match U r s = Some (c, rest) ->
    exists s1, s = s1 ++ rest /\ MatchesC r s1 rest [] c.
  Proof.
    unfold re_match. intros H.
    apply bt_sound in H as (s1 & s2 & c' & -> & H1 & H2).
    injection H2 as -> ->. exists s1. auto.
  Qed.

  (* ... and a match is reported exactly when some prefix matches *)
  Theorem re_match_some_iff r s :
    re_match U r s <> None <-> MatchesPrefix U r s.
  Proof.
    split.
    - intros H. destruct (re_match U r s) as [[c rest]|] eqn:E; [|congruence].
      apply re_match_sound in E as (s1 & -> & H1).
      exists s1, rest. split; [reflexivity|]. eapply matchesC_erase; eauto.
    - intros (s1 & s2 & -> & H). unfold re_match. apply bt_complete; [assumption|].
      intros c'. discriminate.
  Qed.

  Corollary re_match_agrees r s :
    accepts_prefix U r s = true <-> re_match U r s <> None.
  Proof. rewrite accepts_prefix_correct, re_match_some_iff. reflexivity. Qed.

  (* a pattern that ends in \Z matches a prefix iff it matches everything *)
  Lemma prefix_of_anchored a s :
    MatchesPrefix U (Seq a (Seq EndZ Eps)) s <-> Matches (Seq a (Seq EndZ Eps)) s [].
  Proof.
    split.
    - intros (s1 & s2 & -> & H).
      apply seq_inv in H as (u & v & -> & H1 & H2).
      apply seq_inv in H2 as (v1 & v2 & -> & H2 & H3).
      apply endz_inv in H2 as [-> H2]. apply eps_inv in H3. subst v2.
      cbn [app] in *. subst s2. rewrite !app_nil_r.
      rewrite <- (app_nil_r u).
      apply (MSeq U a _ u [] []); [assumption|].
      apply (MSeq U EndZ Eps [] [] []); constructor.
    - intros H. exists s, []. split; [symmetry; apply app_nil_r|assumption].
  Qed.
End P.

(* ================================================================== parser *)
(* Reading an expression does not depend on what follows its closing
   parenthesis, nor on spare fuel: if the parser reads [t] and leaves [rest],
   it reads [t ++ ")" ++ x'] the same way and leaves [rest ++ ")" ++ x'].
   This is what makes the text substituted for a <name:filter> group parse,
   inside "(?P<name>" .. ")", to the expression it parses to on its own. *)
Section ParserExt.
  Variable x' : list Z.
  Notation x := (41 :: x').

  Lemma p_escape_ext t a rest :
    p_escape t = Some (a, rest) -> p_escape (t ++ x) = Some (a, rest ++ x).
  Proof.
    unfold p_escape. destruct t as [|c t]; [discriminate|]. cbn [app].
    destruct (class_escape c).
    - intros H. injection H as <- <-. reflexivity.
    - destruct (c =? 90).
      + intros H. injection H as <- <-. reflexivity.
      + destruct (is_punct c); [|discriminate].
        intros H. injection H as <- <-. reflexivity.
  Qed.

  Lemma p_single_ext t s rest :
    p_single t = Some (s, rest) -> p_single (t ++ x) = Some (s, rest ++ x).
  Proof.
    unfold p_single. destruct t as [|c t]; [discriminate|]. cbn [app].
    destruct (c =? 92).
    - destruct t as [|d t]; [discriminate|]. cbn [app].
      destruct (class_escape d).
      + intros H. injection H as <- <-. reflexivity.
      + destruct (is_punct d); [|discriminate].
        intros H. injection H as <- <-. reflexivity.
    - destruct (c =? 91); [discriminate|].
      intros H. injection H as <- <-. reflexivity.
  Qed.

  Lemma p_items_ext : forall f t acc items rest,
    p_items f t acc = Some (items, rest) ->
    forall g, (f <= g)%nat -> p_items g (t ++ x) acc = Some (items, rest ++ x).
  Proof.
    induction f as [|f IH]; intros t acc items rest H g Hg; [discriminate|].
    destruct g as [|g]; [lia|]. assert (Hg' : (f <= g)%nat) by lia.
    cbn [p_items] in *.
    destruct t as [|c t0]; [discriminate|]. cbn [app].
    destruct (c =? 93).
    { injection H as <- <-. reflexivity. }
    change (c :: t0 ++ x) with ((c :: t0) ++ x).
    destruct (p_single (c :: t0)) as [[s1 t1]|] eqn:E1; [|discriminate].
    rewrite (p_single_ext _ _ _ E1).
    destruct t1 as [|d t2]; [discriminate|]. cbn [app].
    destruct (d =? 45).
    - destruct t2 as [|e t3]; [discriminate|]. cbn [app].
      destruct (e =? 93).
      { injection H as <- <-. reflexivity. }
      change (e :: t3 ++ x) with ((e :: t3) ++ x).
      destruct s1 as [it|lo]; [discriminate|].
      destruct (p_single (e :: t3)) as [[s2 t4]|] eqn:E2; [|discriminate].
      rewrite (p_single_ext _ _ _ E2).
      destruct s2 as [it|hi]; [discriminate|].
      destruct (hi <? lo); [discriminate|].
      apply IH; assumption.
    - change (d :: t2 ++ x) with ((d :: t2) ++ x). apply IH; assumption.
  Qed.

  Lemma p_class_ext t neg items rest :
    p_class t = Some (neg, items, rest) ->
    p_class (t ++ x) = Some (neg, items, rest ++ x).
  Proof.
    unfold p_class. destruct t as [|c t]; [discriminate|]. cbn [app].
    destruct (c =? 94).
    - destruct t as [|d t]; [discriminate|]. cbn [app].
      destruct (d =? 93); [discriminate|].
      destruct (p_items (S (length (d :: t))) (d :: t) []) as [[it r]|] eqn:E;
        [|discriminate].
      intros H. injection H as <- <- <-.
      change (d :: t ++ x) with ((d :: t) ++ x).
      rewrite (p_items_ext _ _ _ _ _ E); [reflexivity|].
      rewrite app_length. lia.
    - destruct (c =? 93); [discriminate|].
      destruct (p_items (S (length (c :: t))) (c :: t) []) as [[it r]|] eqn:E;
        [|discriminate].
      intros H. injection H as <- <- <-.
      change (c :: t ++ x) with ((c :: t) ++ x).
      rewrite (p_items_ext _ _ _ _ _ E); [reflexivity|].
      rewrite app_length. lia.
  Qed.

  Lemma p_num_ext : forall f t acc k v k' c r,
    p_num f t acc k = (v, k', c :: r) ->
    p_num f (t ++ x) acc k = (v, k', (c :: r) ++ x).
  Proof.
    induction f as [|f IH]; intros t acc k v k' c r H; cbn [p_num] in *.
    - injection H as <- <- ->. reflexivity.
    - destruct t as [|d t]; [discriminate|]. cbn [app].
      destruct (ascii_digit d).
      + apply IH. assumption.
      + injection H as <- <- <- <-. reflexivity.
  Qed.

  Lemma p_braces_ext t lo hi rest :
    p_braces t = Some (lo, hi, rest) ->
    p_braces (t ++ x) = Some (lo, hi, rest ++ x).
  Proof.
    unfold p_braces.
    destruct (p_num 4 t 0 0) as [[lo' k1] t1] eqn:E1.
    destruct (Nat.ltb 3 k1) eqn:L1; [discriminate|].
    destruct t1 as [|c t2]; [discriminate|].
    rewrite (p_num_ext _ _ _ _ _ _ _ _ E1), L1. cbn [app].
    destruct (c =? 125).
    { destruct (Nat.eqb k1 0); [discriminate|].
      intros H. injection H as <- <- <-. reflexivity. }
    destruct (c =? 44); [|discriminate].
    destruct (p_num 4 t2 0 0) as [[hi' k2] t3] eqn:E2.
    destruct (Nat.ltb 3 k2) eqn:L2; [discriminate|].
    destruct t3 as [|d t4]; [discriminate|].
    rewrite (p_num_ext _ _ _ _ _ _ _ _ E2), L2. cbn [app].
    destruct (d =? 125); [|discriminate].
    destruct (Nat.eqb k2 0).
    - destruct (Nat.eqb k1 0); [discriminate|].
      intros H. injection H as <- <- <-. reflexivity.
    - destruct (Nat.ltb hi' lo'); [discriminate|].
      intros H. injection H as <- <- <-. reflexivity.
  Qed.

  Lemma q_finish_ext a q t q' rest :
    q_finish a q t = Some (q', rest) ->
    q_finish a q (t ++ x) = Some (q', rest ++ x).
  Proof.
    unfold q_finish. destruct (s_can_empty a); [discriminate|].
    destruct t as [|c t]; cbn [app].
    - intros H. injection H as <- <-. reflexivity.
    - destruct (is_quant_char c); [discriminate|].
      intros H. injection H as <- <-. reflexivity.
  Qed.

  Lemma p_quant_ext a t q rest :
    p_quant a t = Some (q, rest) -> p_quant a (t ++ x) = Some (q, rest ++ x).
  Proof.
    unfold p_quant. destruct t as [|c t]; cbn [app].
    - intros H. injection H as <- <-. reflexivity.
    - destruct (c =? 42); [apply q_finish_ext|].
      destruct (c =? 43); [apply q_finish_ext|].
      destruct (c =? 63); [apply q_finish_ext|].
      destruct (c =? 123).
      + destruct (p_braces t) as [[[lo hi] t2]|] eqn:E; [|discriminate].
        rewrite (p_braces_ext _ _ _ _ E). apply q_finish_ext.
      + intros H. injection H as <- <-. reflexivity.
  Qed.

  Lemma p_name_ext : forall t acc nm rest,
    p_name t acc = Some (nm, rest) -> p_name (t ++ x) acc = Some (nm, rest ++ x).
  Proof.
    induction t as [|c t IH]; intros acc nm rest H; [discriminate|].
    cbn [p_name app] in *. destruct (c =? 62).
    - destruct (rev acc) as [|y l]; [discriminate|].
      destruct (ident_start y); [|discriminate].
      injection H as <- <-. reflexivity.
    - destruct (ascii_word c); [|discriminate]. apply IH. assumption.
  Qed.

  Lemma p_ghead_ext t g rest :
    p_ghead t = Some (g, rest) -> p_ghead (t ++ x) = Some (g, rest ++ x).
  Proof.
    unfold p_ghead. destruct t as [|c t1]; cbn [app].
    - intros H. injection H as <- <-. reflexivity.
    - destruct (c =? 63).
      + destruct t1 as [|d t2]; [discriminate|]. cbn [app].
        destruct (d =? 58).
        { intros H. injection H as <- <-. reflexivity. }
        destruct (d =? 80); [|discriminate].
        destruct t2 as [|e t3]; [discriminate|]. cbn [app].
        destruct (e =? 60); [|discriminate].
        destruct (p_name t3 []) as [[nm t4]|] eqn:E; [|discriminate].
        rewrite (p_name_ext _ _ _ _ E).
        intros H. injection H as <- <-. reflexivity.
      + intros H. injection H as <- <-. reflexivity.
  Qed.

  Lemma p_simple_ext c t a rest :
    p_simple c t = Some (a, rest) -> p_simple c (t ++ x) = Some (a, rest ++ x).
  Proof.
    unfold p_simple. destruct (c =? 91).
    - destruct (p_class t) as [[[neg items] t2]|] eqn:E; [|discriminate].
      rewrite (p_class_ext _ _ _ _ E). intros H. injection H as <- <-. reflexivity.
    - destruct (c =? 92); [apply p_escape_ext|].
      destruct (c =? 46). { intros H. injection H as <- <-. reflexivity. }
      destruct (c =? 36). { intros H. injection H as <- <-. reflexivity. }
      destruct (is_meta c); [discriminate|].
      intros H. injection H as <- <-. reflexivity.
  Qed.

  Lemma at_stop_ext t : at_stop t = at_stop (t ++ x) .
  Proof. destruct t; reflexivity. Qed.

  Theorem parser_ext : forall f,
    (forall t a rest, p_alt f t = Some (a, rest) ->
       forall g, (f <= g)%nat -> p_alt g (t ++ x) = Some (a, rest ++ x)) /\
    (forall t a rest, p_seq f t = Some (a, rest) ->
       forall g, (f <= g)%nat -> p_seq g (t ++ x) = Some (a, rest ++ x)) /\
    (forall t a rest, p_atom f t = Some (a, rest) ->
       forall g, (f <= g)%nat -> p_atom g (t ++ x) = Some (a, rest ++ x)).
  Proof.
    induction f as [|f (IHalt & IHseq & IHatom)].
    { repeat split; intros; discriminate. }
    repeat split; intros t a rest H g Hg; (destruct g as [|g]; [lia|]);
      assert (Hg' : (f <= g)%nat) by lia.
    - cbn [p_alt] in *.
      destruct (p_seq f t) as [[a1 t1]|] eqn:E1; [|discriminate].
      rewrite (IHseq _ _ _ E1 g Hg').
      destruct t1 as [|c t2]; cbn [app].
      + injection H as <- <-. reflexivity.
      + destruct (c =? 124).
        * destruct (p_alt f t2) as [[b t3]|] eqn:E2; [|discriminate].
          rewrite (IHalt _ _ _ E2 g Hg'). injection H as <- <-. reflexivity.
        * injection H as <- <-. reflexivity.
    - cbn [p_seq] in *. rewrite <- at_stop_ext.
      destruct (at_stop t).
      + injection H as <- <-. reflexivity.
      + destruct (p_atom f t) as [[a1 t1]|] eqn:E1; [|discriminate].
        rewrite (IHatom _ _ _ E1 g Hg').
        destruct (p_quant a1 t1) as [[q t2]|] eqn:E2; [|discriminate].
        rewrite (p_quant_ext _ _ _ _ E2).
        destruct (p_seq f t2) as [[b t3]|] eqn:E3; [|discriminate].
        rewrite (IHseq _ _ _ E3 g Hg'). injection H as <- <-. reflexivity.
    - cbn [p_atom] in *. destruct t as [|c t1]; [discriminate|]. cbn [app].
      destruct (c =? 40).
      + destruct (p_ghead t1) as [[g0 t2]|] eqn:E1; [|discriminate].
        rewrite (p_ghead_ext _ _ _ E1).
        destruct (p_alt f t2) as [[a1 t3]|] eqn:E2; [|discriminate].
        rewrite (IHalt _ _ _ E2 g Hg').
        destruct t3 as [|d t4]; [discriminate|]. cbn [app].
        destruct (d =? 41); [|discriminate].
        injection H as <- <-. reflexivity.
      + apply p_simple_ext. assumption.
  Qed.

  Corollary p_alt_ext f t a rest g :
    p_alt f t = Some (a, rest) -> (f <= g)%nat ->
    p_alt g (t ++ x) = Some (a, rest ++ x).
  Proof. intros H Hg. exact (proj1 (parser_ext f) t a rest H g Hg). Qed.
End ParserExt.
